(* Facts about model/LowRank.v *)
From Coq Require Import ZArith NArith Bool List Lia.
From NutsV Require Import lib.Fp model.Estimator model.LowRank proofs.Estimator_facts.
Import ListNotations.

Notation is_finite := Fp.is_finite.
Notation is_nan := Fp.is_nan.

(* ---------------------------------------------------------------------------------------- *)
(* the gate                                                                                  *)
(* ---------------------------------------------------------------------------------------- *)
Lemma lr_update_rejected st stds mean vals vecs mu :
  lr_gate stds mean vals vecs = false -> lr_update st stds mean vals vecs mu = st.
Proof. intros H. unfold lr_update. rewrite H. reflexivity. Qed.

Lemma lr_gate_true_parts stds mean vals vecs :
  lr_gate stds mean vals vecs = true ->
  all_finite stds = true /\ all_finite mean = true /\ all_finite vals = true /\
  forallb all_finite vecs = true /\ forallb lr_scale_ok stds = true /\ forallb lr_val_ok vals = true.
Proof.
  unfold lr_gate, lr_gate_finite. intros H.
  repeat (apply andb_true_iff in H; destruct H as [H ?]). repeat split; assumption.
Qed.

Lemma all_finite_false_in l x : In x l -> is_finite x = false -> all_finite l = false.
Proof.
  intros Hin Hx. unfold all_finite. apply not_true_is_false. intros H.
  rewrite forallb_forall in H. specialize (H x Hin). congruence.
Qed.

(* one non-finite entry anywhere (scales, translation, eigenvalues, eigenvectors) is enough *)
Theorem lr_nonfinite_entry_keeps_previous st stds mean vals vecs mu x :
  is_finite x = false ->
  (In x stds \/ In x mean \/ In x vals \/ exists col, In col vecs /\ In x col) ->
  lr_update st stds mean vals vecs mu = st.
Proof.
  intros Hx Hin. apply lr_update_rejected. apply not_true_is_false. intros Hg.
  apply lr_gate_true_parts in Hg. destruct Hg as (H1 & H2 & H3 & H4 & _).
  destruct Hin as [H | [H | [H | [col [Hc H]]]]].
  - rewrite (all_finite_false_in _ _ H Hx) in H1. discriminate.
  - rewrite (all_finite_false_in _ _ H Hx) in H2. discriminate.
  - rewrite (all_finite_false_in _ _ H Hx) in H3. discriminate.
  - rewrite forallb_forall in H4. specialize (H4 col Hc).
    rewrite (all_finite_false_in _ _ H Hx) in H4. discriminate.
Qed.

(* a scale that is not strictly positive (or whose reciprocal overflows), or an eigenvalue that is
   not strictly positive, is an invalid estimate as well *)
Theorem lr_nonpositive_keeps_previous st stds mean vals vecs mu x :
  (In x stds /\ lr_scale_ok x = false) \/ (In x vals /\ lr_val_ok x = false) ->
  lr_update st stds mean vals vecs mu = st.
Proof.
  intros Hin. apply lr_update_rejected. apply not_true_is_false. intros Hg.
  apply lr_gate_true_parts in Hg. destruct Hg as (_ & _ & _ & _ & H5 & H6).
  rewrite forallb_forall in H5, H6.
  destruct Hin as [[Hi Hb] | [Hi Hb]]; [specialize (H5 x Hi) | specialize (H6 x Hi)]; congruence.
Qed.

Theorem lr_update_installs st stds mean vals vecs mu :
  lr_gate stds mean vals vecs = true ->
  let st' := lr_update st stds mean vals vecs mu in
  lr_stds st' = stds /\ lr_inv st' = map frecip stds /\ lr_mean st' = mean /\
  lr_inner st' = Some (map fsqrt vals, map (fun v => frecip (fsqrt v)) vals, mu) /\
  lr_id st' = (lr_id st + 1)%Z.
Proof. intros H. unfold lr_update. rewrite H. simpl. repeat split. Qed.

(* the transformation changes only together with its id *)
Theorem lr_update_id_iff st stds mean vals vecs mu :
  lr_id (lr_update st stds mean vals vecs mu) = lr_id st <-> lr_update st stds mean vals vecs mu = st.
Proof.
  unfold lr_update. destruct (lr_gate stds mean vals vecs); simpl.
  - split; intros H; [lia|]. rewrite <- H at 2. simpl. destruct st; simpl in *.
    injection H as _ _ _ _ H. lia.
  - tauto.
Qed.

Theorem lr_adapt_needs_three st count upd : (count < 3)%N -> lr_adapt st count upd = st.
Proof. intros H. unfold lr_adapt. apply N.ltb_lt in H. rewrite H. reflexivity. Qed.

Theorem lr_adapt_none st count : lr_adapt st count None = st.
Proof. unfold lr_adapt. destruct (count <? 3)%N; reflexivity. Qed.

(* before the repair the gate only looked at finiteness: a zero eigenvalue (what the SPD-mean
   pipeline returns for some singular windows with a small gamma) or a zero scale passed, and the
   transformation in use had an infinite inverse scale *)
Theorem lr_prefix_gate_admits_zero :
  let st := {| lr_stds := [fone]; lr_inv := [fone]; lr_mean := [fzero]; lr_inner := None; lr_id := 0 |} in
  let a := lr_update_prefix st [fone] [fzero] [fzero] [[fone]] [fzero] in
  let b := lr_update_prefix st [fzero] [fzero] [] [] [fzero] in
  (lr_id a = 1%Z /\ match lr_inner a with Some (_, vsi, _) => map is_finite vsi = [false] | None => False end) /\
  (lr_id b = 1%Z /\ map is_finite (lr_inv b) = [false]) /\
  lr_update st [fone] [fzero] [fzero] [[fone]] [fzero] = st /\
  lr_update st [fzero] [fzero] [] [] [fzero] = st.
Proof. vm_compute. repeat split; reflexivity. Qed.

(* ---------------------------------------------------------------------------------------- *)
(* ... which is why rescale_points matters: a scale that is zero, infinite or NaN makes the   *)
(* rescaled window non-finite, for every value of the entries                                 *)
(* ---------------------------------------------------------------------------------------- *)
Lemma fmul_inf_not_finite x s : is_finite (fmul x (Binary.B754_infinity 53 1024 s)) = false.
Proof. destruct x as [sx|sx|sx pl H|sx m e H]; reflexivity. Qed.

Lemma fmul_nan_r_not_finite x y : is_nan y = true -> is_finite (fmul x y) = false.
Proof.
  destruct y as [sy|sy|sy pl H|sy m e H]; try discriminate. intros _.
  destruct x as [sx|sx|sx pl' H'|sx m' e' H']; reflexivity.
Qed.

Lemma frecip_zero s : frecip (Binary.B754_zero 53 1024 s) = Binary.B754_infinity 53 1024 s.
Proof. destruct s; reflexivity. Qed.

Lemma frecip_nan_is_nan x : is_nan x = true -> is_nan (frecip x) = true.
Proof. destruct x as [sy|sy|sy pl H|sy m e H]; try discriminate. reflexivity. Qed.

Theorem lr_bad_sigma_poisons_row sigma :
  (is_finite sigma = false \/ feq sigma fzero = true) ->
  (forall v mu, is_finite (lr_draw_scaled v mu sigma) = false) \/
  (forall g, is_finite (lr_grad_scaled g sigma) = false).
Proof.
  intros H. destruct sigma as [s|s|s pl Hp|s m e He].
  - left. intros v mu. unfold lr_draw_scaled. rewrite frecip_zero. apply fmul_inf_not_finite.
  - right. intros g. apply fmul_inf_not_finite.
  - right. intros g. apply fmul_nan_r_not_finite. reflexivity.
  - exfalso. destruct H as [H|H]; [discriminate|].
    destruct s; cbv [feq fcmp Bits.b64_compare Binary.Bcompare BinarySingleNaN.Bcompare Binary.B2BSN fzero] in H; discriminate.
Qed.

(* ---------------------------------------------------------------------------------------- *)
(* the eigenvalue filter                                                                      *)
(* ---------------------------------------------------------------------------------------- *)
Theorem lr_filter_spec cutoff vals v :
  In v (lr_filter cutoff vals) <-> In v vals /\ lr_keep cutoff v = true.
Proof. unfold lr_filter. apply filter_In. Qed.

Lemma flt_nan_l x y : is_nan x = true -> flt x y = false.
Proof. destruct x as [sy|sy|sy pl H|sy m e H]; try discriminate. intros _. reflexivity. Qed.
Lemma flt_nan_r x y : is_nan y = true -> flt x y = false.
Proof.
  destruct y as [sy|sy|sy pl H|sy m e H]; try discriminate. intros _.
  destruct x as [sx|sx|sx pl' H'|sx m' e' H']; reflexivity.
Qed.

(* a NaN eigenvalue is dropped by the filter (it never reaches the finite gate) *)
Theorem lr_keep_nan cutoff v : is_nan v = true -> lr_keep cutoff v = false.
Proof.
  intros H. unfold lr_keep, fgt. rewrite (flt_nan_r _ _ H), (flt_nan_l _ _ H). reflexivity.
Qed.

(* an infinite eigenvalue is kept for every cutoff that is not NaN or +inf, and then rejected by the gate *)
Theorem lr_keep_inf cutoff : is_finite cutoff = true -> lr_keep cutoff finf = true.
Proof.
  intros H. unfold lr_keep, fgt.
  destruct cutoff as [s|s|s pl Hp|s m e He]; try discriminate H; apply orb_true_iff; left; reflexivity.
Qed.

Theorem lr_filter_length cutoff vals : (length (lr_filter cutoff vals) <= length vals)%nat.
Proof. unfold lr_filter. induction vals as [|v vs IH]; simpl; [lia|]. destruct (lr_keep cutoff v); simpl; lia. Qed.

(* with the default cutoff 2 an eigenvalue is kept iff it lies outside [1/2, 2] *)
Definition f_two : f64 := of_bits 4611686018427387904.
(* 1/2 exactly: the filter drops the eigenvalues in [1/2, 2] *)
Theorem lr_default_cutoff_recip : to_bits (frecip f_two) = 4602678819172646912%Z.
Proof. vm_compute. reflexivity. Qed.

(* ---------------------------------------------------------------------------------------- *)
(* sigma = sqrt(sqrt(var(x)/var(g))): whatever the two variances are, it is either rejected   *)
(* later (non-finite or zero, see above) or lies in [2^-1022, 2^1022]                         *)
(* ---------------------------------------------------------------------------------------- *)
Import Coq.Reals.Reals Coq.micromega.Lra.
Import Flocq.Core.Core Flocq.IEEE754.Binary Flocq.IEEE754.Bits.
Local Open Scope R_scope.

Lemma fsqrt_finpos_good x : finpos x -> good (fsqrt x).
Proof.
  intros H. apply finpos_iff in H. destruct H as [Hf Hp].
  destruct (fsqrt_finite_pos x Hf Hp) as [Hf' HR]. split; [exact Hf'|]. rewrite HR.
  assert (Hs : is_finite_strict 53 1024 x = true).
  { destruct x as [s|s|s pl Hpl|s m e He]; try discriminate; auto.
    exfalso. simpl in Hp. lra. }
  pose proof (abs_B2R_ge_emin 53 1024 x Hs) as HL.
  pose proof (abs_B2R_lt_emax 53 1024 x) as HU.
  rewrite Rabs_pos_eq in HL, HU by lra.
  assert (HL' : bpow radix2 (2 * (-537)) <= R64 x) by exact HL.
  assert (HU' : R64 x < bpow radix2 (2 * 512)) by exact HU.
  assert (B : bpow radix2 (-537) <= sqrt (R64 x) <= bpow radix2 512).
  { split.
    - rewrite <- (sqrt_bpow radix2 (-537)). apply sqrt_le_1_alt. exact HL'.
    - rewrite <- (sqrt_bpow radix2 512). apply sqrt_le_1_alt. lra. }
  pose proof (rnd_bounds (-537) 512 _ ltac:(lia) ltac:(lia) B) as [R1 R2].
  split.
  - eapply Rle_trans; [|exact R1]. apply bpow_le. lia.
  - eapply Rle_trans; [exact R2|]. apply bpow_le. lia.
Qed.

Theorem lr_sigma_cases dv gv :
  let s := lr_sigma dv gv in
  good s \/ Fp.is_finite s = false \/ feq s fzero = true.
Proof.
  unfold lr_sigma. destruct (fdiv dv gv) as [s|s|s pl Hpl|s m e He].
  - right; right. destruct s; reflexivity.
  - right; left. destruct s; reflexivity.
  - right; left. reflexivity.
  - destruct s.
    + right; left. reflexivity.
    + left. apply fsqrt_good, fsqrt_finpos_good, finpos_iff. split; [reflexivity|].
      exact (R64_finite_sign false m e He).
Qed.

(* every sigma rescale_points can compute is either in range or makes its row non-finite *)
Theorem lr_sigma_good_or_poison dv gv :
  let s := lr_sigma dv gv in
  good s \/
  (forall v mu, Fp.is_finite (lr_draw_scaled v mu s) = false) \/
  (forall g, Fp.is_finite (lr_grad_scaled g s) = false).
Proof.
  intros s. destruct (lr_sigma_cases dv gv) as [G|B]; [left; exact G|right].
  apply lr_bad_sigma_poisons_row. exact B.
Qed.

(* ---------------------------------------------------------------------------------------- *)
(* scales in use after an accepted update: finite and strictly positive for EVERY input      *)
(* ---------------------------------------------------------------------------------------- *)
Lemma frecip_finpos x : finpos x -> Fp.is_finite (frecip x) = true -> finpos (frecip x).
Proof.
  intros H Hfin. apply finpos_iff in H. destruct H as [Hf Hp].
  assert (Hs : is_finite_strict 53 1024 x = true).
  { destruct x as [s|s|s pl Hpl|s m e He]; try discriminate; auto; try (exfalso; simpl in Hp; lra). }
  pose proof (abs_B2R_ge_emin 53 1024 x Hs) as HL.
  pose proof (abs_B2R_lt_emax 53 1024 x) as HU.
  rewrite Rabs_pos_eq in HL, HU by lra.
  assert (HL' : bpow radix2 (-1074) <= R64 x) by exact HL.
  assert (Hnz : R64 x <> 0) by lra.
  pose proof (Bdiv_correct 53 1024 eq_refl eq_refl binop_nan_pl64 BinarySingleNaN.mode_NE fone x Hnz) as H.
  rewrite R64_fone in H.
  destruct (Rlt_bool (Rabs (rnd64 (1 / R64 x))) (bpow radix2 1024)).
  - destruct H as (HR & _). apply finpos_iff. split; [exact Hfin|].
    unfold frecip, fdiv, b64_div. rewrite HR.
    assert (B : bpow radix2 (-1024) <= 1 / R64 x <= bpow radix2 1074).
    { unfold Rdiv. rewrite Rmult_1_l. split.
      - rewrite (bpow_opp radix2 1024 : bpow radix2 (-1024) = / bpow radix2 1024).
        apply Rinv_le_contravar; lra.
      - rewrite (bpow_opp radix2 (-1074) : bpow radix2 1074 = / bpow radix2 (-1074)).
        apply Rinv_le_contravar; [apply bpow_gt_0 | exact HL']. }
    pose proof (rnd_bounds (-1024) 1074 _ ltac:(lia) ltac:(lia) B) as [R1 _].
    pose proof (bpow_gt_0 radix2 (-1024)). lra.
  - exfalso. unfold frecip, fdiv, b64_div in Hfin.
    replace (binary_overflow 53 1024 BinarySingleNaN.mode_NE (xorb (Bsign 53 1024 fone) (Bsign 53 1024 x)))
      with (F754_infinity (xorb (Bsign 53 1024 fone) (Bsign 53 1024 x))) in H
      by (destruct (xorb (Bsign 53 1024 fone) (Bsign 53 1024 x)); reflexivity).
    destruct (Bdiv 53 1024 eq_refl eq_refl binop_nan_pl64 BinarySingleNaN.mode_NE fone x); simpl in H; discriminate.
Qed.

Lemma fgt_zero_finite_finpos x : Fp.is_finite x = true -> fgt x fzero = true -> finpos x.
Proof. intros Hf Hg. split; [exact Hf | exact Hg]. Qed.

Lemma forallb_Forall {A} (f : A -> bool) l : forallb f l = true -> Forall (fun x => f x = true) l.
Proof. intros H. apply Forall_forall. intros x Hx. rewrite forallb_forall in H. auto. Qed.

Theorem lr_update_scales_ok st stds mean vals vecs mu :
  lr_gate stds mean vals vecs = true ->
  let st' := lr_update st stds mean vals vecs mu in
  Forall finpos (lr_stds st') /\ Forall finpos (lr_inv st') /\
  match lr_inner st' with
  | Some (vs, vsi, _) => Forall finpos vs /\ Forall finpos vsi
  | None => False
  end.
Proof.
  intros Hg. unfold lr_update. rewrite Hg. simpl.
  apply lr_gate_true_parts in Hg. destruct Hg as (H1 & _ & H3 & _ & H5 & H6).
  assert (Fs : Forall (fun s => finpos s /\ Fp.is_finite (frecip s) = true) stds).
  { apply Forall_forall. intros s Hs. unfold all_finite in H1. rewrite forallb_forall in H1, H5.
    specialize (H1 s Hs). specialize (H5 s Hs). unfold lr_scale_ok in H5.
    apply andb_true_iff in H5. destruct H5 as [G F]. split; [split; assumption | exact F]. }
  assert (Fv : Forall finpos vals).
  { apply Forall_forall. intros v Hv. unfold all_finite in H3. rewrite forallb_forall in H3, H6.
    split; [exact (H3 v Hv) | exact (H6 v Hv)]. }
  repeat split.
  - eapply Forall_impl; [|exact Fs]. intros a [Ha _]. exact Ha.
  - apply Forall_forall. intros y Hy. apply in_map_iff in Hy. destruct Hy as [s [<- Hs]].
    rewrite Forall_forall in Fs. destruct (Fs s Hs) as [Ha Hb]. apply frecip_finpos; assumption.
  - apply Forall_forall. intros y Hy. apply in_map_iff in Hy. destruct Hy as [v [<- Hv]].
    rewrite Forall_forall in Fv. apply fsqrt_finpos, Fv, Hv.
  - apply Forall_forall. intros y Hy. apply in_map_iff in Hy. destruct Hy as [v [<- Hv]].
    rewrite Forall_forall in Fv. apply good_finpos, frecip_good, fsqrt_finpos_good, Fv, Hv.
Qed.

(* whatever is handed to update: the scales in use afterwards are finite and strictly positive
   provided they were before *)
Definition lrm_ok (st : lrm) : Prop :=
  Forall finpos (lr_stds st) /\ Forall finpos (lr_inv st) /\
  match lr_inner st with
  | Some (vs, vsi, _) => Forall finpos vs /\ Forall finpos vsi
  | None => True
  end.

Theorem lr_update_preserves_ok st stds mean vals vecs mu :
  lrm_ok st -> lrm_ok (lr_update st stds mean vals vecs mu).
Proof.
  intros Hok. destruct (lr_gate stds mean vals vecs) eqn:Hg.
  - pose proof (lr_update_scales_ok st stds mean vals vecs mu Hg) as H. simpl in H.
    unfold lrm_ok. destruct H as (A & B & C). repeat split; try assumption.
    destruct (lr_inner (lr_update st stds mean vals vecs mu)) as [[[vs vsi] m]|]; [exact C|exact I].
  - rewrite (lr_update_rejected _ _ _ _ _ _ Hg). exact Hok.
Qed.

Theorem lr_adapt_preserves_ok st count upd : lrm_ok st -> lrm_ok (lr_adapt st count upd).
Proof.
  intros Hok. unfold lr_adapt. destruct (count <? 3)%N; [exact Hok|].
  destruct upd as [[[[[stds mean] vals] vecs] mu]|]; [|exact Hok].
  apply lr_update_preserves_ok, Hok.
Qed.

(* every history of windows: induction over the sequence of adapt calls *)
Theorem lr_history_ok st (h : list (N * option (list f64 * list f64 * list f64 * list (list f64) * list f64))) :
  lrm_ok st -> lrm_ok (fold_left (fun s cu => lr_adapt s (fst cu) (snd cu)) h st).
Proof.
  revert st. induction h as [|[c u] h IH]; simpl; intros st Hok; [exact Hok|].
  apply IH, lr_adapt_preserves_ok, Hok.
Qed.

(* ---------------------------------------------------------------------------------------- *)
(* the whole life of a low-rank transformation                                                *)
(* ---------------------------------------------------------------------------------------- *)
Lemma f_1em20_eq : f_1em20' = f_1em20. Proof. reflexivity. Qed.
Lemma f_1e20_eq : f_1e20' = f_1e20. Proof. reflexivity. Qed.

Theorem lr_update_from_grad_ok st pos grad : lrm_ok (lr_update_from_grad st pos grad).
Proof.
  unfold lrm_ok, lr_update_from_grad. simpl. rewrite !map_map. repeat split; try exact I.
  - apply Forall_forall. intros y Hy. apply in_map_iff in Hy. destruct Hy as [g [<- _]].
    rewrite f_1em20_eq, f_1e20_eq. apply (grad_finpos_1e20 g fone good_fone).
  - apply Forall_forall. intros y Hy. apply in_map_iff in Hy. destruct Hy as [g [<- _]].
    rewrite f_1em20_eq, f_1e20_eq. apply (grad_finpos_1e20 g fone good_fone).
Qed.

Theorem lr_step_ok st e : (match e with EvGrad _ _ => True | EvAdapt _ _ => lrm_ok st end) -> lrm_ok (lr_step st e).
Proof.
  destruct e as [pos grad|count upd]; simpl; intros H.
  - apply lr_update_from_grad_ok.
  - apply lr_adapt_preserves_ok, H.
Qed.

(* from the first initialisation on - whatever the transformation was before it, whatever the
   gradients, windows and pipeline results are - the scales in use are finite and positive *)
Theorem lr_lifetime_ok st0 pos grad (evs : list lr_event) :
  lrm_ok (fold_left lr_step evs (lr_update_from_grad st0 pos grad)).
Proof.
  assert (H : forall evs st, lrm_ok st -> lrm_ok (fold_left lr_step evs st)).
  { clear. induction evs as [|e evs IH]; simpl; intros st Hok; [exact Hok|].
    apply IH, lr_step_ok. destruct e; [exact I|exact Hok]. }
  apply H, lr_update_from_grad_ok.
Qed.
