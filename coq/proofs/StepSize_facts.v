(* Machine-checked facts about the exact-arithmetic step-size adaptation model (model/StepSize.v):
     S1  da_monotone                 raising an acceptance statistic never lowers a later log step
     S2  da_bounded / hbar_range     cap and finite lower bound of the log step, range of hbar
     S3  da_bar_is_weighted_average  the averaged log step is a convex combination of the iterates
     S4  adam_direction / adam_m_closed_form
     S5  search_brackets             the doubling / halving search
     S6  accept_stat_range
   No Admitted / Axiom / Parameter; everything here is closed under the global context. *)
From Coq Require Import QArith Qminmax Qabs List Arith Lia Lqa Bool Setoid Morphisms.
From NutsV Require Import model.StepSize.
Import ListNotations.
Local Open Scope Q_scope.

Lemma Qmult_le_l_nonneg (x y z : Q) : x <= y -> 0 <= z -> z * x <= z * y.
Proof. intros. rewrite !(Qmult_comm z). apply Qmult_le_compat_r; assumption. Qed.

(* ====================================================================================== *)
(* S1-S3: dual averaging                                                                   *)
(* ====================================================================================== *)
Section DAFacts.
  Variables (w c m : nat -> Q) (mu cap target : Q).

  Notation adv := (daq_advance w c m mu cap target).
  Notation run := (daq_run w c m mu cap target).
  Notation trace := (daq_trace w c m mu cap target).

  Lemma daq_run_cons s a l : run s (a :: l) = run (adv s a) l.
  Proof. reflexivity. Qed.

  Lemma daq_trace_length s l : length (trace s l) = length l.
  Proof. revert s; induction l; intros; simpl; auto. Qed.

  Lemma daq_run_last_trace s d l : l <> [] -> run s l = last (trace s l) d.
  Proof.
    revert s d; induction l as [|a l IH]; intros s d H; [congruence|].
    rewrite daq_run_cons. destruct l as [|b l]; [reflexivity|].
    rewrite (IH (adv s a) d) by congruence. reflexivity.
  Qed.

  Lemma daq_trace_q_n s l :
    map q_n (trace s l) = map (fun i => (q_n s + S i)%nat) (seq 0 (length l)).
  Proof.
    revert s; induction l as [|a l IH]; intros s; simpl; [reflexivity|].
    f_equal; [lia|]. rewrite IH. rewrite <- seq_shift, map_map. simpl.
    apply map_ext; intros; lia.
  Qed.

  (* ---------------------------------------------------------------------------------- *)
  (* S1 monotonicity                                                                     *)
  (* ---------------------------------------------------------------------------------- *)
  Section Mono.
    Hypothesis Hw : forall n, 0 <= w n <= 1.
    Hypothesis Hc : forall n, 0 <= c n.
    Hypothesis Hm : forall n, 0 <= m n <= 1.

    (* s is "below" s': same count, larger hbar, smaller x and xbar *)
    Definition da_le (s s' : daq) : Prop :=
      q_n s = q_n s' /\ q_h s' <= q_h s /\ q_x s <= q_x s' /\ q_xbar s <= q_xbar s'.

    Lemma da_le_refl s : da_le s s.
    Proof. unfold da_le; repeat split; lra. Qed.

    Lemma daq_advance_mono s s' a a' :
      da_le s s' -> a <= a' -> da_le (adv s a) (adv s' a').
    Proof.
      intros (Hn & Hh & Hx & Hb) Ha. unfold da_le, daq_advance; simpl.
      rewrite <- Hn. set (n := q_n s).
      pose proof (Hw n) as [Hw0 Hw1]. pose proof (Hc n) as Hc0. pose proof (Hm n) as [Hm0 Hm1].
      set (h := (1 - w n) * q_h s + w n * (target - a)).
      set (h' := (1 - w n) * q_h s' + w n * (target - a')).
      assert (Hh' : h' <= h).
      { assert ((1 - w n) * q_h s' <= (1 - w n) * q_h s)
          by (apply Qmult_le_l_nonneg; lra).
        assert (w n * (target - a') <= w n * (target - a))
          by (apply Qmult_le_l_nonneg; lra).
        unfold h, h'; lra. }
      set (x := Qmin (mu - h * c n) cap). set (x' := Qmin (mu - h' * c n) cap).
      assert (Hx' : x <= x').
      { apply Q.min_le_compat_r.
        assert (h' * c n <= h * c n) by (apply Qmult_le_compat_r; assumption).
        lra. }
      repeat split; try assumption.
      assert (m n * x <= m n * x') by (apply Qmult_le_l_nonneg; lra).
      assert ((1 - m n) * q_xbar s <= (1 - m n) * q_xbar s')
        by (apply Qmult_le_l_nonneg; lra).
      lra.
    Qed.

    (* S1 *)
    Theorem da_monotone : forall (a a' : list Q) (s s' : daq),
      Forall2 Qle a a' ->
      q_n s = q_n s' -> q_h s' <= q_h s -> q_x s <= q_x s' -> q_xbar s <= q_xbar s' ->
      Forall2 (fun t t' => q_h t' <= q_h t /\ q_x t <= q_x t' /\ q_xbar t <= q_xbar t')
              (trace s a) (trace s' a').
    Proof.
      intros a a' s s' H. revert s s'.
      induction H as [|x x' l l' Hx Hl IH]; intros s s' Hn Hh Hxx Hb; simpl; constructor.
      - destruct (daq_advance_mono s s' x x') as (_ & ? & ? & ?); [repeat split; auto|auto|].
        auto.
      - destruct (daq_advance_mono s s' x x') as (? & ? & ? & ?); [repeat split; auto|auto|].
        apply IH; auto.
    Qed.

    Corollary da_monotone_same_start : forall (a a' : list Q) (s : daq),
      Forall2 Qle a a' ->
      Forall2 (fun t t' => q_h t' <= q_h t /\ q_x t <= q_x t' /\ q_xbar t <= q_xbar t')
              (trace s a) (trace s a').
    Proof. intros; apply da_monotone; auto; lra. Qed.

    (* the same for the final state *)
    Corollary da_monotone_run : forall (a a' : list Q) (s s' : daq),
      Forall2 Qle a a' -> da_le s s' -> da_le (run s a) (run s' a').
    Proof.
      intros a a' s s' H. revert s s'.
      induction H as [|x x' l l' Hx Hl IH]; intros s s' Hs; [exact Hs|].
      rewrite !daq_run_cons. apply IH. apply daq_advance_mono; auto.
    Qed.

    Corollary da_monotone_run_same_start : forall (a a' : list Q) (s : daq),
      Forall2 Qle a a' ->
      q_x (run s a) <= q_x (run s a') /\ q_xbar (run s a) <= q_xbar (run s a').
    Proof.
      intros a a' s H.
      destruct (da_monotone_run a a' s s H (da_le_refl s)) as (_ & _ & ? & ?); auto.
    Qed.
  End Mono.

  (* ---------------------------------------------------------------------------------- *)
  (* S2 bounds                                                                           *)
  (* ---------------------------------------------------------------------------------- *)
  Lemma daq_advance_x_le_cap s a : q_x (adv s a) <= cap.
  Proof. unfold daq_advance; simpl. apply Q.le_min_r. Qed.

  (* S2 *)
  Theorem da_bounded : forall s accs, Forall (fun t => q_x t <= cap) (trace s accs).
  Proof.
    intros s accs; revert s; induction accs as [|a l IH]; intros s; simpl; constructor.
    - apply daq_advance_x_le_cap.
    - apply IH.
  Qed.

  Corollary da_bounded_run : forall s accs, accs <> [] -> q_x (run s accs) <= cap.
  Proof.
    intros s accs H. rewrite (daq_run_last_trace s s) by assumption.
    pose proof (da_bounded s accs) as HF.
    assert (Hne : trace s accs <> []).
    { destruct accs; [congruence|simpl; congruence]. }
    rewrite Forall_forall in HF. apply HF.
    destruct (exists_last Hne) as (l' & t & ->). rewrite last_last. apply in_or_app; right; left; auto.
  Qed.

  (* if moreover xbar starts below the cap and 0 <= m <= 1, the averaged log step stays below it *)
  Theorem da_bar_bounded :
    (forall n, 0 <= m n <= 1) ->
    forall s accs, q_xbar s <= cap -> Forall (fun t => q_xbar t <= cap) (trace s accs).
  Proof.
    intros Hm s accs; revert s; induction accs as [|a l IH]; intros s Hs; simpl; constructor.
    - unfold daq_advance; simpl. set (x := Qmin _ cap).
      assert (x <= cap) by apply Q.le_min_r. destruct (Hm (q_n s)).
      assert (m (q_n s) * x <= m (q_n s) * cap) by (apply Qmult_le_l_nonneg; lra).
      assert ((1 - m (q_n s)) * q_xbar s <= (1 - m (q_n s)) * cap)
        by (apply Qmult_le_l_nonneg; lra).
      lra.
    - apply IH. unfold daq_advance; simpl. set (x := Qmin _ cap).
      assert (x <= cap) by apply Q.le_min_r. destruct (Hm (q_n s)).
      assert (m (q_n s) * x <= m (q_n s) * cap) by (apply Qmult_le_l_nonneg; lra).
      assert ((1 - m (q_n s)) * q_xbar s <= (1 - m (q_n s)) * cap)
        by (apply Qmult_le_l_nonneg; lra).
      lra.
  Qed.

  Section HbarRange.
    Hypothesis Ht : 0 <= target <= 1.
    Hypothesis Hw : forall n, 0 <= w n <= 1.

    Lemma hbar_step s a :
      0 <= a <= 1 -> target - 1 <= q_h s <= target ->
      target - 1 <= q_h (adv s a) <= target.
    Proof.
      intros Ha Hh. unfold daq_advance; simpl. destruct (Hw (q_n s)) as [H0 H1].
      set (wn := w (q_n s)) in *.
      assert ((1 - wn) * (target - 1) <= (1 - wn) * q_h s) by (apply Qmult_le_l_nonneg; lra).
      assert ((1 - wn) * q_h s <= (1 - wn) * target) by (apply Qmult_le_l_nonneg; lra).
      assert (wn * (target - 1) <= wn * (target - a)) by (apply Qmult_le_l_nonneg; lra).
      assert (wn * (target - a) <= wn * target) by (apply Qmult_le_l_nonneg; lra).
      split; lra.
    Qed.

    (* S2, second part *)
    Theorem hbar_range : forall accs s,
      Forall (fun a => 0 <= a <= 1) accs ->
      target - 1 <= q_h s <= target ->
      Forall (fun t => target - 1 <= q_h t <= target) (trace s accs).
    Proof.
      induction accs as [|a l IH]; intros s Ha Hs; simpl; constructor.
      - apply hbar_step; auto. now inversion Ha.
      - inversion Ha; subst. apply IH; auto. apply hbar_step; auto.
    Qed.

    Hypothesis Hc : forall n, 0 <= c n.

    (* one step: n = q_n s is the count the iterate is produced at *)
    Lemma x_lower_step s a :
      0 <= a <= 1 -> target - 1 <= q_h s <= target ->
      mu - target * c (q_n s) <= mu - q_h (adv s a) * c (q_n s) /\
      Qmin (mu - target * c (q_n s)) cap <= q_x (adv s a) /\
      q_x (adv s a) <= Qmin (mu - (target - 1) * c (q_n s)) cap.
    Proof.
      intros Ha Hh. pose proof (hbar_step s a Ha Hh) as [Hl Hu].
      pose proof (Hc (q_n s)) as Hc0.
      assert (H1 : q_h (adv s a) * c (q_n s) <= target * c (q_n s))
        by (apply Qmult_le_compat_r; auto).
      assert (H2 : (target - 1) * c (q_n s) <= q_h (adv s a) * c (q_n s))
        by (apply Qmult_le_compat_r; auto).
      split; [lra|].
      change (q_x (adv s a)) with (Qmin (mu - q_h (adv s a) * c (q_n s)) cap).
      split; apply Q.min_le_compat_r; lra.
    Qed.

    (* every iterate t (produced at count pred (q_n t)) has a finite lower bound *)
    Theorem x_lower_bound : forall accs s,
      Forall (fun a => 0 <= a <= 1) accs ->
      target - 1 <= q_h s <= target ->
      Forall (fun t => Qmin (mu - target * c (pred (q_n t))) cap <= q_x t /\ q_x t <= cap)
             (trace s accs).
    Proof.
      induction accs as [|a l IH]; intros s Ha Hs; simpl; constructor.
      - inversion Ha; subst. split; [|apply daq_advance_x_le_cap].
        change (pred (q_n (adv s a))) with (q_n s). apply x_lower_step; auto.
      - inversion Ha; subst. apply IH; auto. apply hbar_step; auto.
    Qed.
  End HbarRange.

  (* ---------------------------------------------------------------------------------- *)
  (* S3 the averaged iterate is a weighted average                                       *)
  (* ---------------------------------------------------------------------------------- *)
  (* da_resid n k = prod_{j=n}^{n+k-1} (1 - m j): weight left on the initial xbar after k
     updates starting at count n *)
  Fixpoint da_resid (n k : nat) : Q :=
    match k with O => 1 | S k' => (1 - m n) * da_resid (S n) k' end.
  (* da_weights n k = [Omega_0; ...; Omega_{k-1}], Omega_i = m (n+i) * prod_{j>i} (1 - m (n+j)) *)
  Fixpoint da_weights (n k : nat) : list Q :=
    match k with O => [] | S k' => (m n * da_resid (S n) k') :: da_weights (S n) k' end.

  Fixpoint qsum (l : list Q) : Q := match l with [] => 0 | x :: r => x + qsum r end.
  Fixpoint qdot (u v : list Q) : Q :=
    match u, v with x :: u', y :: v' => x * y + qdot u' v' | _, _ => 0 end.

  Lemma da_weights_length n k : length (da_weights n k) = k.
  Proof. revert n; induction k; intros; simpl; auto. Qed.

  (* S3 *)
  Theorem da_bar_is_weighted_average : forall accs s,
    q_xbar (run s accs) ==
      da_resid (q_n s) (length accs) * q_xbar s
      + qdot (da_weights (q_n s) (length accs)) (map q_x (trace s accs)).
  Proof.
    induction accs as [|a l IH]; intros s.
    - simpl. ring.
    - rewrite daq_run_cons, IH.
      change (q_n (adv s a)) with (S (q_n s)).
      cbn [length da_resid da_weights trace map qdot].
      change (q_n (adv s a)) with (S (q_n s)).
      change (q_xbar (adv s a)) with (m (q_n s) * q_x (adv s a) + (1 - m (q_n s)) * q_xbar s).
      ring.
  Qed.

  Theorem da_weights_sum : forall k n, da_resid n k + qsum (da_weights n k) == 1.
  Proof.
    induction k as [|k IH]; intros n; simpl; [ring|].
    specialize (IH (S n)). lra.
  Qed.

  Section WeightsNonneg.
    Hypothesis Hm : forall n, 0 <= m n <= 1.

    Theorem da_resid_range : forall k n, 0 <= da_resid n k <= 1.
    Proof.
      induction k as [|k IH]; intros n; simpl; [lra|].
      destruct (IH (S n)) as [H0 H1]. destruct (Hm n) as [M0 M1].
      split.
      - apply Qmult_le_0_compat; lra.
      - assert ((1 - m n) * da_resid (S n) k <= (1 - m n) * 1)
          by (apply Qmult_le_l_nonneg; lra).
        lra.
    Qed.

    Theorem da_weights_nonneg : forall k n, Forall (fun x => 0 <= x) (da_weights n k).
    Proof.
      induction k as [|k IH]; intros n; simpl; constructor; auto.
      apply Qmult_le_0_compat; [apply Hm|apply da_resid_range].
    Qed.
  End WeightsNonneg.

  (* a convex combination lies between any common bounds of its points *)
  Lemma qdot_bounds lo hi : forall ws xs,
    length ws = length xs -> Forall (fun x => 0 <= x) ws -> Forall (fun x => lo <= x <= hi) xs ->
    qsum ws * lo <= qdot ws xs <= qsum ws * hi.
  Proof.
    induction ws as [|wt ws IH]; intros [|x xs] Hl Hw Hx; simpl in *; try discriminate; [lra|].
    inversion Hw; inversion Hx; subst.
    destruct (IH xs) as [I0 I1]; auto.
    assert (wt * lo <= wt * x) by (apply Qmult_le_l_nonneg; lra).
    assert (wt * x <= wt * hi) by (apply Qmult_le_l_nonneg; lra).
    split; lra.
  Qed.

  (* corollary used by the code: count = 1 gives m = 1^(-k) = 1 and the first update forgets the
     initial value of xbar *)
  Corollary da_first_update_forgets s a :
    m (q_n s) == 1 -> q_xbar (adv s a) == q_x (adv s a).
  Proof.
    intros H. unfold daq_advance; simpl. rewrite H. ring.
  Qed.

  Lemma da_resid_zero n k : m n == 1 -> da_resid n (S k) == 0.
  Proof. intros H; simpl. rewrite H. ring. Qed.

  Corollary da_bar_forgets_initial s accs :
    m (q_n s) == 1 -> accs <> [] ->
    q_xbar (run s accs) ==
      qdot (da_weights (q_n s) (length accs)) (map q_x (trace s accs))
    /\ qsum (da_weights (q_n s) (length accs)) == 1.
  Proof.
    intros H Hne. destruct accs as [|a l]; [congruence|].
    split.
    - rewrite da_bar_is_weighted_average. cbn [length]. rewrite da_resid_zero by assumption. ring.
    - pose proof (da_weights_sum (length (a :: l)) (q_n s)) as Hs. cbn [length] in *.
      rewrite da_resid_zero in Hs by assumption. lra.
  Qed.
End DAFacts.

(* ====================================================================================== *)
(* S4: Adam                                                                                *)
(* ====================================================================================== *)
Fixpoint qpow (b : Q) (n : nat) : Q := match n with O => 1 | S n' => b * qpow b n' end.

Section AdamFacts.
  Variables (beta1 beta2 eps lr target : Q) (sq : Q -> Q).
  Variables (b1t b2t : nat -> Q).

  Notation adv := (adq_advance beta1 beta2 eps lr target sq b1t b2t).
  Definition adq_run (s : adq) (accs : list Q) : adq := fold_left adv accs s.

  Lemma sign_scale (k x : Q) : 0 < k ->
    (0 < k * x <-> 0 < x) /\ (k * x == 0 <-> x == 0) /\ (k * x < 0 <-> x < 0).
  Proof.
    intros Hk.
    assert (P : 0 < x -> 0 < k * x) by (intros; apply Qmult_lt_0_compat; auto).
    assert (N : x < 0 -> k * x < 0).
    { intros. assert (0 < k * (- x)) by (apply Qmult_lt_0_compat; lra).
      assert (k * - x == - (k * x)) by ring. lra. }
    assert (Z : x == 0 -> k * x == 0) by (intros E; rewrite E; ring).
    repeat split; auto; intros H.
    - destruct (Q_dec 0 x) as [[?|?]|E]; auto.
      + apply N in q. lra.
      + symmetry in E. apply Z in E. lra.
    - destruct (Q_dec 0 x) as [[?|?]|E]; try (symmetry; assumption).
      + apply P in q. lra.
      + apply N in q. lra.
    - destruct (Q_dec 0 x) as [[?|?]|E]; auto.
      + apply P in q. lra.
      + symmetry in E. apply Z in E. lra.
  Qed.

  Section Direction.
    Hypothesis Hlr : 0 < lr.
    Hypothesis Heps : 0 < eps.
    Hypothesis Hsq : forall x, 0 <= sq x.

    (* the increment of the log step is a positive multiple of the new first moment *)
    Lemma adam_increment s a : b1t (S (a_t s)) < 1 ->
      exists k, 0 < k /\ a_x (adv s a) == a_x s + k * a_m (adv s a).
    Proof.
      intros Hb. unfold adq_advance; cbn [a_x a_m].
      set (mm := beta1 * a_m s + (1 - beta1) * (a - target)).
      set (d1 := 1 - b1t (S (a_t s))).
      set (d2 := sq _ + eps).
      assert (H1 : 0 < d1) by (unfold d1; lra).
      assert (H2 : 0 < d2) by (unfold d2; match goal with |- 0 < sq ?v + _ => pose proof (Hsq v) end; lra).
      exists (lr * / d1 * / d2). split.
      - apply Qmult_lt_0_compat; [apply Qmult_lt_0_compat|]; auto using Qinv_lt_0_compat.
      - unfold Qdiv. ring.
    Qed.

    (* S4 *)
    Theorem adam_direction s a : b1t (S (a_t s)) < 1 ->
      (a_x s < a_x (adv s a) <-> 0 < a_m (adv s a)) /\
      (a_x (adv s a) == a_x s <-> a_m (adv s a) == 0) /\
      (a_x (adv s a) < a_x s <-> a_m (adv s a) < 0).
    Proof.
      intros Hb. destruct (adam_increment s a Hb) as (k & Hk & E).
      destruct (sign_scale k (a_m (adv s a)) Hk) as (P & Z & N).
      rewrite <- P, <- Z, <- N. rewrite E.
      repeat split; intros; lra.
    Qed.
  End Direction.

  (* sum_{i=1..t} beta1^(t-i) * (a_i - target), a_1 first *)
  Fixpoint adam_wsum (l : list Q) : Q :=
    match l with
    | [] => 0
    | a :: r => qpow beta1 (length r) * (a - target) + adam_wsum r
    end.

  Theorem adam_m_recurrence : forall l s,
    a_m (adq_run s l) == qpow beta1 (length l) * a_m s + (1 - beta1) * adam_wsum l.
  Proof.
    induction l as [|a l IH]; intros s.
    - simpl. ring.
    - change (adq_run s (a :: l)) with (adq_run (adv s a) l). rewrite IH.
      cbn [length qpow adam_wsum].
      change (a_m (adv s a)) with (beta1 * a_m s + (1 - beta1) * (a - target)).
      ring.
  Qed.

  Theorem adam_m_closed_form : forall l s,
    a_m s == 0 -> a_m (adq_run s l) == (1 - beta1) * adam_wsum l.
  Proof. intros l s H. rewrite adam_m_recurrence, H. ring. Qed.

  Lemma adam_t_run : forall l s, a_t (adq_run s l) = (a_t s + length l)%nat.
  Proof.
    induction l as [|a l IH]; intros s; simpl; [lia|].
    change (fold_left adv l (adv s a)) with (adq_run (adv s a) l). rewrite IH. simpl. lia.
  Qed.
End AdamFacts.

(* ====================================================================================== *)
(* S5: the doubling / halving search                                                       *)
(* ====================================================================================== *)
Section SearchFacts.
  Variable acc : Q -> option Q.
  Variables (initial target : Q).

  Notation loop := (search_loop acc target).

  Definition next_step (fwd : bool) (x : Q) : Q := if fwd then x * 2 else x / 2.
  (* the exact (syntactic) k-th step visited by the loop started at x:  x * 2 * 2 * ... *)
  Fixpoint iter_step (fwd : bool) (x : Q) (k : nat) : Q :=
    match k with O => x | S k' => next_step fwd (iter_step fwd x k') end.
  (* exit test of the loop *)
  Definition stop (fwd : bool) (a step : Q) : bool :=
    if fwd then Qle_bool a target || negb (Qle_bool step hi_limit)
    else Qle_bool target a || negb (Qle_bool lo_limit step).
  Definition continues (fwd : bool) (x : Q) : Prop :=
    exists a, acc x = Some a /\ stop fwd a x = false.

  Lemma iter_step_shift fwd x k : iter_step fwd (next_step fwd x) k = next_step fwd (iter_step fwd x k).
  Proof. induction k; simpl; congruence. Qed.

  Lemma iter_step_fwd x k : iter_step true x k == x * qpow 2 k.
  Proof. induction k; simpl; [ring|]. rewrite IHk. ring. Qed.

  Lemma qpow2_pos k : 0 < qpow 2 k.
  Proof. induction k; simpl; lra. Qed.

  Lemma iter_step_bwd x k : iter_step false x k == x / qpow 2 k.
  Proof.
    induction k; simpl; [field|]. rewrite IHk. pose proof (qpow2_pos k). field. lra.
  Qed.

  Lemma loop_unfold f fwd step iters :
    loop (S f) fwd step iters =
    match acc step with
    | None => SKeepInitial
    | Some a => if stop fwd a step then SFound step iters
                else loop f fwd (next_step fwd step) (S iters)
    end.
  Proof. destruct fwd; reflexivity. Qed.

  (* complete description of the loop *)
  Lemma search_loop_spec : forall fuel fwd step iters,
    match loop fuel fwd step iters with
    | SFound s k =>
        exists j, (j < fuel)%nat /\ k = (iters + j)%nat /\ s = iter_step fwd step j /\
          (exists a, acc s = Some a /\ stop fwd a s = true) /\
          (forall i, (i < j)%nat -> continues fwd (iter_step fwd step i))
    | SKeepInitial =>
        (exists j, (j < fuel)%nat /\ acc (iter_step fwd step j) = None /\
           forall i, (i < j)%nat -> continues fwd (iter_step fwd step i))
        \/ (forall i, (i < fuel)%nat -> continues fwd (iter_step fwd step i))
    end.
  Proof.
    induction fuel as [|f IH]; intros fwd step iters.
    - simpl. right. intros; lia.
    - rewrite loop_unfold. destruct (acc step) as [a|] eqn:Ea.
      + destruct (stop fwd a step) eqn:Es.
        * exists 0%nat. split; [lia|]. split; [lia|]. split; [reflexivity|].
          split; [exists a; auto|intros; lia].
        * assert (C0 : continues fwd step) by (exists a; auto).
          assert (CS : forall j, (forall i, (i < j)%nat ->
                          continues fwd (iter_step fwd (next_step fwd step) i)) ->
                        forall i, (i < S j)%nat -> continues fwd (iter_step fwd step i)).
          { intros j H [|i] Hi; [exact C0|].
            change (iter_step fwd step (S i)) with (next_step fwd (iter_step fwd step i)).
            rewrite <- iter_step_shift. apply H. lia. }
          specialize (IH fwd (next_step fwd step) (S iters)).
          destruct (loop f fwd (next_step fwd step) (S iters)) as [s k|].
          -- destruct IH as (j & Hj & Hk & Hs & Hstop & Hc).
             exists (S j). split; [lia|]. split; [lia|]. split.
             { rewrite Hs, iter_step_shift. reflexivity. }
             split; [|apply CS; exact Hc].
             destruct Hstop as (a1 & ? & ?). exists a1; split; assumption.
          -- destruct IH as [(j & Hj & Hn & Hc)|Hc].
             ++ left. exists (S j). split; [lia|]. split; [|apply CS; exact Hc].
                change (iter_step fwd step (S j)) with (next_step fwd (iter_step fwd step j)).
                rewrite <- iter_step_shift. exact Hn.
             ++ right. apply CS. exact Hc.
      + left. exists 0%nat. split; [lia|]. split; [exact Ea|intros; lia].
  Qed.

  (* number of evaluations of the oracle made by the loop *)
  Fixpoint loop_evals (fuel : nat) (fwd : bool) (step : Q) : nat :=
    match fuel with
    | O => O
    | S f => match acc step with
             | None => 1
             | Some a => if stop fwd a step then 1 else S (loop_evals f fwd (next_step fwd step))
             end
    end.

  Lemma loop_evals_le fuel fwd step : (loop_evals fuel fwd step <= fuel)%nat.
  Proof.
    revert step; induction fuel as [|f IH]; intros step; simpl; [lia|].
    destruct (acc step); [|lia]. destruct (stop fwd q step); [lia|]. specialize (IH (next_step fwd step)); lia.
  Qed.

  Lemma loop_evals_found fuel fwd step iters s k :
    loop fuel fwd step iters = SFound s k -> (S k = iters + loop_evals fuel fwd step)%nat.
  Proof.
    revert step iters; induction fuel as [|f IH]; intros step iters; [discriminate|].
    rewrite loop_unfold. simpl. destruct (acc step); [|discriminate].
    destruct (stop fwd q step).
    - intros H; inversion H; subst; lia.
    - intros H. apply IH in H. lia.
  Qed.

  (* S5 (a) *)
  Theorem search_loop_iters fuel fwd step iters s k :
    loop fuel fwd step iters = SFound s k -> (iters <= k < iters + fuel)%nat.
  Proof.
    intros H. pose proof (search_loop_spec fuel fwd step iters) as S. rewrite H in S.
    destruct S as (j & ? & ? & _). lia.
  Qed.

  Theorem search_iters_lt_100 s k : search acc initial target = SFound s k -> (k < 100)%nat.
  Proof.
    unfold search. destruct (acc initial); [|discriminate].
    intros H. apply search_loop_iters in H. lia.
  Qed.

  (* total number of oracle evaluations of `search` (1 for the initial probe + the loop) *)
  Definition search_evals : nat :=
    match acc initial with
    | None => 1
    | Some a0 => S (loop_evals 100 (negb (Qle_bool a0 target)) initial)
    end.
  Theorem search_evals_le_101 : (search_evals <= 101)%nat.
  Proof.
    unfold search_evals. destruct (acc initial); [|lia].
    pose proof (loop_evals_le 100 (negb (Qle_bool q target)) initial). lia.
  Qed.
  Theorem search_evals_found s k :
    search acc initial target = SFound s k -> search_evals = (k + 2)%nat.
  Proof.
    unfold search, search_evals. destruct (acc initial); [|discriminate].
    intros H. apply loop_evals_found in H. lia.
  Qed.

  Lemma Qle_bool_false a b : Qle_bool a b = false <-> b < a.
  Proof.
    split; intros H.
    - apply Qnot_le_lt. intros L. apply Qle_bool_iff in L. congruence.
    - destruct (Qle_bool a b) eqn:E; auto. apply Qle_bool_iff in E. lra.
  Qed.

  Lemma stop_fwd_true a x : stop true a x = true <-> a <= target \/ hi_limit < x.
  Proof.
    unfold stop. rewrite orb_true_iff, negb_true_iff, Qle_bool_iff, Qle_bool_false. tauto.
  Qed.
  Lemma stop_fwd_false a x : stop true a x = false <-> target < a /\ x <= hi_limit.
  Proof.
    unfold stop. rewrite orb_false_iff, negb_false_iff, Qle_bool_iff, Qle_bool_false. tauto.
  Qed.
  Lemma stop_bwd_true a x : stop false a x = true <-> target <= a \/ x < lo_limit.
  Proof.
    unfold stop. rewrite orb_true_iff, negb_true_iff, Qle_bool_iff, Qle_bool_false. tauto.
  Qed.
  Lemma stop_bwd_false a x : stop false a x = false <-> a < target /\ lo_limit <= x.
  Proof.
    unfold stop. rewrite orb_false_iff, negb_false_iff, Qle_bool_iff, Qle_bool_false. tauto.
  Qed.

  (* S5 (b), forward, in terms of the exact iterates of the loop *)
  Theorem search_brackets_forward a0 s k :
    acc initial = Some a0 -> target < a0 ->
    search acc initial target = SFound s k ->
    (k < 100)%nat /\
    s = iter_step true initial k /\ s == initial * qpow 2 k /\
    (exists a, acc s = Some a /\ (a <= target \/ hi_limit < s)) /\
    (forall i, (i < k)%nat -> exists a', acc (iter_step true initial i) = Some a' /\
                                       target < a' /\ iter_step true initial i <= hi_limit) /\
    (k = 0%nat -> hi_limit < initial) /\
    (initial <= hi_limit -> (1 <= k)%nat).
  Proof.
    intros Ea Ha. unfold search. rewrite Ea.
    assert (Hf : negb (Qle_bool a0 target) = true)
      by (apply negb_true_iff, Qle_bool_false; assumption).
    rewrite Hf. intros H.
    pose proof (search_loop_spec 100 true initial 0) as S. rewrite H in S.
    destruct S as (j & Hj & Hk & Hs & (a & Hacc & Hstop) & Hc). simpl in Hk. subst k.
    assert (K0 : j = 0%nat -> hi_limit < initial).
    { intros ->. simpl in Hs. subst s. rewrite Ea in Hacc. inversion Hacc; subst a.
      apply stop_fwd_true in Hstop. destruct Hstop; [lra|assumption]. }
    split; [lia|]. split; [exact Hs|]. split; [|split; [|split; [|split]]]; auto.
    - rewrite Hs. apply iter_step_fwd.
    - exists a. split; auto. apply stop_fwd_true; assumption.
    - intros i Hi. destruct (Hc i Hi) as (a' & E & St). exists a'. split; auto.
      apply stop_fwd_false; assumption.
    - intros Hle. destruct j; [|lia]. specialize (K0 eq_refl). lra.
  Qed.

  (* S5 (b), backward *)
  Theorem search_brackets_backward a0 s k :
    acc initial = Some a0 -> a0 <= target ->
    search acc initial target = SFound s k ->
    (k < 100)%nat /\
    s = iter_step false initial k /\ s == initial / qpow 2 k /\
    (exists a, acc s = Some a /\ (target <= a \/ s < lo_limit)) /\
    (forall i, (i < k)%nat -> exists a', acc (iter_step false initial i) = Some a' /\
                                       a' < target /\ lo_limit <= iter_step false initial i) /\
    (k = 0%nat -> a0 == target \/ initial < lo_limit).
  Proof.
    intros Ea Ha. unfold search. rewrite Ea.
    assert (Hf : negb (Qle_bool a0 target) = false)
      by (apply negb_false_iff, Qle_bool_iff; assumption).
    rewrite Hf. intros H.
    pose proof (search_loop_spec 100 false initial 0) as S. rewrite H in S.
    destruct S as (j & Hj & Hk & Hs & (a & Hacc & Hstop) & Hc). simpl in Hk. subst k.
    split; [lia|]. split; [exact Hs|]. split; [|split; [|split]].
    - rewrite Hs. apply iter_step_bwd.
    - exists a. split; auto. apply stop_bwd_true; assumption.
    - intros i Hi. destruct (Hc i Hi) as (a' & E & St). exists a'. split; auto.
      apply stop_bwd_false; assumption.
    - intros ->. simpl in Hs. subst s. rewrite Ea in Hacc. inversion Hacc; subst a.
      apply stop_bwd_true in Hstop. destruct Hstop; [left; lra|right; assumption].
  Qed.

  (* the same brackets in the s/2 and 2*s form, for an oracle that respects Qeq *)
  Section ProperAcc.
    Hypothesis acc_proper : Proper (Qeq ==> eq) acc.

    Corollary search_brackets_forward_half a0 s k :
      acc initial = Some a0 -> target < a0 -> initial <= hi_limit ->
      search acc initial target = SFound s k ->
      (1 <= k < 100)%nat /\ s == initial * qpow 2 k /\
      (exists a, acc s = Some a /\ (a <= target \/ hi_limit < s)) /\
      (exists a', acc (s / 2) = Some a' /\ target < a' /\ s / 2 <= hi_limit).
    Proof.
      intros Ea Ha Hi H.
      destruct (search_brackets_forward a0 s k Ea Ha H) as (Hk & Hs & Hq & Hst & Hprev & _ & K1).
      specialize (K1 Hi). split; [lia|]. split; [exact Hq|]. split; [exact Hst|].
      destruct k as [|k]; [lia|].
      destruct (Hprev k) as (a' & E & T & L); [lia|].
      assert (Eq : s / 2 == iter_step true initial k).
      { rewrite Hs. simpl. field. }
      exists a'. rewrite (acc_proper _ _ Eq). rewrite Eq. auto.
    Qed.

    Corollary search_brackets_backward_double a0 s k :
      acc initial = Some a0 -> a0 <= target -> (1 <= k)%nat ->
      search acc initial target = SFound s k ->
      (k < 100)%nat /\ s == initial / qpow 2 k /\
      (exists a, acc s = Some a /\ (target <= a \/ s < lo_limit)) /\
      (exists a', acc (2 * s) = Some a' /\ a' < target /\ lo_limit <= 2 * s).
    Proof.
      intros Ea Ha K1 H.
      destruct (search_brackets_backward a0 s k Ea Ha H) as (Hk & Hs & Hq & Hst & Hprev & _).
      split; [lia|]. split; [exact Hq|]. split; [exact Hst|].
      destruct k as [|k]; [lia|].
      destruct (Hprev k) as (a' & E & T & L); [lia|].
      assert (Eq : 2 * s == iter_step false initial k).
      { rewrite Hs. simpl. field. }
      exists a'. rewrite (acc_proper _ _ Eq). rewrite Eq. auto.
    Qed.
  End ProperAcc.

  (* S5 (c): every other exit keeps the initial step: a divergence at the initial probe or at some
     visited step, or 100 visited steps without reaching the stopping test *)
  Theorem search_keep_initial_cases :
    search acc initial target = SKeepInitial ->
    acc initial = None \/
    exists a0, acc initial = Some a0 /\
      let fwd := negb (Qle_bool a0 target) in
      (exists j, (1 <= j < 100)%nat /\ acc (iter_step fwd initial j) = None /\
                 forall i, (i < j)%nat -> continues fwd (iter_step fwd initial i))
      \/ (forall i, (i < 100)%nat -> continues fwd (iter_step fwd initial i)).
  Proof.
    unfold search. destruct (acc initial) as [a0|] eqn:Ea; [|auto].
    intros H. right. exists a0. split; auto. cbv zeta.
    pose proof (search_loop_spec 100 (negb (Qle_bool a0 target)) initial 0) as S.
    rewrite H in S. destruct S as [(j & Hj & Hn & Hc)|Hc]; [left|right; auto].
    exists j. split; [|auto]. destruct j; [|lia]. simpl in Hn. congruence.
  Qed.

  Theorem search_result_cases :
    (exists s k, search acc initial target = SFound s k) \/ search acc initial target = SKeepInitial.
  Proof. destruct (search acc initial target); eauto. Qed.

  (* a divergence anywhere on the visited path gives SKeepInitial *)
  Theorem search_divergence_keeps a0 j :
    acc initial = Some a0 ->
    let fwd := negb (Qle_bool a0 target) in
    (j < 100)%nat -> acc (iter_step fwd initial j) = None ->
    (forall i, (i < j)%nat -> continues fwd (iter_step fwd initial i)) ->
    search acc initial target = SKeepInitial.
  Proof.
    intros Ea fwd Hj Hn Hc. unfold search. rewrite Ea. fold fwd.
    pose proof (search_loop_spec 100 fwd initial 0) as S.
    destruct (loop 100 fwd initial 0) as [s k|]; [|reflexivity].
    destruct S as (j' & Hj' & _ & Hs & (a & Hacc & Hstop) & Hc').
    destruct (lt_eq_lt_dec j j') as [[L|E]|G].
    - destruct (Hc' j L) as (a' & E' & _). congruence.
    - subst j' s. congruence.
    - destruct (Hc j' G) as (a' & E' & St). subst s. rewrite Hacc in E'. inversion E'; subst. congruence.
  Qed.
End SearchFacts.

(* ====================================================================================== *)
(* S6: acceptance statistics                                                               *)
(* ====================================================================================== *)
Theorem accept_stat_range e : 0 < e -> e <= 1 -> 0 <= acc_stat e <= 1.
Proof. unfold acc_stat; intros; lra. Qed.

Theorem accept_stat_sym_range e f :
  0 < e -> e <= 1 -> e <= f -> 0 < acc_stat_sym e f /\ acc_stat_sym e f <= 1.
Proof.
  intros H0 H1 Hf. unfold acc_stat_sym. split.
  - apply Qlt_shift_div_l; lra.
  - apply Qle_shift_div_r; lra.
Qed.

(* with e = min(1, f), as computed by the collector *)
Corollary accept_stat_sym_range_min f :
  0 < f -> 0 <= acc_stat_sym (Qmin 1 f) f <= 1.
Proof.
  intros Hf.
  destruct (accept_stat_sym_range (Qmin 1 f) f) as [A B].
  - apply Q.min_glb_lt; lra.
  - apply Q.le_min_l.
  - apply Q.le_min_r.
  - split; lra.
Qed.

(* ====================================================================================== *)
(* axiom audit: every line prints "Closed under the global context"                        *)
(* ====================================================================================== *)
Print Assumptions da_monotone.
Print Assumptions da_monotone_same_start.
Print Assumptions da_monotone_run_same_start.
Print Assumptions da_bounded.
Print Assumptions da_bounded_run.
Print Assumptions da_bar_bounded.
Print Assumptions hbar_range.
Print Assumptions x_lower_step.
Print Assumptions x_lower_bound.
Print Assumptions da_bar_is_weighted_average.
Print Assumptions da_weights_sum.
Print Assumptions da_resid_range.
Print Assumptions da_weights_nonneg.
Print Assumptions qdot_bounds.
Print Assumptions da_first_update_forgets.
Print Assumptions da_bar_forgets_initial.
Print Assumptions adam_direction.
Print Assumptions adam_m_recurrence.
Print Assumptions adam_m_closed_form.
Print Assumptions search_loop_spec.
Print Assumptions search_loop_iters.
Print Assumptions search_iters_lt_100.
Print Assumptions search_evals_le_101.
Print Assumptions search_evals_found.
Print Assumptions search_brackets_forward.
Print Assumptions search_brackets_backward.
Print Assumptions search_brackets_forward_half.
Print Assumptions search_brackets_backward_double.
Print Assumptions search_keep_initial_cases.
Print Assumptions search_divergence_keeps.
Print Assumptions accept_stat_range.
Print Assumptions accept_stat_sym_range.
Print Assumptions accept_stat_sym_range_min.

(* search2 with the first trial taken from the same oracle is search *)
Lemma search2_is_search : forall (acc : Q -> option Q) (initial target : Q),
  search2 acc initial target (acc initial) = search acc initial target.
Proof. intros. reflexivity. Qed.

(* ====================================================================================== *)
(* S5': search2 with an ARBITRARY first trial (not assumed equal to `acc initial`): when    *)
(* the search goes down, `acc` is the backward acceptance and the loop re-evaluates         *)
(* `initial`, so the loop may stop at once (k = 0) in either direction                      *)
(* ====================================================================================== *)
Section Search2Facts.
  Variable acc : Q -> option Q.
  Variables (initial target : Q).

  Lemma search2_some a0 :
    search2 acc initial target (Some a0) =
    search_loop acc target 100 (negb (Qle_bool a0 target)) initial 0.
  Proof. reflexivity. Qed.

  Theorem search2_iters_lt_100 a_first s k :
    search2 acc initial target a_first = SFound s k -> (k < 100)%nat.
  Proof.
    destruct a_first as [a0|]; [|discriminate]. rewrite search2_some.
    intros H. apply search_loop_iters in H. lia.
  Qed.

  (* number of acceptance evaluations: the first trial + the trials of the loop *)
  Definition search2_evals (a_first : option Q) : nat :=
    match a_first with
    | None => 1
    | Some a0 => S (loop_evals acc target 100 (negb (Qle_bool a0 target)) initial)
    end.

  Theorem search2_evals_le_101 a_first : (search2_evals a_first <= 101)%nat.
  Proof.
    destruct a_first as [a0|]; unfold search2_evals; [|lia].
    pose proof (loop_evals_le acc target 100 (negb (Qle_bool a0 target)) initial). lia.
  Qed.

  Theorem search2_evals_found a_first s k :
    search2 acc initial target a_first = SFound s k -> search2_evals a_first = (k + 2)%nat.
  Proof.
    destruct a_first as [a0|]; [|discriminate]. rewrite search2_some. unfold search2_evals.
    intros H. apply loop_evals_found in H. lia.
  Qed.

  Theorem search2_found_iters_evals a_first s k :
    search2 acc initial target a_first = SFound s k ->
    (k < 100)%nat /\ search2_evals a_first = (k + 2)%nat.
  Proof.
    intros H. split; [exact (search2_iters_lt_100 a_first s k H)|exact (search2_evals_found a_first s k H)].
  Qed.

  Lemma search2_evals_is_search_evals :
    search2_evals (acc initial) = search_evals acc initial target.
  Proof. reflexivity. Qed.

  (* brackets in terms of the exact iterates of the loop *)
  Theorem search2_brackets_forward_iter a0 s k :
    target < a0 ->
    search2 acc initial target (Some a0) = SFound s k ->
    (k < 100)%nat /\
    s = iter_step true initial k /\ s == initial * qpow 2 k /\
    (exists a, acc s = Some a /\ (a <= target \/ hi_limit < s)) /\
    (forall i, (i < k)%nat -> exists a', acc (iter_step true initial i) = Some a' /\
                                       target < a' /\ iter_step true initial i <= hi_limit).
  Proof.
    intros Ha. rewrite search2_some.
    assert (Hf : negb (Qle_bool a0 target) = true)
      by (apply negb_true_iff, Qle_bool_false; assumption).
    rewrite Hf. intros H.
    pose proof (search_loop_spec acc target 100 true initial 0) as S. rewrite H in S.
    destruct S as (j & Hj & Hk & Hs & (a & Hacc & Hstop) & Hc). simpl in Hk. subst k.
    split; [lia|]. split; [exact Hs|]. split; [|split].
    - rewrite Hs. apply iter_step_fwd.
    - exists a. split; auto. apply (stop_fwd_true acc initial) in Hstop; assumption.
    - intros i Hi. destruct (Hc i Hi) as (a' & E & St). exists a'. split; auto.
      apply (stop_fwd_false acc initial) in St; assumption.
  Qed.

  Theorem search2_brackets_backward_iter a0 s k :
    a0 <= target ->
    search2 acc initial target (Some a0) = SFound s k ->
    (k < 100)%nat /\
    s = iter_step false initial k /\ s == initial / qpow 2 k /\
    (exists a, acc s = Some a /\ (target <= a \/ s < lo_limit)) /\
    (forall i, (i < k)%nat -> exists a', acc (iter_step false initial i) = Some a' /\
                                       a' < target /\ lo_limit <= iter_step false initial i).
  Proof.
    intros Ha. rewrite search2_some.
    assert (Hf : negb (Qle_bool a0 target) = false)
      by (apply negb_false_iff, Qle_bool_iff; assumption).
    rewrite Hf. intros H.
    pose proof (search_loop_spec acc target 100 false initial 0) as S. rewrite H in S.
    destruct S as (j & Hj & Hk & Hs & (a & Hacc & Hstop) & Hc). simpl in Hk. subst k.
    split; [lia|]. split; [exact Hs|]. split; [|split].
    - rewrite Hs. apply iter_step_bwd.
    - exists a. split; auto. apply (stop_bwd_true acc initial) in Hstop; assumption.
    - intros i Hi. destruct (Hc i Hi) as (a' & E & St). exists a'. split; auto.
      apply (stop_bwd_false acc initial) in St; assumption.
  Qed.

  (* SKeepInitial: exactly a diverged first trial, a divergence at some visited step, or 100 visited
     steps none of which reaches the stopping test *)
  Theorem search2_keeps_initial_iff a_first :
    search2 acc initial target a_first = SKeepInitial <->
    a_first = None \/
    exists a0, a_first = Some a0 /\
      (let fwd := negb (Qle_bool a0 target) in
       (exists j, (j < 100)%nat /\ acc (iter_step fwd initial j) = None /\
                  forall i, (i < j)%nat -> continues acc target fwd (iter_step fwd initial i))
       \/ (forall i, (i < 100)%nat -> continues acc target fwd (iter_step fwd initial i))).
  Proof.
    split.
    - destruct a_first as [a0|]; [|left; reflexivity].
      rewrite search2_some. intros H. right. exists a0. split; [reflexivity|]. cbv zeta.
      pose proof (search_loop_spec acc target 100 (negb (Qle_bool a0 target)) initial 0) as S.
      rewrite H in S. exact S.
    - intros [->|(a0 & -> & H)]; [reflexivity|]. cbv zeta in H. rewrite search2_some.
      set (fwd := negb (Qle_bool a0 target)) in *.
      pose proof (search_loop_spec acc target 100 fwd initial 0) as S.
      destruct (search_loop acc target 100 fwd initial 0) as [s k|]; [exfalso|reflexivity].
      destruct S as (j' & Hj' & _ & Hs & (a & Hacc & Hstop) & Hc').
      destruct H as [(j & Hj & Hn & Hc)|Hc].
      + destruct (lt_eq_lt_dec j j') as [[L|E]|G].
        * destruct (Hc' j L) as (a' & E' & _). congruence.
        * subst j' s. congruence.
        * destruct (Hc j' G) as (a' & E' & St). subst s. rewrite Hacc in E'.
          inversion E'; subst. congruence.
      + destruct (Hc j' Hj') as (a' & E' & St). subst s. rewrite Hacc in E'.
        inversion E'; subst. congruence.
  Qed.

  Corollary search2_first_divergence_keeps : search2 acc initial target None = SKeepInitial.
  Proof. reflexivity. Qed.

  Corollary search2_divergence_keeps a0 j :
    let fwd := negb (Qle_bool a0 target) in
    (j < 100)%nat -> acc (iter_step fwd initial j) = None ->
    (forall i, (i < j)%nat -> continues acc target fwd (iter_step fwd initial i)) ->
    search2 acc initial target (Some a0) = SKeepInitial.
  Proof.
    intros fwd Hj Hn Hc. apply search2_keeps_initial_iff. right. exists a0.
    split; [reflexivity|]. left. exists j. auto.
  Qed.

  Corollary search2_exhaustion_keeps a0 :
    let fwd := negb (Qle_bool a0 target) in
    (forall i, (i < 100)%nat -> continues acc target fwd (iter_step fwd initial i)) ->
    search2 acc initial target (Some a0) = SKeepInitial.
  Proof.
    intros fwd Hc. apply search2_keeps_initial_iff. right. exists a0.
    split; [reflexivity|]. right. exact Hc.
  Qed.

  (* the s/2, 2*s and initial * 2^(+-j) forms, for an oracle that respects Qeq *)
  Section ProperAcc2.
    Hypothesis acc_proper : Proper (Qeq ==> eq) acc.

    Theorem search2_brackets_forward a0 s k :
      target < a0 -> initial <= hi_limit ->
      search2 acc initial target (Some a0) = SFound s k ->
      s == initial * qpow 2 k /\ (k < 100)%nat /\
      (exists a, acc s = Some a /\ (a <= target \/ hi_limit < s)) /\
      ((1 <= k)%nat -> exists a', acc (s / 2) = Some a' /\ target < a' /\ s / 2 <= hi_limit).
    Proof.
      intros Ha _ H.
      destruct (search2_brackets_forward_iter a0 s k Ha H) as (Hk & Hs & Hq & Hst & Hprev).
      split; [exact Hq|]. split; [exact Hk|]. split; [exact Hst|]. intros K1.
      destruct k as [|k]; [lia|].
      destruct (Hprev k) as (a' & E & T & L); [lia|].
      assert (Eq : s / 2 == iter_step true initial k).
      { rewrite Hs. simpl. field. }
      exists a'. rewrite (acc_proper _ _ Eq). rewrite Eq. auto.
    Qed.

    Theorem search2_brackets_backward a0 s k :
      a0 <= target ->
      search2 acc initial target (Some a0) = SFound s k ->
      s == initial / qpow 2 k /\ (k < 100)%nat /\
      (exists a, acc s = Some a /\ (target <= a \/ s < lo_limit)) /\
      ((1 <= k)%nat -> exists a', acc (2 * s) = Some a' /\ a' < target /\ lo_limit <= 2 * s).
    Proof.
      intros Ha H.
      destruct (search2_brackets_backward_iter a0 s k Ha H) as (Hk & Hs & Hq & Hst & Hprev).
      split; [exact Hq|]. split; [exact Hk|]. split; [exact Hst|]. intros K1.
      destruct k as [|k]; [lia|].
      destruct (Hprev k) as (a' & E & T & L); [lia|].
      assert (Eq : 2 * s == iter_step false initial k).
      { rewrite Hs. simpl. field. }
      exists a'. rewrite (acc_proper _ _ Eq). rewrite Eq. auto.
    Qed.

    Lemma continues_fwd_ladder i :
      continues acc target true (iter_step true initial i) <->
      exists a, acc (initial * qpow 2 i) = Some a /\ target < a /\ initial * qpow 2 i <= hi_limit.
    Proof.
      unfold continues. rewrite (acc_proper _ _ (iter_step_fwd initial i)).
      split; intros (a & E & H); exists a; (split; [exact E|]).
      - apply (stop_fwd_false acc initial) in H. rewrite <- (iter_step_fwd initial i). exact H.
      - apply (stop_fwd_false acc initial). rewrite (iter_step_fwd initial i). exact H.
    Qed.

    Lemma continues_bwd_ladder i :
      continues acc target false (iter_step false initial i) <->
      exists a, acc (initial / qpow 2 i) = Some a /\ a < target /\ lo_limit <= initial / qpow 2 i.
    Proof.
      unfold continues. rewrite (acc_proper _ _ (iter_step_bwd initial i)).
      split; intros (a & E & H); exists a; (split; [exact E|]).
      - apply (stop_bwd_false acc initial) in H. rewrite <- (iter_step_bwd initial i). exact H.
      - apply (stop_bwd_false acc initial). rewrite (iter_step_bwd initial i). exact H.
    Qed.

    Lemma keeps_fwd_ladder :
      ((exists j, (j < 100)%nat /\ acc (iter_step true initial j) = None /\
                  forall i, (i < j)%nat -> continues acc target true (iter_step true initial i))
       \/ (forall i, (i < 100)%nat -> continues acc target true (iter_step true initial i))) <->
      ((exists j, (j < 100)%nat /\ acc (initial * qpow 2 j) = None /\
                  forall i, (i < j)%nat -> exists a, acc (initial * qpow 2 i) = Some a /\
                                                   target < a /\ initial * qpow 2 i <= hi_limit)
       \/ (forall i, (i < 100)%nat -> exists a, acc (initial * qpow 2 i) = Some a /\
                                              target < a /\ initial * qpow 2 i <= hi_limit)).
    Proof.
      split; (intros [(j & Hj & Hn & Hc)|Hc];
        [left; exists j; split; [exact Hj|]; split;
           [|intros i Hi; apply continues_fwd_ladder; auto]
        |right; intros i Hi; apply continues_fwd_ladder; auto]).
      - rewrite <- (acc_proper _ _ (iter_step_fwd initial j)). exact Hn.
      - rewrite (acc_proper _ _ (iter_step_fwd initial j)). exact Hn.
    Qed.

    Lemma keeps_bwd_ladder :
      ((exists j, (j < 100)%nat /\ acc (iter_step false initial j) = None /\
                  forall i, (i < j)%nat -> continues acc target false (iter_step false initial i))
       \/ (forall i, (i < 100)%nat -> continues acc target false (iter_step false initial i))) <->
      ((exists j, (j < 100)%nat /\ acc (initial / qpow 2 j) = None /\
                  forall i, (i < j)%nat -> exists a, acc (initial / qpow 2 i) = Some a /\
                                                   a < target /\ lo_limit <= initial / qpow 2 i)
       \/ (forall i, (i < 100)%nat -> exists a, acc (initial / qpow 2 i) = Some a /\
                                              a < target /\ lo_limit <= initial / qpow 2 i)).
    Proof.
      split; (intros [(j & Hj & Hn & Hc)|Hc];
        [left; exists j; split; [exact Hj|]; split;
           [|intros i Hi; apply continues_bwd_ladder; auto]
        |right; intros i Hi; apply continues_bwd_ladder; auto]).
      - rewrite <- (acc_proper _ _ (iter_step_bwd initial j)). exact Hn.
      - rewrite (acc_proper _ _ (iter_step_bwd initial j)). exact Hn.
    Qed.

    Theorem search2_keeps_initial_iff_diverged_or_exhausted a_first :
      search2 acc initial target a_first = SKeepInitial <->
      a_first = None \/
      exists a0, a_first = Some a0 /\
        ((target < a0 /\
          ((exists j, (j < 100)%nat /\ acc (initial * qpow 2 j) = None /\
                      forall i, (i < j)%nat -> exists a, acc (initial * qpow 2 i) = Some a /\
                                                       target < a /\ initial * qpow 2 i <= hi_limit)
           \/ (forall i, (i < 100)%nat -> exists a, acc (initial * qpow 2 i) = Some a /\
                                                  target < a /\ initial * qpow 2 i <= hi_limit)))
         \/
         (a0 <= target /\
          ((exists j, (j < 100)%nat /\ acc (initial / qpow 2 j) = None /\
                      forall i, (i < j)%nat -> exists a, acc (initial / qpow 2 i) = Some a /\
                                                       a < target /\ lo_limit <= initial / qpow 2 i)
           \/ (forall i, (i < 100)%nat -> exists a, acc (initial / qpow 2 i) = Some a /\
                                                  a < target /\ lo_limit <= initial / qpow 2 i)))).
    Proof.
      rewrite search2_keeps_initial_iff.
      split; (intros [H|(a0 & E & H)]; [left; exact H|]); right; exists a0; (split; [exact E|]).
      - cbv zeta in H. destruct (Qle_bool a0 target) eqn:Q; simpl in H.
        + right. split; [apply Qle_bool_iff; exact Q|]. apply keeps_bwd_ladder; exact H.
        + left. split; [apply Qle_bool_false; exact Q|]. apply keeps_fwd_ladder; exact H.
      - cbv zeta. destruct H as [(L & H)|(L & H)].
        + apply Qle_bool_false in L. rewrite L. simpl. apply keeps_fwd_ladder; exact H.
        + apply Qle_bool_iff in L. rewrite L. simpl. apply keeps_bwd_ladder; exact H.
    Qed.
  End ProperAcc2.
End Search2Facts.

Print Assumptions search2_iters_lt_100.
Print Assumptions search2_evals_le_101.
Print Assumptions search2_evals_found.
Print Assumptions search2_found_iters_evals.
Print Assumptions search2_brackets_forward_iter.
Print Assumptions search2_brackets_backward_iter.
Print Assumptions search2_brackets_forward.
Print Assumptions search2_brackets_backward.
Print Assumptions search2_keeps_initial_iff.
Print Assumptions search2_divergence_keeps.
Print Assumptions search2_exhaustion_keeps.
Print Assumptions search2_keeps_initial_iff_diverged_or_exhausted.
