(* Algebraic facts about the integrator / affine-transformation model (model/Leapfrog.v):
   reversibility, round trips of the transformations, low-rank algebra, gradient pull-back,
   the "textbook" velocity-Verlet form of the whitened step, exact conservation for the
   ExactNormal flow on a standard normal, shear structure / unit Jacobian determinant,
   and the modified energy of the harmonic oscillator.

   Everything is proved for an arbitrary commutative ring T with Leibniz equality
   (ring_theory ... (@eq T)); inverses only appear through explicit hypotheses such as
   sigma_i * inv_sigma_i = one.  At the end of the file every theorem is instantiated for
   T := Qc with the concrete definitions of model/LeapfrogQc.v. *)
From Coq Require Import List ZArith QArith Qcanon Ring Lia Arith.
From NutsV Require Import model.Leapfrog model.LeapfrogQc.
Import ListNotations.

Ltac len_inj :=
  repeat match goal with
  | H : S _ = S _ |- _ => apply eq_add_S in H
  | H : length (_ :: _) = _ |- _ => simpl in H
  | H : _ = length (_ :: _) |- _ => simpl in H
  | H : length [] = _ |- _ => simpl in H
  | H : _ = length [] |- _ => simpl in H
  | H : O = S _ |- _ => discriminate H
  | H : S _ = O |- _ => discriminate H
  end.

Ltac unf :=
  unfold Leapfrog.vadd, Leapfrog.vsub, Leapfrog.vmul, Leapfrog.axpy, Leapfrog.vscale in *.

Section Facts.
  Variable T : Type.
  Variables (zero one : T) (add sub mul : T -> T -> T) (opp : T -> T).
  Hypothesis Tring : ring_theory zero one add mul sub opp (@eq T).
  Add Ring Tr : Tring.

  Declare Scope T_scope.
  Delimit Scope T_scope with T.
  Notation "x + y" := (add x y) : T_scope.
  Notation "x - y" := (sub x y) : T_scope.
  Notation "x * y" := (mul x y) : T_scope.
  Notation "- x" := (opp x) : T_scope.
  Local Open Scope T_scope.

  Notation vec := (list T).
  Notation vmap2 := (Leapfrog.vmap2 T).
  Notation vadd := (Leapfrog.vadd T add).
  Notation vsub := (Leapfrog.vsub T sub).
  Notation vmul := (Leapfrog.vmul T mul).
  Notation vscale := (Leapfrog.vscale T mul).
  Notation axpy := (Leapfrog.axpy T add mul).
  Notation dot := (Leapfrog.dot T zero add mul).
  Notation diag := (Leapfrog.diag T).
  Notation lowrank := (Leapfrog.lowrank T).
  Notation diag_fwd := (Leapfrog.diag_fwd T add mul).
  Notation diag_inv := (Leapfrog.diag_inv T sub mul).
  Notation diag_grad := (Leapfrog.diag_grad T mul).
  Notation LA := (Leapfrog.lowrank_apply T zero one add sub mul).
  Notation lr_fwd := (Leapfrog.lr_fwd T zero one add sub mul).
  Notation lr_inv := (Leapfrog.lr_inv T zero one add sub mul).
  Notation lr_grad := (Leapfrog.lr_grad T zero one add sub mul).
  Notation step := (Leapfrog.step T add mul opp).

  (* ------------------------------------------------------------------------------------ *)
  (* lengths                                                                                *)
  (* ------------------------------------------------------------------------------------ *)
  Lemma len_vmap2 f n : forall x y, length x = n -> length y = n -> length (vmap2 f x y) = n.
  Proof.
    induction n; intros [|a x] [|b y] Hx Hy; simpl in *; try discriminate; auto.
  Qed.
  Lemma len_vadd n x y : length x = n -> length y = n -> length (vadd x y) = n.
  Proof. apply len_vmap2. Qed.
  Lemma len_vsub n x y : length x = n -> length y = n -> length (vsub x y) = n.
  Proof. apply len_vmap2. Qed.
  Lemma len_vmul n x y : length x = n -> length y = n -> length (vmul x y) = n.
  Proof. apply len_vmap2. Qed.
  Lemma len_axpy n a x y : length x = n -> length y = n -> length (axpy a x y) = n.
  Proof. apply len_vmap2. Qed.
  Lemma len_vscale n a x : length x = n -> length (vscale a x) = n.
  Proof. unfold Leapfrog.vscale. now rewrite map_length. Qed.
  Lemma len_mapopp n (x : vec) : length x = n -> length (map opp x) = n.
  Proof. now rewrite map_length. Qed.
  Hint Resolve len_vadd len_vsub len_vmul len_axpy len_vscale len_mapopp : vlen.

  (* ------------------------------------------------------------------------------------ *)
  (* pointwise identities                                                                   *)
  (* ------------------------------------------------------------------------------------ *)
  (* axpy a x y = y + a x *)
  Lemma vadd_vscale_axpy a : forall x y, vadd y (vscale a x) = axpy a x y.
  Proof.
    unf. induction x as [|xi x IH]; intros [|yi y]; simpl; try reflexivity.
    f_equal; [ring | apply IH].
  Qed.

  Lemma axpy_cancel a : forall x y, length x = length y -> axpy (- a) x (axpy a x y) = y.
  Proof.
    unf. induction x as [|xi x IH]; intros [|yi y] H; simpl in *; try discriminate; auto.
    f_equal; [ring | apply IH; congruence].
  Qed.
  Lemma axpy_cancel' a : forall x y, length x = length y -> axpy a x (axpy (- a) x y) = y.
  Proof.
    unf. induction x as [|xi x IH]; intros [|yi y] H; simpl in *; try discriminate; auto.
    f_equal; [ring | apply IH; congruence].
  Qed.

  Lemma vsub_vadd_cancel : forall x y, length x = length y -> vsub (vadd x y) y = x.
  Proof.
    unf. induction x as [|xi x IH]; intros [|yi y] H; simpl in *; try discriminate; auto.
    f_equal; [ring | apply IH; congruence].
  Qed.
  Lemma vadd_vsub_cancel : forall x y, length x = length y -> vadd (vsub x y) y = x.
  Proof.
    unf. induction x as [|xi x IH]; intros [|yi y] H; simpl in *; try discriminate; auto.
    f_equal; [ring | apply IH; congruence].
  Qed.

  (* ------------------------------------------------------------------------------------ *)
  (* L8  shear structure of the Euclidean step                                              *)
  (* ------------------------------------------------------------------------------------ *)
  Section Shear.
    Variable tg : vec -> vec.
    Hypothesis tg_len : forall x, length (tg x) = length x.

    (* velocity shear (q, v) -> (q, v + h * tg q) and position shear (q, v) -> (q + e * v, v) *)
    Definition kick (h : T) (qv : vec * vec) : vec * vec :=
      let '(q, v) := qv in (q, axpy h (tg q) v).
    Definition drift (e : T) (qv : vec * vec) : vec * vec :=
      let '(q, v) := qv in (axpy e v q, v).

    Lemma kick_additive_form h q v : kick h (q, v) = (q, vadd v (vscale h (tg q))).
    Proof. simpl. now rewrite vadd_vscale_axpy. Qed.
    Lemma drift_additive_form e q v : drift e (q, v) = (vadd q (vscale e v), v).
    Proof. simpl. now rewrite vadd_vscale_axpy. Qed.

    Theorem step_is_three_shears eps half c s qv :
      step tg Euclidean eps half c s qv = kick half (drift eps (kick half qv)).
    Proof. destruct qv as [q v]. reflexivity. Qed.

    Theorem kick_inverse h q v : length q = length v ->
      kick (- h) (kick h (q, v)) = (q, v) /\ kick h (kick (- h) (q, v)) = (q, v).
    Proof.
      intros H. simpl. split; f_equal.
      - apply axpy_cancel. rewrite tg_len; auto.
      - apply axpy_cancel'. rewrite tg_len; auto.
    Qed.
    Theorem drift_inverse e q v : length q = length v ->
      drift (- e) (drift e (q, v)) = (q, v) /\ drift e (drift (- e) (q, v)) = (q, v).
    Proof.
      intros H. simpl. split; f_equal.
      - apply axpy_cancel; auto.
      - apply axpy_cancel'; auto.
    Qed.

    (* the same in the "v - f q" / "q - eps v" form *)
    Theorem shear_v_inverse (f : vec -> vec) q v : length (f q) = length v ->
      vsub (vadd v (f q)) (f q) = v /\ vadd (vsub v (f q)) (f q) = v.
    Proof. intros H. split; [apply vsub_vadd_cancel | apply vadd_vsub_cancel]; auto. Qed.
    Theorem shear_q_inverse e q v : length q = length v ->
      vsub (vadd q (vscale e v)) (vscale e v) = q /\ vadd (vsub q (vscale e v)) (vscale e v) = q.
    Proof.
      intros H. split; [apply vsub_vadd_cancel | apply vadd_vsub_cancel];
        symmetry; apply len_vscale; auto.
    Qed.

    (* ---------------------------------------------------------------------------------- *)
    (* L1  reversibility of the Euclidean step                                              *)
    (* ---------------------------------------------------------------------------------- *)
    Theorem step_reversible_euclidean eps half c s c' s' q v : length q = length v ->
      step tg Euclidean (- eps) (- half) c' s' (step tg Euclidean eps half c s (q, v)) = (q, v).
    Proof.
      intros H. simpl.
      set (v1 := axpy half (tg q) v).
      assert (Hv1 : length v1 = length q).
      { unfold v1. apply len_axpy; auto. }
      set (q1 := axpy eps v1 q).
      assert (Hq1 : length q1 = length q).
      { unfold q1. apply len_axpy; auto. }
      assert (E1 : axpy (- half) (tg q1) (axpy half (tg q1) v1) = v1).
      { apply axpy_cancel. rewrite tg_len. congruence. }
      rewrite E1.
      assert (E2 : axpy (- eps) v1 q1 = q).
      { unfold q1. apply axpy_cancel. auto. }
      rewrite E2. f_equal.
      unfold v1. apply axpy_cancel. rewrite tg_len; auto.
    Qed.
  End Shear.

  (* ------------------------------------------------------------------------------------ *)
  (* L2  reversibility of the ExactNormal step                                              *)
  (* ------------------------------------------------------------------------------------ *)
  Lemma vadd_vscale_cancel h : forall a b, length a = length b ->
    vadd (vadd a (vscale h b)) (vscale (- h) b) = a.
  Proof.
    unf. induction a as [|ai a IH]; intros [|bi b] H; simpl in *; try discriminate; auto.
    f_equal; [ring | apply IH; congruence].
  Qed.

  Lemma rot_inv_q c s : c * c + s * s = one -> forall q w, length q = length w ->
    vadd (vscale c (vadd (vscale c q) (vscale s w)))
         (vscale (- s) (vadd (vscale (- s) q) (vscale c w))) = q.
  Proof.
    intros Hcs. unf.
    induction q as [|qi q IH]; intros [|wi w] H; simpl in *; try discriminate; auto.
    f_equal; [| apply IH; congruence].
    transitivity ((c * c + s * s) * qi); [ring | rewrite Hcs; ring].
  Qed.
  Lemma rot_inv_v c s : c * c + s * s = one -> forall q w, length q = length w ->
    vadd (vscale (- - s) (vadd (vscale c q) (vscale s w)))
         (vscale c (vadd (vscale (- s) q) (vscale c w))) = w.
  Proof.
    intros Hcs. unf.
    induction q as [|qi q IH]; intros [|wi w] H; simpl in *; try discriminate; auto.
    f_equal; [| apply IH; congruence].
    transitivity ((c * c + s * s) * wi); [ring | rewrite Hcs; ring].
  Qed.

  Theorem step_reversible_exact_normal (tg : vec -> vec) eps half c s q v :
    (forall x, length (tg x) = length x) ->
    c * c + s * s = one -> length q = length v ->
    step tg ExactNormal (- eps) (- half) c (- s) (step tg ExactNormal eps half c s (q, v))
    = (q, v).
  Proof.
    intros tg_len Hcs H. simpl.
    set (v1 := vadd v (vscale half (vadd q (tg q)))).
    assert (Hv1 : length v1 = length q).
    { unfold v1. apply len_vadd; auto. apply len_vscale, len_vadd; auto. }
    set (q1 := vadd (vscale c q) (vscale s v1)).
    set (v1' := vadd (vscale (- s) q) (vscale c v1)).
    assert (Hq1 : length q1 = length q).
    { unfold q1. apply len_vadd; apply len_vscale; auto. }
    assert (Hv1' : length v1' = length q).
    { unfold v1'. apply len_vadd; apply len_vscale; auto. }
    assert (E1 : vadd (vadd v1' (vscale half (vadd q1 (tg q1)))) (vscale (- half) (vadd q1 (tg q1)))
                 = v1').
    { apply vadd_vscale_cancel. symmetry. rewrite Hv1'. apply len_vadd; auto.
      rewrite tg_len; auto. }
    rewrite E1.
    assert (E2 : vadd (vscale c q1) (vscale (- s) v1') = q).
    { unfold q1, v1'. apply rot_inv_q; auto. }
    rewrite E2.
    assert (E3 : vadd (vscale (- - s) q1) (vscale c v1') = v1).
    { unfold q1, v1'. apply rot_inv_v; auto. }
    rewrite E3. f_equal.
    unfold v1. apply vadd_vscale_cancel. symmetry. apply len_vadd; auto.
    rewrite tg_len; auto.
  Qed.

  (* ------------------------------------------------------------------------------------ *)
  (* L7  the ExactNormal step conserves |q|^2 + |v|^2 on a standard normal                  *)
  (* ------------------------------------------------------------------------------------ *)
  Lemma vadd_half_zero h : forall q v, length q = length v ->
    vadd v (vscale h (vadd q (map opp q))) = v.
  Proof.
    unf. induction q as [|qi q IH]; intros [|vi v] H; simpl in *; try discriminate; auto.
    f_equal; [ring | apply IH; congruence].
  Qed.

  Lemma rot_norm c s : c * c + s * s = one -> forall q v, length q = length v ->
    dot (vadd (vscale c q) (vscale s v)) (vadd (vscale c q) (vscale s v)) +
    dot (vadd (vscale (- s) q) (vscale c v)) (vadd (vscale (- s) q) (vscale c v))
    = dot q q + dot v v.
  Proof.
    intros Hcs. unf.
    induction q as [|qi q IH]; intros [|vi v] H; simpl in *; try discriminate; auto.
    specialize (IH v (eq_add_S _ _ H)).
    match goal with
    | |- (?a + ?A) + (?b + ?B) = _ => transitivity ((a + b) + (A + B)); [ring|]
    end.
    rewrite IH.
    transitivity ((c * c + s * s) * (qi * qi + vi * vi) + (dot q q + dot v v)); [ring|].
    rewrite Hcs. ring.
  Qed.

  Theorem exact_normal_step_std_normal (tg : vec -> vec) eps half c s q v :
    (forall x, tg x = map opp x) -> length q = length v ->
    step tg ExactNormal eps half c s (q, v)
    = (vadd (vscale c q) (vscale s v), vadd (vscale (- s) q) (vscale c v)).
  Proof.
    intros Htg H. simpl. rewrite !Htg.
    rewrite (vadd_half_zero half q v H). f_equal.
    apply vadd_half_zero.
    transitivity (length q).
    - apply len_vadd; apply len_vscale; auto.
    - symmetry. apply len_vadd; apply len_vscale; auto.
  Qed.

  Theorem exact_normal_conserves (tg : vec -> vec) eps half c s q v :
    (forall x, tg x = map opp x) -> c * c + s * s = one -> length q = length v ->
    let '(q1, v2) := step tg ExactNormal eps half c s (q, v) in
    dot q1 q1 + dot v2 v2 = dot q q + dot v v.
  Proof.
    intros Htg Hcs H. rewrite exact_normal_step_std_normal by auto.
    apply rot_norm; auto.
  Qed.

  (* ------------------------------------------------------------------------------------ *)
  (* L3  diagonal transformation: round trips                                               *)
  (* ------------------------------------------------------------------------------------ *)
  Definition inverses (s i : vec) : Prop := Forall2 (fun a b => a * b = one) s i.

  Lemma inverses_length s i : inverses s i -> length s = length i.
  Proof. induction 1; simpl; auto. Qed.

  Lemma scale_unscale : forall s i, inverses s i -> forall y m,
    length y = length s -> length m = length s ->
    vmul (vsub (vadd (vmul y s) m) m) i = y.
  Proof.
    unf. induction 1 as [|a b s i Hab Hsi IH]; intros [|yi y] [|mi m] Hy Hm;
      simpl in *; try discriminate; auto.
    f_equal; [| apply IH; congruence].
    transitivity (yi * (a * b)); [ring | rewrite Hab; ring].
  Qed.
  Lemma unscale_scale : forall s i, inverses s i -> forall x m,
    length x = length s -> length m = length s ->
    vadd (vmul (vmul (vsub x m) i) s) m = x.
  Proof.
    unf. induction 1 as [|a b s i Hab Hsi IH]; intros [|xi x] [|mi m] Hx Hm;
      simpl in *; try discriminate; auto.
    f_equal; [| apply IH; congruence].
    transitivity ((xi - mi) * (a * b) + mi); [ring | rewrite Hab; ring].
  Qed.

  Definition diag_ok (n : nat) (d : diag) : Prop :=
    inverses (d_sigma T d) (d_inv_sigma T d) /\
    length (d_sigma T d) = n /\ length (d_mu T d) = n.

  Theorem diag_roundtrip n d : diag_ok n d ->
    (forall y, length y = n -> diag_inv d (diag_fwd d y) = y) /\
    (forall x, length x = n -> diag_fwd d (diag_inv d x) = x).
  Proof.
    intros (Hinv & Hs & Hm). unfold Leapfrog.diag_inv, Leapfrog.diag_fwd. split; intros.
    - apply scale_unscale; auto; congruence.
    - apply unscale_scale; auto; congruence.
  Qed.

  Lemma len_diag_fwd n d y : diag_ok n d -> length y = n -> length (diag_fwd d y) = n.
  Proof.
    intros (Hinv & Hs & Hm) Hy. unfold Leapfrog.diag_fwd. auto with vlen.
  Qed.
  Lemma len_diag_inv n d x : diag_ok n d -> length x = n -> length (diag_inv d x) = n.
  Proof.
    intros (Hinv & Hs & Hm) Hx. unfold Leapfrog.diag_inv.
    apply len_vmul; auto with vlen. rewrite <- (inverses_length _ _ Hinv); auto.
  Qed.

  (* ------------------------------------------------------------------------------------ *)
  (* dot product                                                                            *)
  (* ------------------------------------------------------------------------------------ *)
  Lemma dot_comm : forall x y, dot x y = dot y x.
  Proof.
    induction x as [|xi x IH]; intros [|yi y]; simpl; auto.
    rewrite IH. ring.
  Qed.
  Lemma dot_vadd_r : forall x y z, length y = length z ->
    dot x (vadd y z) = dot x y + dot x z.
  Proof.
    unf. induction x as [|xi x IH]; intros [|yi y] [|zi z] H; simpl in *; try discriminate;
      try ring.
    rewrite IH by congruence. ring.
  Qed.
  Lemma dot_vscale_r t : forall x y, dot x (vscale t y) = t * dot x y.
  Proof.
    unf. induction x as [|xi x IH]; intros [|yi y]; simpl in *; try ring.
    rewrite IH. ring.
  Qed.
  Lemma dot_vadd_l x y z : length x = length y -> dot (vadd x y) z = dot x z + dot y z.
  Proof. intros. rewrite dot_comm, dot_vadd_r by auto. now rewrite (dot_comm z x), (dot_comm z y). Qed.
  Lemma dot_vscale_l t x y : dot (vscale t x) y = t * dot x y.
  Proof. now rewrite dot_comm, dot_vscale_r, dot_comm. Qed.
  Lemma dot_vmul_shift : forall g s w, dot (vmul g s) w = dot g (vmul w s).
  Proof.
    unf. induction g as [|gi g IH]; intros [|si s] [|wi w]; simpl; auto.
    rewrite IH. ring.
  Qed.

  (* ------------------------------------------------------------------------------------ *)
  (* L4  low-rank algebra                                                                   *)
  (* ------------------------------------------------------------------------------------ *)
  Definition all_len (n : nat) (cols : list vec) : Prop := Forall (fun u => length u = n) cols.

  (* u_j . u_k = delta_jk (stated for j <= k; dot is commutative) *)
  Fixpoint orthonormal (cols : list vec) : Prop :=
    match cols with
    | [] => True
    | u :: cs => dot u u = one /\ Forall (fun w => dot u w = zero) cs /\ orthonormal cs
    end.

  (* the index form implies the recursive form *)
  Lemma orthonormal_of_nth : forall cols,
    (forall j k, (j < length cols)%nat -> (k < length cols)%nat ->
       dot (nth j cols []) (nth k cols []) = if Nat.eqb j k then one else zero) ->
    orthonormal cols.
  Proof.
    induction cols as [|u cs IH]; intros H; simpl; auto.
    split; [|split].
    - apply (H 0%nat 0%nat); simpl; lia.
    - apply Forall_forall. intros w Hw.
      destruct (In_nth _ _ [] Hw) as (k & Hk & <-).
      apply (H 0%nat (S k)); simpl; lia.
    - apply IH. intros j k Hj Hk. apply (H (S j) (S k)); simpl; lia.
  Qed.
  Lemma orthonormal_nth : forall cols, orthonormal cols ->
    forall j k, (j < length cols)%nat -> (k < length cols)%nat ->
       dot (nth j cols []) (nth k cols []) = if Nat.eqb j k then one else zero.
  Proof.
    induction cols as [|u cs IH]; simpl; [intros _ j k Hj; lia|].
    intros (H1 & H2 & H3) j k Hj Hk.
    rewrite Forall_forall in H2.
    destruct j as [|j], k as [|k]; simpl; auto.
    - apply H2, nth_In; lia.
    - rewrite dot_comm. apply H2, nth_In; lia.
    - apply IH; auto; lia.
  Qed.

  Lemma all_len_cons n u cs : all_len n (u :: cs) -> length u = n /\ all_len n cs.
  Proof. intros H. inversion H; auto. Qed.

  Lemma len_LA n : forall cols a x, all_len n cols -> length x = n -> length (LA cols a x) = n.
  Proof.
    induction cols as [|u cs IH]; intros [|ak a] x Hc Hx; simpl; auto.
    destruct (all_len_cons _ _ _ Hc) as [Hu Hcs]. apply len_vadd; auto. apply len_vscale; auto.
  Qed.

  Lemma vadd4 k p q : forall A B u,
    vadd (vadd A B) (vscale (k * (p + q)) u)
    = vadd (vadd A (vscale (k * p) u)) (vadd B (vscale (k * q) u)).
  Proof.
    unf. induction A as [|ai A IH]; intros [|bi B] [|ui u]; simpl; auto.
    f_equal; [ring | apply IH].
  Qed.
  Lemma vadd_vscale_distr t k p : forall A u,
    vadd (vscale t A) (vscale (k * (t * p)) u) = vscale t (vadd A (vscale (k * p) u)).
  Proof.
    unf. induction A as [|ai A IH]; intros [|ui u]; simpl; auto.
    f_equal; [ring | apply IH].
  Qed.
  Lemma vadd_vscale_merge s1 s2 : forall W u,
    vadd (vadd W (vscale s1 u)) (vscale s2 u) = vadd W (vscale (s1 + s2) u).
  Proof.
    unf. induction W as [|wi W IH]; intros [|ui u]; simpl; auto.
    f_equal; [ring | apply IH].
  Qed.
  Lemma vadd_vscale_zero t : t = zero -> forall w u, length u = length w ->
    vadd w (vscale t u) = w.
  Proof.
    intros ->. unf. induction w as [|wi w IH]; intros [|ui u] H; simpl in *; try discriminate; auto.
    f_equal; [ring | apply IH; congruence].
  Qed.

  Lemma LA_vadd n : forall cols a x y, all_len n cols -> length x = n -> length y = n ->
    LA cols a (vadd x y) = vadd (LA cols a x) (LA cols a y).
  Proof.
    induction cols as [|u cs IH]; intros [|ak a] x y Hc Hx Hy; simpl; auto.
    destruct (all_len_cons _ _ _ Hc) as [Hu Hcs].
    rewrite IH, dot_vadd_r by (auto; congruence). apply vadd4.
  Qed.
  Lemma LA_vscale n t : forall cols a x, all_len n cols -> length x = n ->
    LA cols a (vscale t x) = vscale t (LA cols a x).
  Proof.
    induction cols as [|u cs IH]; intros [|ak a] x Hc Hx; simpl; auto.
    destruct (all_len_cons _ _ _ Hc) as [Hu Hcs].
    rewrite IH, dot_vscale_r by auto. apply vadd_vscale_distr.
  Qed.
  Lemma LA_axpy n t cols a x y : all_len n cols -> length x = n -> length y = n ->
    LA cols a (axpy t x y) = axpy t (LA cols a x) (LA cols a y).
  Proof.
    intros. rewrite <- !vadd_vscale_axpy.
    erewrite LA_vadd, LA_vscale; eauto with vlen.
  Qed.

  Lemma dot_LA_orth n w : forall cols a x, all_len n cols -> length x = n ->
    Forall (fun u => dot w u = zero) cols -> dot w (LA cols a x) = dot w x.
  Proof.
    induction cols as [|u cs IH]; intros [|ak a] x Hc Hx Ho; simpl; auto.
    destruct (all_len_cons _ _ _ Hc) as [Hu Hcs]. pose proof (Forall_inv Ho) as Hou; pose proof (Forall_inv_tail Ho) as Hocs; simpl in Hou.
    assert (HL : length (LA cs a x) = length (vscale ((ak - one) * dot u x) u)).
    { rewrite (len_LA n), (len_vscale n); auto. }
    rewrite dot_vadd_r, dot_vscale_r, IH by auto.
    rewrite Hou. ring.
  Qed.
  Lemma LA_orth_fix n w : forall cols a, all_len n cols -> length w = n ->
    Forall (fun u => dot u w = zero) cols -> LA cols a w = w.
  Proof.
    induction cols as [|u cs IH]; intros [|ak a] Hc Hw Ho; simpl; auto.
    destruct (all_len_cons _ _ _ Hc) as [Hu Hcs]. pose proof (Forall_inv Ho) as Hou; pose proof (Forall_inv_tail Ho) as Hocs; simpl in Hou.
    rewrite IH by auto. apply vadd_vscale_zero; [rewrite Hou; ring | congruence].
  Qed.

  Theorem lowrank_apply_compose n : forall cols a b x,
    all_len n cols -> orthonormal cols -> length a = length b -> length x = n ->
    LA cols a (LA cols b x) = LA cols (vmap2 mul a b) x.
  Proof.
    induction cols as [|u cs IH]; intros [|ak a] [|bk b] x Hc Ho Hab Hx; simpl in *;
      try discriminate; auto.
    destruct (all_len_cons _ _ _ Hc) as [Hu Hcs]. destruct Ho as (Huu & Huo & Hoo).
    assert (Huo' : Forall (fun w => dot w u = zero) cs).
    { eapply Forall_impl; [|exact Huo]. simpl. intros w Hw. now rewrite dot_comm. }
    set (p := dot u x). set (tb := (bk - one) * p).
    set (Z := LA cs b x).
    assert (HZ : length Z = n) by (apply len_LA; auto).
    rewrite (LA_vadd n), (LA_vscale n), (LA_orth_fix n u) by auto with vlen.
    unfold Z at 1. rewrite IH by (auto; congruence).
    rewrite dot_vadd_r, dot_vscale_r by (rewrite HZ; symmetry; auto with vlen).
    unfold Z. rewrite (dot_LA_orth n) by auto.
    fold p. rewrite Huu. rewrite vadd_vscale_merge.
    f_equal. f_equal. unfold tb. ring.
  Qed.

  Theorem lowrank_apply_one n : forall cols k x, all_len n cols -> length x = n ->
    LA cols (repeat one k) x = x.
  Proof.
    induction cols as [|u cs IH]; intros [|k] x Hc Hx; simpl; auto.
    destruct (all_len_cons _ _ _ Hc) as [Hu Hcs]. rewrite IH by auto.
    apply vadd_vscale_zero; [ring | congruence].
  Qed.

  (* rank 0 and rank 1 special cases, for reading *)
  Corollary lowrank_apply_rank0 a x : LA [] a x = x.
  Proof. reflexivity. Qed.
  Corollary lowrank_apply_rank1 u a b x : length u = length x -> dot u u = one ->
    LA [u] [a] (LA [u] [b] x) = LA [u] [a * b] x.
  Proof.
    intros Hl Hu. apply (lowrank_apply_compose (length x) [u] [a] [b]); simpl; auto.
    repeat constructor; auto.
  Qed.

  Lemma inverses_mul : forall r ri, inverses r ri ->
    vmap2 mul r ri = repeat one (length r) /\ vmap2 mul ri r = repeat one (length r).
  Proof.
    induction 1 as [|a b r ri Hab H IH]; simpl; auto.
    destruct IH as [-> ->]. rewrite Hab. split; auto. f_equal.
    rewrite <- Hab. ring.
  Qed.

  Theorem lowrank_apply_inverse n cols r ri x :
    all_len n cols -> orthonormal cols -> inverses r ri -> length x = n ->
    LA cols ri (LA cols r x) = x /\ LA cols r (LA cols ri x) = x.
  Proof.
    intros Hc Ho Hr Hx. pose proof (inverses_length _ _ Hr) as Hl.
    destruct (inverses_mul _ _ Hr) as [E1 E2].
    rewrite !(lowrank_apply_compose n), E1, E2 by auto.
    split; apply (lowrank_apply_one n); auto.
  Qed.

  Definition lowrank_ok (n : nat) (l : lowrank) : Prop :=
    diag_ok n (l_diag T l) /\ all_len n (l_cols T l) /\ orthonormal (l_cols T l) /\
    inverses (l_r T l) (l_rinv T l) /\ length (l_mu T l) = n.

  Theorem lr_roundtrip n l : lowrank_ok n l ->
    (forall y, length y = n -> lr_inv l (lr_fwd l y) = y) /\
    (forall x, length x = n -> lr_fwd l (lr_inv l x) = x).
  Proof.
    intros (Hd & Hc & Ho & Hr & Hm).
    destruct (diag_roundtrip n _ Hd) as [D1 D2].
    unfold Leapfrog.lr_inv, Leapfrog.lr_fwd. destruct (l_inner T l); [|split; auto].
    split.
    - intros y Hy.
      set (w := vadd (LA (l_cols T l) (l_r T l) y) (l_mu T l)).
      assert (Hw : length w = n).
      { unfold w. apply len_vadd; auto. apply len_LA; auto. }
      change (vadd (vmul w (d_sigma T (l_diag T l))) (d_mu T (l_diag T l)))
        with (diag_fwd (l_diag T l) w).
      rewrite D1 by auto. unfold w.
      rewrite vsub_vadd_cancel by (rewrite Hm; apply len_LA; auto).
      exact (proj1 (lowrank_apply_inverse n _ _ _ y Hc Ho Hr Hy)).
    - intros x Hx.
      set (z := diag_inv (l_diag T l) x).
      assert (Hz : length z = n) by (apply len_diag_inv; auto).
      destruct (lowrank_apply_inverse n (l_cols T l) _ _ (vsub z (l_mu T l)) Hc Ho Hr) as [_ ->];
        auto with vlen.
      rewrite vadd_vsub_cancel by congruence.
      apply D2; auto.
  Qed.

  (* ------------------------------------------------------------------------------------ *)
  (* L5  the gradient map is the transpose of the Jacobian of the position map              *)
  (* ------------------------------------------------------------------------------------ *)
  Theorem lowrank_apply_selfadjoint n : forall cols a x y,
    all_len n cols -> length x = n -> length y = n ->
    dot (LA cols a x) y = dot x (LA cols a y).
  Proof.
    induction cols as [|u cs IH]; intros [|ak a] x y Hc Hx Hy; simpl; auto.
    destruct (all_len_cons _ _ _ Hc) as [Hu Hcs].
    assert (HL : forall z t, length z = n ->
                   length (LA cs a z) = length (vscale t u)).
    { intros z t Hz. rewrite (len_LA n), (len_vscale n); auto. }
    rewrite dot_vadd_l, dot_vadd_r, dot_vscale_l, dot_vscale_r, IH by auto.
    rewrite (dot_comm x u). ring.
  Qed.

  (* linear part (Jacobian) of lr_fwd *)
  Definition lr_lin (l : lowrank) (delta : vec) : vec :=
    if l_inner T l then vmul (LA (l_cols T l) (l_r T l) delta) (d_sigma T (l_diag T l))
    else vmul delta (d_sigma T (l_diag T l)).

  Lemma affine_shape : forall A B m s d,
    vadd (vmul (vadd (vadd A B) m) s) d = vadd (vadd (vmul (vadd A m) s) d) (vmul B s).
  Proof.
    unf. induction A as [|ai A IH]; intros [|bi B] [|mi m] [|si s] [|di d]; simpl; auto.
    f_equal; [ring | apply IH].
  Qed.
  Lemma affine_shape_diag : forall A B s d,
    vadd (vmul (vadd A B) s) d = vadd (vadd (vmul A s) d) (vmul B s).
  Proof.
    unf. induction A as [|ai A IH]; intros [|bi B] [|si s] [|di d]; simpl; auto.
    f_equal; [ring | apply IH].
  Qed.

  Theorem lr_fwd_affine n l y delta :
    all_len n (l_cols T l) -> length y = n -> length delta = n ->
    lr_fwd l (vadd y delta) = vadd (lr_fwd l y) (lr_lin l delta).
  Proof.
    intros Hc Hy Hd. unfold Leapfrog.lr_fwd, lr_lin, Leapfrog.diag_fwd.
    destruct (l_inner T l).
    - rewrite (LA_vadd n) by auto. apply affine_shape.
    - apply affine_shape_diag.
  Qed.

  Theorem grad_pullback n l g delta :
    all_len n (l_cols T l) -> length (d_sigma T (l_diag T l)) = n ->
    length g = n -> length delta = n ->
    dot (lr_grad l g) delta = dot g (lr_lin l delta).
  Proof.
    intros Hc Hs Hg Hd. unfold Leapfrog.lr_grad, lr_lin, Leapfrog.diag_grad.
    destruct (l_inner T l).
    - rewrite (lowrank_apply_selfadjoint n) by auto with vlen. apply dot_vmul_shift.
    - apply dot_vmul_shift.
  Qed.

  (* ------------------------------------------------------------------------------------ *)
  (* L6  the whitened step is velocity Verlet for H = -logp(x) + 1/2 p^T (F F^T) p          *)
  (* ------------------------------------------------------------------------------------ *)
  Lemma step_ext (tg tg' : vec -> vec) k eps half c s qv :
    (forall x, tg x = tg' x) -> step tg k eps half c s qv = step tg' k eps half c s qv.
  Proof. intros H. destruct qv as [q v], k; simpl; rewrite !H; reflexivity. Qed.

  Lemma vadd_axpy_assoc a : forall x y m, vadd (axpy a x y) m = axpy a x (vadd y m).
  Proof.
    unf. induction x as [|xi x IH]; intros [|yi y] [|mi m]; simpl; auto.
    f_equal; [ring | apply IH].
  Qed.
  Lemma vmul_axpy a : forall x y s, vmul (axpy a x y) s = axpy a (vmul x s) (vmul y s).
  Proof.
    unf. induction x as [|xi x IH]; intros [|yi y] [|si s]; simpl; auto.
    f_equal; [ring | apply IH].
  Qed.

  Section Textbook.
    Variable n : nat.
    Variables (F Ft g : vec -> vec) (mu : vec).
    Hypothesis F_len : forall x, length x = n -> length (F x) = n.
    Hypothesis Ft_len : forall x, length x = n -> length (Ft x) = n.
    Hypothesis g_len : forall x, length x = n -> length (g x) = n.
    Hypothesis mu_len : length mu = n.
    Hypothesis F_lin : forall a x y, length x = n -> length y = n ->
      F (axpy a x y) = axpy a (F x) (F y).

    (* whitened gradient tg q = F^T grad logp (F q + mu);  M^-1 = F F^T *)
    Definition tgF (q : vec) : vec := Ft (g (vadd (F q) mu)).
    Definition Minv (w : vec) : vec := F (Ft w).

    Lemma tgF_len q : length q = n -> length (tgF q) = n.
    Proof. intros. unfold tgF. auto with vlen. Qed.

    Theorem leapfrog_textbook eps half c s q v : length q = n -> length v = n ->
      let '(q1, v2) := step tgF Euclidean eps half c s (q, v) in
      let x := vadd (F q) mu in
      let u := F v in
      let u1 := axpy half (Minv (g x)) u in
      let x1 := axpy eps u1 x in
      F (axpy half (tgF q) v) = u1 /\
      vadd (F q1) mu = x1 /\
      F v2 = axpy half (Minv (g x1)) u1.
    Proof.
      intros Hq Hv. simpl.
      pose proof (tgF_len q Hq) as Htq.
      set (v1 := axpy half (tgF q) v).
      assert (Hv1 : length v1 = n) by (unfold v1; auto with vlen).
      assert (E1 : F v1 = axpy half (Minv (g (vadd (F q) mu))) (F v)).
      { unfold v1. rewrite F_lin by auto. reflexivity. }
      set (q1 := axpy eps v1 q).
      assert (Hq1 : length q1 = n) by (unfold q1; auto with vlen).
      assert (E2 : vadd (F q1) mu = axpy eps (F v1) (vadd (F q) mu)).
      { unfold q1. rewrite F_lin by auto. apply vadd_axpy_assoc. }
      split; [exact E1|]. rewrite <- E1. split; [exact E2|].
      rewrite F_lin by (auto using tgF_len).
      unfold tgF at 1. rewrite E2. reflexivity.
    Qed.
  End Textbook.

  (* diagonal mass matrix: F y = sigma .* y = F^T y *)
  Theorem leapfrog_textbook_diag n (d : diag) (g : vec -> vec) eps half c s q v :
    length (d_sigma T d) = n -> length (d_mu T d) = n ->
    (forall x, length x = n -> length (g x) = n) ->
    length q = n -> length v = n ->
    let sigma := d_sigma T d in
    let tg := fun q => diag_grad d (g (diag_fwd d q)) in
    let Minv := fun w => vmul (vmul w sigma) sigma in
    let '(q1, v2) := step tg Euclidean eps half c s (q, v) in
    let x := diag_fwd d q in
    let u := vmul v sigma in
    let u1 := axpy half (Minv (g x)) u in
    let x1 := axpy eps u1 x in
    diag_fwd d q1 = x1 /\ vmul v2 sigma = axpy half (Minv (g x1)) u1.
  Proof.
    intros Hs Hm Hg Hq Hv.
    pose proof (leapfrog_textbook n (fun y => vmul y (d_sigma T d)) (fun w => vmul w (d_sigma T d))
                  g (d_mu T d)) as H.
    specialize (H ltac:(intros; cbv beta; auto with vlen)
                  ltac:(intros; cbv beta; auto with vlen) Hg Hm
                  ltac:(intros; apply vmul_axpy) eps half c s q v Hq Hv).
    simpl in *. destruct H as (_ & H2 & H3). split; [exact H2 | exact H3].
  Qed.

  (* low-rank (or, with l_inner = false, diagonal) transformation: F = lr_lin, F^T = lr_grad *)
  Definition lr_shift (l : lowrank) : vec :=
    if l_inner T l then vadd (vmul (l_mu T l) (d_sigma T (l_diag T l))) (d_mu T (l_diag T l))
    else d_mu T (l_diag T l).

  Lemma shift_shape : forall A m s d,
    vadd (vmul (vadd A m) s) d = vadd (vmul A s) (vadd (vmul m s) d).
  Proof.
    unf. induction A as [|ai A IH]; intros [|mi m] [|si s] [|di d]; simpl; auto.
    f_equal; [ring | apply IH].
  Qed.
  Lemma lr_fwd_decomp l y : lr_fwd l y = vadd (lr_lin l y) (lr_shift l).
  Proof.
    unfold Leapfrog.lr_fwd, lr_lin, lr_shift, Leapfrog.diag_fwd.
    destruct (l_inner T l); auto. apply shift_shape.
  Qed.

  Definition lowrank_dims (n : nat) (l : lowrank) : Prop :=
    all_len n (l_cols T l) /\ length (d_sigma T (l_diag T l)) = n /\
    length (d_mu T (l_diag T l)) = n /\ length (l_mu T l) = n.

  Lemma len_lr_lin n l y : lowrank_dims n l -> length y = n -> length (lr_lin l y) = n.
  Proof.
    intros (Hc & Hs & Hm & Hl) Hy. unfold lr_lin.
    destruct (l_inner T l); auto with vlen. apply len_vmul; auto. apply len_LA; auto.
  Qed.
  Lemma len_lr_grad n l w : lowrank_dims n l -> length w = n -> length (lr_grad l w) = n.
  Proof.
    intros (Hc & Hs & Hm & Hl) Hw. unfold Leapfrog.lr_grad, Leapfrog.diag_grad.
    destruct (l_inner T l); auto with vlen. apply len_LA; auto with vlen.
  Qed.
  Lemma len_lr_shift n l : lowrank_dims n l -> length (lr_shift l) = n.
  Proof.
    intros (Hc & Hs & Hm & Hl). unfold lr_shift. destruct (l_inner T l); auto with vlen.
  Qed.
  Lemma lr_lin_axpy n l a x y : lowrank_dims n l -> length x = n -> length y = n ->
    lr_lin l (axpy a x y) = axpy a (lr_lin l x) (lr_lin l y).
  Proof.
    intros (Hc & Hs & Hm & Hl) Hx Hy. unfold lr_lin. destruct (l_inner T l).
    - rewrite (LA_axpy n) by auto. apply vmul_axpy.
    - apply vmul_axpy.
  Qed.

  Theorem leapfrog_textbook_lowrank n (l : lowrank) (g : vec -> vec) eps half c s q v :
    lowrank_dims n l ->
    (forall x, length x = n -> length (g x) = n) ->
    length q = n -> length v = n ->
    let tg := fun q => lr_grad l (g (lr_fwd l q)) in
    let Minv := fun w => lr_lin l (lr_grad l w) in
    let '(q1, v2) := step tg Euclidean eps half c s (q, v) in
    let x := lr_fwd l q in
    let u := lr_lin l v in
    let u1 := axpy half (Minv (g x)) u in
    let x1 := axpy eps u1 x in
    lr_fwd l q1 = x1 /\ lr_lin l v2 = axpy half (Minv (g x1)) u1.
  Proof.
    intros Hd Hg Hq Hv.
    pose proof (leapfrog_textbook n (lr_lin l) (lr_grad l) g (lr_shift l)) as H.
    specialize (H ltac:(intros; apply len_lr_lin; auto) ltac:(intros; apply len_lr_grad; auto)
                  Hg (len_lr_shift n l Hd) ltac:(intros; apply (lr_lin_axpy n); auto)
                  eps half c s q v Hq Hv).
    cbv zeta.
    rewrite (step_ext _ (tgF (lr_lin l) (lr_grad l) g (lr_shift l))).
    2:{ intros x. unfold tgF. now rewrite lr_fwd_decomp. }
    destruct (step _ Euclidean eps half c s (q, v)) as [q1 v2].
    rewrite !lr_fwd_decomp. cbv zeta in H. destruct H as (_ & H2 & H3).
    split; [exact H2 | exact H3].
  Qed.

  (* ------------------------------------------------------------------------------------ *)
  (* L8 (extra)  dimension 1, affine force: the Jacobian of the Euclidean step has det 1    *)
  (* ------------------------------------------------------------------------------------ *)
  Section Jac1.
    Variables (a b eps half : T).
    Definition J11 := one + eps * half * a.
    Definition J12 := eps.
    Definition J21 := half * a + half * a * (one + eps * half * a).
    Definition J22 := one + half * a * eps.
    Definition K1 := eps * half * b.
    Definition K2 := half * b + half * (a * (eps * half * b) + b).

    Theorem euclidean_step_affine_1d (tg : vec -> vec) c s q v :
      (forall q, tg [q] = [a * q + b]) ->
      step tg Euclidean eps half c s ([q], [v])
      = ([J11 * q + J12 * v + K1], [J21 * q + J22 * v + K2]).
    Proof.
      intros Htg. simpl. rewrite Htg. unf. simpl. rewrite Htg. simpl.
      unfold J11, J12, J21, J22, K1, K2. f_equal; f_equal; ring.
    Qed.
    Theorem euclidean_step_jacobian_det_1d : J11 * J22 - J12 * J21 = one.
    Proof. unfold J11, J12, J21, J22. ring. Qed.
  End Jac1.

  (* ------------------------------------------------------------------------------------ *)
  (* L9  harmonic oscillator, dimension 1: exactly conserved modified energy                *)
  (* ------------------------------------------------------------------------------------ *)
  Theorem energy_error_quadratic (tg : vec -> vec) w2 eps half quarter c s q v :
    (forall q, tg [q] = [- (w2 * q)]) ->
    half + half = eps -> quarter * (one + one + one + one) = one ->
    let Emod := fun q v => v * v + w2 * q * q * (one - eps * eps * w2 * quarter) in
    let E := fun q v => v * v + w2 * q * q in
    exists q1 v2, step tg Euclidean eps half c s ([q], [v]) = ([q1], [v2]) /\
      Emod q1 v2 = Emod q v /\
      E q1 v2 - E q v = eps * eps * quarter * (w2 * w2) * (q1 * q1 - q * q).
  Proof.
    intros Htg Heps Hq Emod E. simpl. rewrite Htg. unf. simpl. rewrite Htg. simpl.
    eexists _, _. split; [reflexivity|].
    assert (Hq' : eps * eps * quarter = half * half).
    { rewrite <- Heps.
      transitivity (half * half * (quarter * (one + one + one + one))); [ring|].
      rewrite Hq. ring. }
    unfold Emod, E.
    replace (eps * eps * w2 * quarter) with (half * half * w2) by (rewrite <- Hq'; ring).
    rewrite Hq'. rewrite <- Heps. split; ring.
  Qed.
End Facts.

(* ---------------------------------------------------------------------------------------- *)
(* Instance T := Qc, with the concrete definitions of model/LeapfrogQc.v                      *)
(* ---------------------------------------------------------------------------------------- *)
Section QcInstance.
  Local Open Scope Qc_scope.

  Definition c_inverses : cvec -> cvec -> Prop := inverses Qc c1 c_mul.
  Definition c_diag_ok : nat -> cdiag -> Prop := diag_ok Qc c1 c_mul.
  Definition c_all_len : nat -> list cvec -> Prop := all_len Qc.
  Definition c_orthonormal : list cvec -> Prop := orthonormal Qc c0 c1 c_add c_mul.
  Definition c_lowrank_ok : nat -> clowrank -> Prop := lowrank_ok Qc c0 c1 c_add c_mul.
  Definition c_lowrank_dims : nat -> clowrank -> Prop := lowrank_dims Qc.
  Definition c_lr_lin : clowrank -> cvec -> cvec := lr_lin Qc c0 c1 c_add c_sub c_mul.
  Definition c_vadd := vadd Qc c_add.
  Definition c_vsub := vsub Qc c_sub.
  Definition c_vmul := vmul Qc c_mul.
  Definition c_vscale := vscale Qc c_mul.
  Definition c_axpy := axpy Qc c_add c_mul.
  Definition c_kick := kick Qc c_add c_mul.
  Definition c_drift := drift Qc c_add c_mul.

  Let R := Qcrt.

  (* L1 *)
  Theorem c_step_reversible_euclidean (tg : cvec -> cvec) eps half c s c' s' q v :
    (forall x, length (tg x) = length x) -> length q = length v ->
    c_step tg Euclidean (- eps) (- half) c' s' (c_step tg Euclidean eps half c s (q, v)) = (q, v).
  Proof. intros. apply (step_reversible_euclidean Qc c0 c1 c_add c_sub c_mul c_opp R); auto. Qed.

  (* L2 *)
  Theorem c_step_reversible_exact_normal (tg : cvec -> cvec) eps half c s q v :
    (forall x, length (tg x) = length x) -> c * c + s * s = 1 -> length q = length v ->
    c_step tg ExactNormal (- eps) (- half) c (- s) (c_step tg ExactNormal eps half c s (q, v))
    = (q, v).
  Proof. intros. apply (step_reversible_exact_normal Qc c0 c1 c_add c_sub c_mul c_opp R); auto. Qed.

  (* L3 *)
  Theorem c_diag_roundtrip n (d : cdiag) : c_diag_ok n d ->
    (forall y, length y = n -> c_diag_inv d (c_diag_fwd d y) = y) /\
    (forall x, length x = n -> c_diag_fwd d (c_diag_inv d x) = x).
  Proof. apply (diag_roundtrip Qc c0 c1 c_add c_sub c_mul c_opp R). Qed.

  (* the diagonal transformation built by mk_diag from non-zero scales is well formed *)
  Lemma c_mk_diag_ok (sigma mu : list Q) :
    Forall (fun s => Q2Qc s <> 0) sigma -> length mu = length sigma ->
    c_diag_ok (length sigma) (mk_diag sigma mu).
  Proof.
    intros Hnz Hmu. unfold c_diag_ok, diag_ok, mk_diag; simpl. rewrite !map_length.
    repeat split; auto. clear Hmu.
    induction Hnz as [|s sigma Hs Hnz IH]; simpl; constructor; auto.
    apply Qcmult_inv_r; auto.
  Qed.
  Corollary c_mk_diag_roundtrip (sigma mu : list Q) :
    Forall (fun s => Q2Qc s <> 0) sigma -> length mu = length sigma ->
    (forall y, length y = length sigma ->
       c_diag_inv (mk_diag sigma mu) (c_diag_fwd (mk_diag sigma mu) y) = y) /\
    (forall x, length x = length sigma ->
       c_diag_fwd (mk_diag sigma mu) (c_diag_inv (mk_diag sigma mu) x) = x).
  Proof. intros. apply c_diag_roundtrip, c_mk_diag_ok; auto. Qed.

  (* L4 *)
  Theorem c_orthonormal_of_nth (cols : list cvec) :
    (forall j k, (j < length cols)%nat -> (k < length cols)%nat ->
       c_dot (nth j cols []) (nth k cols []) = if Nat.eqb j k then 1 else 0) ->
    c_orthonormal cols.
  Proof. apply (orthonormal_of_nth Qc c0 c1 c_add c_mul). Qed.

  Theorem c_lowrank_apply_compose n (cols : list cvec) (a b x : cvec) :
    c_all_len n cols -> c_orthonormal cols -> length a = length b -> length x = n ->
    c_lowrank_apply cols a (c_lowrank_apply cols b x) = c_lowrank_apply cols (vmap2 Qc c_mul a b) x.
  Proof. apply (lowrank_apply_compose Qc c0 c1 c_add c_sub c_mul c_opp R). Qed.

  Theorem c_lowrank_apply_one n (cols : list cvec) k (x : cvec) :
    c_all_len n cols -> length x = n -> c_lowrank_apply cols (repeat 1 k) x = x.
  Proof. apply (lowrank_apply_one Qc c0 c1 c_add c_sub c_mul c_opp R). Qed.

  Theorem c_lowrank_apply_inverse n (cols : list cvec) (r ri x : cvec) :
    c_all_len n cols -> c_orthonormal cols -> c_inverses r ri -> length x = n ->
    c_lowrank_apply cols ri (c_lowrank_apply cols r x) = x /\
    c_lowrank_apply cols r (c_lowrank_apply cols ri x) = x.
  Proof. apply (lowrank_apply_inverse Qc c0 c1 c_add c_sub c_mul c_opp R). Qed.

  Theorem c_lr_roundtrip n (l : clowrank) : c_lowrank_ok n l ->
    (forall y, length y = n -> c_lr_inv l (c_lr_fwd l y) = y) /\
    (forall x, length x = n -> c_lr_fwd l (c_lr_inv l x) = x).
  Proof. apply (lr_roundtrip Qc c0 c1 c_add c_sub c_mul c_opp R). Qed.

  (* L5 *)
  Theorem c_lowrank_apply_selfadjoint n (cols : list cvec) (a x y : cvec) :
    c_all_len n cols -> length x = n -> length y = n ->
    c_dot (c_lowrank_apply cols a x) y = c_dot x (c_lowrank_apply cols a y).
  Proof. apply (lowrank_apply_selfadjoint Qc c0 c1 c_add c_sub c_mul c_opp R). Qed.

  Theorem c_lr_fwd_affine n (l : clowrank) (y delta : cvec) :
    c_all_len n (l_cols Qc l) -> length y = n -> length delta = n ->
    c_lr_fwd l (c_vadd y delta) = c_vadd (c_lr_fwd l y) (c_lr_lin l delta).
  Proof. apply (lr_fwd_affine Qc c0 c1 c_add c_sub c_mul c_opp R). Qed.

  Theorem c_grad_pullback n (l : clowrank) (g delta : cvec) :
    c_all_len n (l_cols Qc l) -> length (d_sigma Qc (l_diag Qc l)) = n ->
    length g = n -> length delta = n ->
    c_dot (c_lr_grad l g) delta = c_dot g (c_lr_lin l delta).
  Proof. apply (grad_pullback Qc c0 c1 c_add c_sub c_mul c_opp R). Qed.

  (* L6 *)
  Theorem c_leapfrog_textbook n (F Ft g : cvec -> cvec) (mu : cvec) :
    (forall x, length x = n -> length (F x) = n) ->
    (forall x, length x = n -> length (Ft x) = n) ->
    (forall x, length x = n -> length (g x) = n) ->
    length mu = n ->
    (forall a x y, length x = n -> length y = n -> F (c_axpy a x y) = c_axpy a (F x) (F y)) ->
    forall eps half c s q v, length q = n -> length v = n ->
    let tg := fun q => Ft (g (c_vadd (F q) mu)) in
    let Minv := fun w => F (Ft w) in
    let '(q1, v2) := c_step tg Euclidean eps half c s (q, v) in
    let x := c_vadd (F q) mu in
    let u := F v in
    let u1 := c_axpy half (Minv (g x)) u in
    let x1 := c_axpy eps u1 x in
    c_vadd (F q1) mu = x1 /\ F v2 = c_axpy half (Minv (g x1)) u1.
  Proof.
    intros H1 H2 H3 H4 H5 eps half c s q v Hq Hv.
    pose proof (leapfrog_textbook Qc c0 c1 c_add c_sub c_mul c_opp R n F Ft g mu
                  H1 H2 H3 H4 H5 eps half c s q v Hq Hv) as H.
    simpl in *. destruct H as (_ & Ha & Hb). split; [exact Ha | exact Hb].
  Qed.

  Theorem c_leapfrog_textbook_diag n (d : cdiag) (g : cvec -> cvec) eps half c s q v :
    length (d_sigma Qc d) = n -> length (d_mu Qc d) = n ->
    (forall x, length x = n -> length (g x) = n) ->
    length q = n -> length v = n ->
    let sigma := d_sigma Qc d in
    let tg := fun q => c_diag_grad d (g (c_diag_fwd d q)) in
    let Minv := fun w => c_vmul (c_vmul w sigma) sigma in
    let '(q1, v2) := c_step tg Euclidean eps half c s (q, v) in
    let x := c_diag_fwd d q in
    let u := c_vmul v sigma in
    let u1 := c_axpy half (Minv (g x)) u in
    let x1 := c_axpy eps u1 x in
    c_diag_fwd d q1 = x1 /\ c_vmul v2 sigma = c_axpy half (Minv (g x1)) u1.
  Proof. apply (leapfrog_textbook_diag Qc c0 c1 c_add c_sub c_mul c_opp R). Qed.

  Theorem c_leapfrog_textbook_lowrank n (l : clowrank) (g : cvec -> cvec) eps half c s q v :
    c_lowrank_dims n l ->
    (forall x, length x = n -> length (g x) = n) ->
    length q = n -> length v = n ->
    let tg := fun q => c_lr_grad l (g (c_lr_fwd l q)) in
    let Minv := fun w => c_lr_lin l (c_lr_grad l w) in
    let '(q1, v2) := c_step tg Euclidean eps half c s (q, v) in
    let x := c_lr_fwd l q in
    let u := c_lr_lin l v in
    let u1 := c_axpy half (Minv (g x)) u in
    let x1 := c_axpy eps u1 x in
    c_lr_fwd l q1 = x1 /\ c_lr_lin l v2 = c_axpy half (Minv (g x1)) u1.
  Proof. apply (leapfrog_textbook_lowrank Qc c0 c1 c_add c_sub c_mul c_opp R). Qed.

  (* ... and for the whitened gradient tg_of of the test potentials *)
  Lemma len_gradx n c4 : forall p m x, length p = n -> length m = n -> length x = n ->
    length (gradx p m c4 x) = n.
  Proof.
    induction n; intros [|pi p] [|mi m] [|xi x] Hp Hm Hx; simpl in *; try discriminate; auto.
  Qed.

  Theorem c_leapfrog_textbook_tg_of n (P : potential) (l : clowrank) eps half c s q v :
    c_lowrank_dims n l -> length (p_prec P) = n -> length (p_mean P) = n ->
    length q = n -> length v = n ->
    let g := pot_grad P in
    let Minv := fun w => c_lr_lin l (c_lr_grad l w) in
    let '(q1, v2) := c_step (tg_of P l) Euclidean eps half c s (q, v) in
    let x := c_lr_fwd l q in
    let u := c_lr_lin l v in
    let u1 := c_axpy half (Minv (g x)) u in
    let x1 := c_axpy eps u1 x in
    c_lr_fwd l q1 = x1 /\ c_lr_lin l v2 = c_axpy half (Minv (g x1)) u1.
  Proof.
    intros Hd Hp Hm Hq Hv.
    apply (c_leapfrog_textbook_lowrank n l (pot_grad P)); auto.
    intros x Hx. apply len_gradx; auto.
  Qed.

  (* L7 *)
  Theorem c_exact_normal_conserves (tg : cvec -> cvec) eps half c s q v :
    (forall x, tg x = map Qcopp x) -> c * c + s * s = 1 -> length q = length v ->
    let '(q1, v2) := c_step tg ExactNormal eps half c s (q, v) in
    c_dot q1 q1 + c_dot v2 v2 = c_dot q q + c_dot v v.
  Proof. apply (exact_normal_conserves Qc c0 c1 c_add c_sub c_mul c_opp R). Qed.

  (* L8 *)
  Theorem c_step_is_three_shears (tg : cvec -> cvec) eps half c s qv :
    c_step tg Euclidean eps half c s qv = c_kick tg half (c_drift eps (c_kick tg half qv)).
  Proof. apply step_is_three_shears. Qed.

  Theorem c_kick_inverse (tg : cvec -> cvec) h q v :
    (forall x, length (tg x) = length x) -> length q = length v ->
    c_kick tg (- h) (c_kick tg h (q, v)) = (q, v) /\ c_kick tg h (c_kick tg (- h) (q, v)) = (q, v).
  Proof. intros. apply (kick_inverse Qc c0 c1 c_add c_sub c_mul c_opp R); auto. Qed.

  Theorem c_drift_inverse e (q v : cvec) : length q = length v ->
    c_drift (- e) (c_drift e (q, v)) = (q, v) /\ c_drift e (c_drift (- e) (q, v)) = (q, v).
  Proof. apply (drift_inverse Qc c0 c1 c_add c_sub c_mul c_opp R). Qed.

  Theorem c_shear_v_inverse (f : cvec -> cvec) (q v : cvec) : length (f q) = length v ->
    c_vsub (c_vadd v (f q)) (f q) = v /\ c_vadd (c_vsub v (f q)) (f q) = v.
  Proof. apply (shear_v_inverse Qc c0 c1 c_add c_sub c_mul c_opp R). Qed.

  Theorem c_shear_q_inverse e (q v : cvec) : length q = length v ->
    c_vsub (c_vadd q (c_vscale e v)) (c_vscale e v) = q /\
    c_vadd (c_vsub q (c_vscale e v)) (c_vscale e v) = q.
  Proof. apply (shear_q_inverse Qc c0 c1 c_add c_sub c_mul c_opp R). Qed.

  Theorem c_euclidean_step_jacobian_1d (tg : cvec -> cvec) a b eps half c s :
    (forall q, tg [q] = [a * q + b]) ->
    let j11 := 1 + eps * half * a in
    let j12 := eps in
    let j21 := half * a + half * a * (1 + eps * half * a) in
    let j22 := 1 + half * a * eps in
    let k1 := eps * half * b in
    let k2 := half * b + half * (a * (eps * half * b) + b) in
    (forall q v, c_step tg Euclidean eps half c s ([q], [v])
                 = ([j11 * q + j12 * v + k1], [j21 * q + j22 * v + k2])) /\
    j11 * j22 - j12 * j21 = 1.
  Proof.
    intros Htg. split.
    - intros q v.
      apply (euclidean_step_affine_1d Qc c0 c1 c_add c_sub c_mul c_opp R a b eps half tg c s q v Htg).
    - apply (euclidean_step_jacobian_det_1d Qc c0 c1 c_add c_sub c_mul c_opp R a eps half).
  Qed.

  (* L9, with half = eps * (1/2) as in eval_step *)
  Theorem c_energy_error_quadratic (tg : cvec -> cvec) w2 eps c s q v :
    (forall q, tg [q] = [- (w2 * q)]) ->
    let quarter := Q2Qc (1 # 4) in
    let Emod := fun q v => v * v + w2 * q * q * (1 - eps * eps * w2 * quarter) in
    let E := fun q v => v * v + w2 * q * q in
    exists q1 v2, c_step tg Euclidean eps (eps * chalf) c s ([q], [v]) = ([q1], [v2]) /\
      Emod q1 v2 = Emod q v /\
      E q1 v2 - E q v = eps * eps * quarter * (w2 * w2) * (q1 * q1 - q * q).
  Proof.
    intros Htg.
    assert (Hh : chalf + chalf = 1) by (apply Qc_is_canon; reflexivity).
    assert (Hq : Q2Qc (1 # 4) * (1 + 1 + 1 + 1) = 1) by (apply Qc_is_canon; reflexivity).
    assert (He : eps * chalf + eps * chalf = eps).
    { transitivity (eps * (chalf + chalf)); [ring | rewrite Hh; ring]. }
    apply (energy_error_quadratic Qc c0 c1 c_add c_sub c_mul c_opp R tg w2 eps (eps * chalf)
             (Q2Qc (1 # 4)) c s q v Htg He Hq).
  Qed.
End QcInstance.
