lib/Fp.vo lib/Fp.glob lib/Fp.v.beautified lib/Fp.required_vo: lib/Fp.v 
lib/Fp.vio: lib/Fp.v 
lib/Fp.vos lib/Fp.vok lib/Fp.required_vos: lib/Fp.v 
model/Schedule.vo model/Schedule.glob model/Schedule.v.beautified model/Schedule.required_vo: model/Schedule.v lib/Fp.vo
model/Schedule.vio: model/Schedule.v lib/Fp.vio
model/Schedule.vos model/Schedule.vok model/Schedule.required_vos: model/Schedule.v lib/Fp.vos
model/DualAvg.vo model/DualAvg.glob model/DualAvg.v.beautified model/DualAvg.required_vo: model/DualAvg.v lib/Fp.vo
model/DualAvg.vio: model/DualAvg.v lib/Fp.vio
model/DualAvg.vos model/DualAvg.vok model/DualAvg.required_vos: model/DualAvg.v lib/Fp.vos
model/Tree.vo model/Tree.glob model/Tree.v.beautified model/Tree.required_vo: model/Tree.v 
model/Tree.vio: model/Tree.v 
model/Tree.vos model/Tree.vok model/Tree.required_vos: model/Tree.v 
model/Kernel.vo model/Kernel.glob model/Kernel.v.beautified model/Kernel.required_vo: model/Kernel.v 
model/Kernel.vio: model/Kernel.v 
model/Kernel.vos model/Kernel.vok model/Kernel.required_vos: model/Kernel.v 
model/KernelF64.vo model/KernelF64.glob model/KernelF64.v.beautified model/KernelF64.required_vo: model/KernelF64.v lib/Fp.vo model/Kernel.vo
model/KernelF64.vio: model/KernelF64.v lib/Fp.vio model/Kernel.vio
model/KernelF64.vos model/KernelF64.vok model/KernelF64.required_vos: model/KernelF64.v lib/Fp.vos model/Kernel.vos
model/Leapfrog.vo model/Leapfrog.glob model/Leapfrog.v.beautified model/Leapfrog.required_vo: model/Leapfrog.v 
model/Leapfrog.vio: model/Leapfrog.v 
model/Leapfrog.vos model/Leapfrog.vok model/Leapfrog.required_vos: model/Leapfrog.v 
model/LeapfrogQc.vo model/LeapfrogQc.glob model/LeapfrogQc.v.beautified model/LeapfrogQc.required_vo: model/LeapfrogQc.v model/Leapfrog.vo
model/LeapfrogQc.vio: model/LeapfrogQc.v model/Leapfrog.vio
model/LeapfrogQc.vos model/LeapfrogQc.vok model/LeapfrogQc.required_vos: model/LeapfrogQc.v model/Leapfrog.vos
model/Protocol.vo model/Protocol.glob model/Protocol.v.beautified model/Protocol.required_vo: model/Protocol.v 
model/Protocol.vio: model/Protocol.v 
model/Protocol.vos model/Protocol.vok model/Protocol.required_vos: model/Protocol.v 
model/StepSize.vo model/StepSize.glob model/StepSize.v.beautified model/StepSize.required_vo: model/StepSize.v 
model/StepSize.vio: model/StepSize.v 
model/StepSize.vos model/StepSize.vok model/StepSize.required_vos: model/StepSize.v 
model/Estimator.vo model/Estimator.glob model/Estimator.v.beautified model/Estimator.required_vo: model/Estimator.v lib/Fp.vo
model/Estimator.vio: model/Estimator.v lib/Fp.vio
model/Estimator.vos model/Estimator.vok model/Estimator.required_vos: model/Estimator.v lib/Fp.vos
proofs/Schedule_facts.vo proofs/Schedule_facts.glob proofs/Schedule_facts.v.beautified proofs/Schedule_facts.required_vo: proofs/Schedule_facts.v lib/Fp.vo model/Schedule.vo
proofs/Schedule_facts.vio: proofs/Schedule_facts.v lib/Fp.vio model/Schedule.vio
proofs/Schedule_facts.vos proofs/Schedule_facts.vok proofs/Schedule_facts.required_vos: proofs/Schedule_facts.v lib/Fp.vos model/Schedule.vos
proofs/Tree_facts.vo proofs/Tree_facts.glob proofs/Tree_facts.v.beautified proofs/Tree_facts.required_vo: proofs/Tree_facts.v model/Tree.vo
proofs/Tree_facts.vio: proofs/Tree_facts.v model/Tree.vio
proofs/Tree_facts.vos proofs/Tree_facts.vok proofs/Tree_facts.required_vos: proofs/Tree_facts.v model/Tree.vos
proofs/Balance.vo proofs/Balance.glob proofs/Balance.v.beautified proofs/Balance.required_vo: proofs/Balance.v model/Tree.vo
proofs/Balance.vio: proofs/Balance.v model/Tree.vio
proofs/Balance.vos proofs/Balance.vok proofs/Balance.required_vos: proofs/Balance.v model/Tree.vos
proofs/Kernel_facts.vo proofs/Kernel_facts.glob proofs/Kernel_facts.v.beautified proofs/Kernel_facts.required_vo: proofs/Kernel_facts.v model/Kernel.vo lib/Fp.vo model/KernelF64.vo
proofs/Kernel_facts.vio: proofs/Kernel_facts.v model/Kernel.vio lib/Fp.vio model/KernelF64.vio
proofs/Kernel_facts.vos proofs/Kernel_facts.vok proofs/Kernel_facts.required_vos: proofs/Kernel_facts.v model/Kernel.vos lib/Fp.vos model/KernelF64.vos
proofs/Leapfrog_facts.vo proofs/Leapfrog_facts.glob proofs/Leapfrog_facts.v.beautified proofs/Leapfrog_facts.required_vo: proofs/Leapfrog_facts.v model/Leapfrog.vo model/LeapfrogQc.vo
proofs/Leapfrog_facts.vio: proofs/Leapfrog_facts.v model/Leapfrog.vio model/LeapfrogQc.vio
proofs/Leapfrog_facts.vos proofs/Leapfrog_facts.vok proofs/Leapfrog_facts.required_vos: proofs/Leapfrog_facts.v model/Leapfrog.vos model/LeapfrogQc.vos
Properties/C06.vo Properties/C06.glob Properties/C06.v.beautified Properties/C06.required_vo: Properties/C06.v lib/Fp.vo model/Schedule.vo proofs/Schedule_facts.vo
Properties/C06.vio: Properties/C06.v lib/Fp.vio model/Schedule.vio proofs/Schedule_facts.vio
Properties/C06.vos Properties/C06.vok Properties/C06.required_vos: Properties/C06.v lib/Fp.vos model/Schedule.vos proofs/Schedule_facts.vos
Properties/C09.vo Properties/C09.glob Properties/C09.v.beautified Properties/C09.required_vo: Properties/C09.v lib/Fp.vo model/Schedule.vo proofs/Schedule_facts.vo
Properties/C09.vio: Properties/C09.v lib/Fp.vio model/Schedule.vio proofs/Schedule_facts.vio
Properties/C09.vos Properties/C09.vok Properties/C09.required_vos: Properties/C09.v lib/Fp.vos model/Schedule.vos proofs/Schedule_facts.vos
Properties/C01.vo Properties/C01.glob Properties/C01.v.beautified Properties/C01.required_vo: Properties/C01.v model/Tree.vo proofs/Tree_facts.vo proofs/Balance.vo
Properties/C01.vio: Properties/C01.v model/Tree.vio proofs/Tree_facts.vio proofs/Balance.vio
Properties/C01.vos Properties/C01.vok Properties/C01.required_vos: Properties/C01.v model/Tree.vos proofs/Tree_facts.vos proofs/Balance.vos
Properties/C03.vo Properties/C03.glob Properties/C03.v.beautified Properties/C03.required_vo: Properties/C03.v model/Tree.vo proofs/Tree_facts.vo
Properties/C03.vio: Properties/C03.v model/Tree.vio proofs/Tree_facts.vio
Properties/C03.vos Properties/C03.vok Properties/C03.required_vos: Properties/C03.v model/Tree.vos proofs/Tree_facts.vos
Properties/C17.vo Properties/C17.glob Properties/C17.v.beautified Properties/C17.required_vo: Properties/C17.v lib/Fp.vo model/Kernel.vo model/KernelF64.vo proofs/Kernel_facts.vo
Properties/C17.vio: Properties/C17.v lib/Fp.vio model/Kernel.vio model/KernelF64.vio proofs/Kernel_facts.vio
Properties/C17.vos Properties/C17.vok Properties/C17.required_vos: Properties/C17.v lib/Fp.vos model/Kernel.vos model/KernelF64.vos proofs/Kernel_facts.vos
Properties/C02.vo Properties/C02.glob Properties/C02.v.beautified Properties/C02.required_vo: Properties/C02.v model/Leapfrog.vo model/LeapfrogQc.vo proofs/Leapfrog_facts.vo
Properties/C02.vio: Properties/C02.v model/Leapfrog.vio model/LeapfrogQc.vio proofs/Leapfrog_facts.vio
Properties/C02.vos Properties/C02.vok Properties/C02.required_vos: Properties/C02.v model/Leapfrog.vos model/LeapfrogQc.vos proofs/Leapfrog_facts.vos
Properties/C10.vo Properties/C10.glob Properties/C10.v.beautified Properties/C10.required_vo: Properties/C10.v model/Protocol.vo
Properties/C10.vio: Properties/C10.v model/Protocol.vio
Properties/C10.vos Properties/C10.vok Properties/C10.required_vos: Properties/C10.v model/Protocol.vos
Properties/C11.vo Properties/C11.glob Properties/C11.v.beautified Properties/C11.required_vo: Properties/C11.v model/Protocol.vo
Properties/C11.vio: Properties/C11.v model/Protocol.vio
Properties/C11.vos Properties/C11.vok Properties/C11.required_vos: Properties/C11.v model/Protocol.vos
Properties/C12.vo Properties/C12.glob Properties/C12.v.beautified Properties/C12.required_vo: Properties/C12.v model/Protocol.vo
Properties/C12.vio: Properties/C12.v model/Protocol.vio
Properties/C12.vos Properties/C12.vok Properties/C12.required_vos: Properties/C12.v model/Protocol.vos
Properties/C13.vo Properties/C13.glob Properties/C13.v.beautified Properties/C13.required_vo: Properties/C13.v model/Protocol.vo
Properties/C13.vio: Properties/C13.v model/Protocol.vio
Properties/C13.vos Properties/C13.vok Properties/C13.required_vos: Properties/C13.v model/Protocol.vos
Properties/C07.vo Properties/C07.glob Properties/C07.v.beautified Properties/C07.required_vo: Properties/C07.v lib/Fp.vo model/DualAvg.vo model/StepSize.vo
Properties/C07.vio: Properties/C07.v lib/Fp.vio model/DualAvg.vio model/StepSize.vio
Properties/C07.vos Properties/C07.vok Properties/C07.required_vos: Properties/C07.v lib/Fp.vos model/DualAvg.vos model/StepSize.vos
Properties/C08.vo Properties/C08.glob Properties/C08.v.beautified Properties/C08.required_vo: Properties/C08.v lib/Fp.vo model/Estimator.vo
Properties/C08.vio: Properties/C08.v lib/Fp.vio model/Estimator.vio
Properties/C08.vos Properties/C08.vok Properties/C08.required_vos: Properties/C08.v lib/Fp.vos model/Estimator.vos
