//! JSON text round trip of every settings preset in a default-feature build of nuts-rs.
//! stdin: one JSON case per line {"id":..,"preset":..,"seed":..,"n":..}; stdout: one JSON line per case.
//! For each of n seeded variations every float leaf of to_value(Default) is replaced by a finite
//! f64 drawn from the seed; the value is decoded (from_value), printed (to_string), parsed
//! (from_str) and compared leaf by leaf with the value that was printed.
use std::io::BufRead;

use nuts_rs::{
    DiagMclmcSettings, DiagNutsSettings, FlowMclmcSettings, FlowNutsSettings, LowRankMclmcSettings,
    LowRankNutsSettings,
};
use serde::{Serialize, de::DeserializeOwned};
use serde_json::{Value as J, json};

struct SplitMix(u64);
impl SplitMix {
    fn next(&mut self) -> u64 {
        self.0 = self.0.wrapping_add(0x9E3779B97F4A7C15);
        let mut z = self.0;
        z = (z ^ (z >> 30)).wrapping_mul(0xBF58476D1CE4E5B9);
        z = (z ^ (z >> 27)).wrapping_mul(0x94D049BB133111EB);
        z ^ (z >> 31)
    }
    fn finite(&mut self) -> f64 {
        loop {
            let k = self.next();
            // a mixture: full-range bit patterns and "computed-looking" values of moderate size
            let x = if k & 1 == 0 {
                f64::from_bits(self.next())
            } else {
                let m = (self.next() >> 11) as f64 / (1u64 << 53) as f64;
                let e = (self.next() % 40) as i32 - 20;
                (m + 0.5) * 10f64.powi(e)
            };
            if x.is_finite() {
                return x;
            }
        }
    }
}

fn perturb(v: &mut J, rng: &mut SplitMix, floats: &mut Vec<(String, f64)>, path: String) {
    match v {
        J::Number(n) if n.is_f64() => {
            let x = rng.finite();
            *v = json!(x);
            floats.push((path, x));
        }
        J::Array(a) => {
            for (i, x) in a.iter_mut().enumerate() {
                perturb(x, rng, floats, format!("{path}[{i}]"));
            }
        }
        J::Object(o) => {
            for (k, x) in o.iter_mut() {
                perturb(x, rng, floats, format!("{path}.{k}"));
            }
        }
        _ => {}
    }
}

fn leaves(v: &J, path: String, out: &mut Vec<(String, String)>) {
    match v {
        J::Array(a) => {
            for (i, x) in a.iter().enumerate() {
                leaves(x, format!("{path}[{i}]"), out);
            }
        }
        J::Object(o) => {
            for (k, x) in o.iter() {
                leaves(x, format!("{path}.{k}"), out);
            }
        }
        J::Number(n) if n.is_f64() => out.push((path, format!("f64:{}", n.as_f64().unwrap().to_bits()))),
        other => out.push((path, other.to_string())),
    }
}

fn run<S: Serialize + DeserializeOwned + Default>(case: &J) -> J {
    let n = case["n"].as_u64().unwrap_or(100);
    let mut rng = SplitMix(case["seed"].as_u64().unwrap_or(1));
    let base = serde_json::to_value(S::default()).unwrap();
    let (mut tried, mut floats_total, mut failures) = (0u64, 0u64, vec![]);
    for k in 0..n {
        let mut v = base.clone();
        let mut fl = vec![];
        perturb(&mut v, &mut rng, &mut fl, String::new());
        let s: S = match serde_json::from_value(v) {
            Ok(s) => s,
            Err(_) => continue,
        };
        tried += 1;
        floats_total += fl.len() as u64;
        let before = serde_json::to_value(&s).unwrap();
        let text = serde_json::to_string(&s).unwrap();
        let back: Result<S, _> = serde_json::from_str(&text);
        match back {
            Err(e) => failures.push(json!({"variation": k, "error": format!("{e}"), "text": text})),
            Ok(b) => {
                let after = serde_json::to_value(&b).unwrap();
                let (mut l1, mut l2) = (vec![], vec![]);
                leaves(&before, String::new(), &mut l1);
                leaves(&after, String::new(), &mut l2);
                if l1 != l2 {
                    let d = l1.iter().zip(l2.iter()).find(|(a, b)| a != b).map(|(a, b)| json!([a.0, a.1, b.1]));
                    if failures.len() < 3 {
                        failures.push(json!({"variation": k, "first_difference": d, "text": text}));
                    } else {
                        failures.push(json!({"variation": k}));
                    }
                }
            }
        }
    }
    json!({"id": case["id"], "preset": case["preset"], "tried": tried, "float_fields": floats_total,
           "n_failures": failures.len(), "failures": failures.into_iter().take(3).collect::<Vec<_>>()})
}

fn main() {
    let stdin = std::io::stdin();
    for line in stdin.lock().lines() {
        let line = line.unwrap();
        if line.trim().is_empty() {
            continue;
        }
        let case: J = serde_json::from_str(&line).unwrap();
        let out = match case["preset"].as_str().unwrap_or("") {
            "diag_nuts" | "DiagNutsSettings" => run::<DiagNutsSettings>(&case),
            "lowrank_nuts" | "LowRankNutsSettings" => run::<LowRankNutsSettings>(&case),
            "flow_nuts" | "FlowNutsSettings" => run::<FlowNutsSettings>(&case),
            "diag_mclmc" | "DiagMclmcSettings" => run::<DiagMclmcSettings>(&case),
            "lowrank_mclmc" | "LowRankMclmcSettings" => run::<LowRankMclmcSettings>(&case),
            "flow_mclmc" | "FlowMclmcSettings" => run::<FlowMclmcSettings>(&case),
            p => json!({"id": case["id"], "error": format!("unknown preset {p}")}),
        };
        println!("{out}");
    }
}
