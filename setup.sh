#!/bin/sh
# Build the framework from files on disk only (offline): Coq development and harness binaries.
set -e
cd "$(dirname "$0")"
export CARGO_NET_OFFLINE=true
mkdir -p build evidence replays
( cd coq && coq_makefile -f _CoqProject -o Makefile >/dev/null && timeout 3000 make -j16 >/dev/null 2>build.log || { tail -50 build.log; exit 1; } )
( cd harness && timeout 3000 cargo build --offline --bins 2>&1 | tail -3 )
( cd harness_nofeat && CARGO_TARGET_DIR="$(pwd)/../build/target_nofeat" timeout 3000 cargo build --offline --bins 2>&1 | tail -3 )
