//! Common pieces of the correspondence harness: a scriptable density, a deterministic
//! PRNG, value canonicalisation.  Everything here is test scaffolding outside /repo.

use std::{
    collections::HashMap,
    sync::{Arc, Mutex},
};

use nuts_rs::{CpuLogpFunc, CpuMathError, HasDims, ItemType, LogpError, Storable, Value};
use serde_json::{Value as J, json};
use thiserror::Error;

pub mod model;
pub mod rngs;
pub mod slowstore;
pub mod wrapmath;

// ---------------------------------------------------------------------------------------------
// SplitMix64: every random choice of the harness derives from one state
// ---------------------------------------------------------------------------------------------
#[derive(Clone, Debug)]
pub struct SplitMix(pub u64);
impl SplitMix {
    pub fn next(&mut self) -> u64 {
        self.0 = self.0.wrapping_add(0x9E3779B97F4A7C15);
        let mut z = self.0;
        z = (z ^ (z >> 30)).wrapping_mul(0xBF58476D1CE4E5B9);
        z = (z ^ (z >> 27)).wrapping_mul(0x94D049BB133111EB);
        z ^ (z >> 31)
    }
    pub fn below(&mut self, n: u64) -> u64 {
        if n == 0 { 0 } else { self.next() % n }
    }
    pub fn unit(&mut self) -> f64 {
        (self.next() >> 11) as f64 / (1u64 << 53) as f64
    }
}

// ---------------------------------------------------------------------------------------------
// Fault kinds of the scripted density
// ---------------------------------------------------------------------------------------------
#[derive(Clone, Copy, Debug, PartialEq, Eq, serde::Serialize, serde::Deserialize)]
pub enum Fault {
    /// recoverable error
    Rec,
    /// unrecoverable error
    Unrec,
    /// logp = NaN
    NanLogp,
    /// logp = +inf
    InfLogp,
    /// logp = -inf
    NegInfLogp,
    /// gradient[0] = NaN
    NanGrad,
    /// gradient[0] = inf
    InfGrad,
    /// logp lowered by 1e6 (energy error above every sensible limit)
    HugeEnergy,
}

impl Fault {
    pub fn parse(s: &str) -> Option<Fault> {
        Some(match s {
            "rec" => Fault::Rec,
            "unrec" => Fault::Unrec,
            "nan_logp" => Fault::NanLogp,
            "inf_logp" => Fault::InfLogp,
            "neginf_logp" => Fault::NegInfLogp,
            "nan_grad" => Fault::NanGrad,
            "inf_grad" => Fault::InfGrad,
            "huge_energy" => Fault::HugeEnergy,
            _ => return None,
        })
    }
    pub fn name(&self) -> &'static str {
        match self {
            Fault::Rec => "rec",
            Fault::Unrec => "unrec",
            Fault::NanLogp => "nan_logp",
            Fault::InfLogp => "inf_logp",
            Fault::NegInfLogp => "neginf_logp",
            Fault::NanGrad => "nan_grad",
            Fault::InfGrad => "inf_grad",
            Fault::HugeEnergy => "huge_energy",
        }
    }
}

#[derive(Error, Debug)]
pub enum TestLogpError {
    #[error("scripted recoverable error")]
    Recoverable,
    #[error("scripted unrecoverable error")]
    Unrecoverable,
}

impl LogpError for TestLogpError {
    fn is_recoverable(&self) -> bool {
        matches!(self, TestLogpError::Recoverable)
    }
}

#[derive(Clone, Debug)]
pub struct EvalRecord {
    pub position: Vec<f64>,
    pub logp: f64,
    pub gradient: Vec<f64>,
    pub fault: Option<Fault>,
}

#[derive(Default, Debug)]
pub struct EvalLog {
    pub evals: Vec<EvalRecord>,
    pub keep: bool,
    pub count: u64,
    pub flow_updates: u64,
    /// unrecoverable errors / expand failures actually returned to the sampler
    pub fatal_hits: u64,
}

/// Shape of the expanded vector the density produces per draw (draw variables of the trace).
#[derive(Clone, Debug, Default)]
pub struct DrawSchema {
    /// (name, item type tag, dims, dim sizes)
    pub vars: Vec<(String, String, Vec<String>)>,
    pub dim_sizes: Vec<(String, u64)>,
}

/// Scriptable density: `logp(x) = -1/2 sum prec_i (x_i-mu_i)^2 - quartic/4 sum (x_i-mu_i)^4`.
#[derive(Clone)]
pub struct TestLogp {
    pub dim: usize,
    pub prec: Vec<f64>,
    pub mu: Vec<f64>,
    pub quartic: f64,
    /// dense precision matrix (row major) overriding `prec` when present
    pub dense_prec: Option<Vec<f64>>,
    pub faults: HashMap<u64, Fault>,
    /// faults by region: every evaluation with x[0] > threshold is faulty
    pub region_fault: Option<(f64, Fault)>,
    pub log: Arc<Mutex<EvalLog>>,
    pub schema: DrawSchema,
    /// when set, expand_vector fails
    pub expand_fails_at: Option<u64>,
    pub expand_count: Arc<Mutex<u64>>,
    /// sleep per evaluation (to vary chain speed)
    pub sleep_us: u64,
    /// which chain of a parallel run this density belongs to
    pub chain_tag: Option<u64>,
    /// make scripted faults a function of the point: a point that evaluated fine never fails later
    /// and a point that failed fails the same way again (the sampler re-evaluates the current
    /// point, e.g. when the step-size search is re-run; a real density is deterministic)
    pub consistent_faults: bool,
    pub seen_good: std::collections::HashSet<Vec<u64>>,
    pub seen_bad: HashMap<Vec<u64>, Fault>,
}

impl TestLogp {
    pub fn gaussian(prec: Vec<f64>, mu: Vec<f64>) -> Self {
        let dim = prec.len();
        TestLogp {
            dim,
            prec,
            mu,
            quartic: 0.0,
            dense_prec: None,
            faults: HashMap::new(),
            region_fault: None,
            log: Arc::new(Mutex::new(EvalLog::default())),
            schema: DrawSchema::default(),
            expand_fails_at: None,
            expand_count: Arc::new(Mutex::new(0)),
            sleep_us: 0,
            chain_tag: None,
            consistent_faults: false,
            seen_good: Default::default(),
            seen_bad: HashMap::new(),
        }
    }
    pub fn std_normal(dim: usize) -> Self {
        Self::gaussian(vec![1.0; dim], vec![0.0; dim])
    }
    pub fn plain_logp(&self, position: &[f64], gradient: &mut [f64]) -> f64 {
        let mut logp = 0f64;
        if let Some(p) = &self.dense_prec {
            let d = self.dim;
            for i in 0..d {
                let mut acc = 0.0;
                for j in 0..d {
                    acc += p[i * d + j] * (position[j] - self.mu[j]);
                }
                gradient[i] = -acc;
                logp -= 0.5 * (position[i] - self.mu[i]) * acc;
            }
            return logp;
        }
        for i in 0..self.dim {
            let v = position[i] - self.mu[i];
            logp -= self.prec[i] * v * v / 2.0;
            gradient[i] = -self.prec[i] * v;
            if self.quartic != 0.0 {
                logp -= self.quartic * v * v * v * v / 4.0;
                gradient[i] -= self.quartic * v * v * v;
            }
        }
        logp
    }
}

impl HasDims for TestLogp {
    fn dim_sizes(&self) -> HashMap<String, u64> {
        let mut m: HashMap<String, u64> = HashMap::new();
        m.insert("unconstrained_parameter".to_string(), self.dim as u64);
        m.insert("dim".to_string(), self.dim as u64);
        for (k, v) in &self.schema.dim_sizes {
            m.insert(k.clone(), *v);
        }
        m
    }
}

/// Flow parameters for the flow presets: a diagonal scaling with an id counter.
#[derive(Clone, Debug)]
pub struct DiagFlow {
    pub scale: Vec<f64>,
    pub id: i64,
}

/// Per-draw expanded values, generated deterministically from the position.
pub struct Expanded {
    pub values: Vec<(String, Option<Value>)>,
}

fn item_type_of(tag: &str) -> ItemType {
    match tag {
        "f64" => ItemType::F64,
        "f32" => ItemType::F32,
        "i64" => ItemType::I64,
        "u64" => ItemType::U64,
        "bool" => ItemType::Bool,
        "string" => ItemType::String,
        _ => panic!("unknown item type tag {tag}"),
    }
}

impl Storable<TestLogp> for Expanded {
    fn names(parent: &TestLogp) -> Vec<&str> {
        if parent.schema.vars.is_empty() {
            vec!["value"]
        } else {
            parent.schema.vars.iter().map(|v| v.0.as_str()).collect()
        }
    }
    fn item_type(parent: &TestLogp, item: &str) -> ItemType {
        if parent.schema.vars.is_empty() {
            return ItemType::F64;
        }
        let v = parent
            .schema
            .vars
            .iter()
            .find(|v| v.0 == item)
            .expect("unknown draw variable");
        item_type_of(&v.1)
    }
    fn dims<'a>(parent: &'a TestLogp, item: &str) -> Vec<&'a str> {
        if parent.schema.vars.is_empty() {
            return vec!["dim"];
        }
        let v = parent
            .schema
            .vars
            .iter()
            .find(|v| v.0 == item)
            .expect("unknown draw variable");
        v.2.iter().map(|s| s.as_str()).collect()
    }
    fn get_all<'a>(&'a mut self, _parent: &'a TestLogp) -> Vec<(&'a str, Option<Value>)> {
        self.values
            .iter()
            .map(|(n, v)| (n.as_str(), v.clone()))
            .collect()
    }
}

pub fn synth_value(tag: &str, len: Option<usize>, seed: u64) -> Value {
    let mut sm = SplitMix(seed);
    let specials = [f64::NAN, f64::INFINITY, f64::NEG_INFINITY, 0.0, -0.0];
    let f = |sm: &mut SplitMix| -> f64 {
        let r = sm.below(10);
        if r == 0 {
            specials[sm.below(5) as usize]
        } else {
            (sm.unit() - 0.5) * 1000.0
        }
    };
    match (tag, len) {
        ("f64", None) => Value::ScalarF64(f(&mut sm)),
        ("f64", Some(n)) => Value::F64((0..n).map(|_| f(&mut sm)).collect()),
        ("f32", None) => Value::ScalarF32(f(&mut sm) as f32),
        ("f32", Some(n)) => Value::F32((0..n).map(|_| f(&mut sm) as f32).collect()),
        ("i64", None) => Value::ScalarI64(sm.next() as i64 >> 8),
        ("i64", Some(n)) => Value::I64((0..n).map(|_| sm.next() as i64 >> 8).collect()),
        ("u64", None) => Value::ScalarU64(sm.next() >> 8),
        ("u64", Some(n)) => Value::U64((0..n).map(|_| sm.next() >> 8).collect()),
        ("bool", None) => Value::ScalarBool(sm.below(2) == 1),
        ("bool", Some(n)) => Value::Bool((0..n).map(|_| sm.below(2) == 1).collect()),
        ("string", None) => {
            let k = sm.below(4);
            Value::ScalarString(if k == 0 {
                String::new()
            } else {
                format!("s{}", sm.below(1000))
            })
        }
        ("string", Some(n)) => Value::Strings(
            (0..n)
                .map(|_| {
                    if sm.below(4) == 0 {
                        String::new()
                    } else {
                        format!("s{}", sm.below(1000))
                    }
                })
                .collect(),
        ),
        _ => panic!("bad tag"),
    }
}

impl CpuLogpFunc for TestLogp {
    type LogpError = TestLogpError;
    type FlowParameters = DiagFlow;
    type ExpandedVector = Expanded;

    fn dim(&self) -> usize {
        self.dim
    }

    fn logp(&mut self, position: &[f64], gradient: &mut [f64]) -> Result<f64, TestLogpError> {
        if self.sleep_us > 0 {
            std::thread::sleep(std::time::Duration::from_micros(self.sleep_us));
        }
        let k = {
            let mut log = self.log.lock().unwrap();
            let k = log.count;
            log.count += 1;
            k
        };
        let mut fault = self.faults.get(&k).copied();
        if fault.is_none() {
            if let Some((thr, f)) = self.region_fault {
                if self.dim > 0 && position[0] > thr {
                    fault = Some(f);
                }
            }
        }
        let key: Vec<u64> = if self.consistent_faults { position.iter().map(|x| x.to_bits()).collect() } else { vec![] };
        if self.consistent_faults {
            if let Some(f) = self.seen_bad.get(&key) {
                fault = Some(*f);
            } else if fault.is_some() && self.seen_good.contains(&key) {
                fault = None;
            }
            match fault {
                Some(f) => {
                    self.seen_bad.insert(key, f);
                }
                None => {
                    self.seen_good.insert(key);
                }
            }
        }
        let mut logp = self.plain_logp(position, gradient);
        let mut res = Ok(());
        match fault {
            None => {}
            Some(Fault::Rec) => res = Err(TestLogpError::Recoverable),
            Some(Fault::Unrec) => {
                self.log.lock().unwrap().fatal_hits += 1;
                if let Some(tag) = self.chain_tag {
                    nuts_rs::verif::sched::point("chain", "fatal", tag, k);
                }
                res = Err(TestLogpError::Unrecoverable)
            }
            Some(Fault::NanLogp) => logp = f64::NAN,
            Some(Fault::InfLogp) => logp = f64::INFINITY,
            Some(Fault::NegInfLogp) => logp = f64::NEG_INFINITY,
            Some(Fault::NanGrad) => {
                if self.dim > 0 {
                    gradient[0] = f64::NAN
                }
            }
            Some(Fault::InfGrad) => {
                if self.dim > 0 {
                    gradient[0] = f64::INFINITY
                }
            }
            Some(Fault::HugeEnergy) => logp -= 1e6,
        }
        {
            let mut log = self.log.lock().unwrap();
            if log.keep {
                log.evals.push(EvalRecord {
                    position: position.to_vec(),
                    logp,
                    gradient: gradient.to_vec(),
                    fault,
                });
            }
        }
        res.map(|_| logp)
    }

    fn expand_vector<R>(&mut self, _rng: &mut R, array: &[f64]) -> Result<Expanded, CpuMathError>
    where
        R: rand::Rng + ?Sized,
    {
        let n = {
            let mut c = self.expand_count.lock().unwrap();
            let n = *c;
            *c += 1;
            n
        };
        if self.expand_fails_at == Some(n) {
            self.log.lock().unwrap().fatal_hits += 1;
            return Err(CpuMathError::ExpandError("scripted expand failure".into()));
        }
        if self.schema.vars.is_empty() {
            return Ok(Expanded {
                values: vec![("value".to_string(), Some(Value::F64(array.to_vec())))],
            });
        }
        let sizes: HashMap<String, u64> = self.schema.dim_sizes.iter().cloned().collect();
        let values = self
            .schema
            .vars
            .iter()
            .enumerate()
            .map(|(i, (name, tag, dims))| {
                let len = if dims.is_empty() {
                    None
                } else {
                    Some(dims.iter().map(|d| sizes[d] as usize).product())
                };
                let seed = n
                    .wrapping_mul(1000003)
                    .wrapping_add(i as u64)
                    .wrapping_add(array.first().map(|x| x.to_bits()).unwrap_or(7));
                (name.clone(), Some(synth_value(tag, len, seed)))
            })
            .collect();
        Ok(Expanded { values })
    }

    fn inv_transform_normalize(
        &mut self,
        params: &DiagFlow,
        untransformed_position: &[f64],
        untransformed_gradient: &[f64],
        transformed_position: &mut [f64],
        transformed_gradient: &mut [f64],
    ) -> Result<f64, TestLogpError> {
        let mut logdet = 0.0;
        for i in 0..self.dim {
            transformed_position[i] = untransformed_position[i] / params.scale[i];
            transformed_gradient[i] = untransformed_gradient[i] * params.scale[i];
            logdet -= params.scale[i].ln();
        }
        Ok(logdet)
    }

    fn init_from_untransformed_position(
        &mut self,
        params: &DiagFlow,
        untransformed_position: &[f64],
        untransformed_gradient: &mut [f64],
        transformed_position: &mut [f64],
        transformed_gradient: &mut [f64],
    ) -> Result<(f64, f64), TestLogpError> {
        let logp = self.logp(untransformed_position, untransformed_gradient)?;
        let logdet = self.inv_transform_normalize(
            params,
            untransformed_position,
            untransformed_gradient,
            transformed_position,
            transformed_gradient,
        )?;
        Ok((logp, logdet))
    }

    fn init_from_transformed_position(
        &mut self,
        params: &DiagFlow,
        untransformed_position: &mut [f64],
        untransformed_gradient: &mut [f64],
        transformed_position: &[f64],
        transformed_gradient: &mut [f64],
    ) -> Result<(f64, f64), TestLogpError> {
        for i in 0..self.dim {
            untransformed_position[i] = transformed_position[i] * params.scale[i];
        }
        let logp = self.logp(untransformed_position, untransformed_gradient)?;
        let mut logdet = 0.0;
        for i in 0..self.dim {
            transformed_gradient[i] = untransformed_gradient[i] * params.scale[i];
            logdet -= params.scale[i].ln();
        }
        Ok((logp, logdet))
    }

    fn update_transformation<'a, R: rand::Rng + ?Sized>(
        &'a mut self,
        _rng: &mut R,
        _untransformed_positions: impl ExactSizeIterator<Item = &'a [f64]>,
        _untransformed_gradients: impl ExactSizeIterator<Item = &'a [f64]>,
        _untransformed_logp: impl ExactSizeIterator<Item = &'a f64>,
        params: &'a mut DiagFlow,
    ) -> Result<(), TestLogpError> {
        params.id += 1;
        self.log.lock().unwrap().flow_updates += 1;
        Ok(())
    }

    fn init_transformation<R: rand::Rng + ?Sized>(
        &mut self,
        _rng: &mut R,
        _untransformed_position: &[f64],
        _untransformed_gradient: &[f64],
        _chain: u64,
    ) -> Result<DiagFlow, TestLogpError> {
        Ok(DiagFlow {
            scale: vec![1.0; self.dim],
            id: 0,
        })
    }

    fn new_transformation<R: rand::Rng + ?Sized>(
        &mut self,
        _rng: &mut R,
        dim: usize,
        _chain: u64,
    ) -> Result<DiagFlow, TestLogpError> {
        Ok(DiagFlow {
            scale: vec![1.0; dim],
            id: -1,
        })
    }

    fn transformation_id(&self, params: &DiagFlow) -> Result<i64, TestLogpError> {
        Ok(params.id)
    }
}

// ---------------------------------------------------------------------------------------------
// Canonical JSON for nuts_storable::Value: floats as bit patterns (strings), tagged by type
// ---------------------------------------------------------------------------------------------
pub fn f64_bits(x: f64) -> J {
    J::String(format!("{}", x.to_bits()))
}

pub fn value_to_json(v: &Value) -> J {
    match v {
        Value::U64(x) => json!({"t":"u64","n":x.len(),"v":x.iter().map(|y| y.to_string()).collect::<Vec<_>>()}),
        Value::I64(x) => json!({"t":"i64","n":x.len(),"v":x.iter().map(|y| y.to_string()).collect::<Vec<_>>()}),
        Value::F64(x) => json!({"t":"f64","n":x.len(),"v":x.iter().map(|y| y.to_bits().to_string()).collect::<Vec<_>>()}),
        Value::F32(x) => json!({"t":"f32","n":x.len(),"v":x.iter().map(|y| y.to_bits().to_string()).collect::<Vec<_>>()}),
        Value::Bool(x) => json!({"t":"bool","n":x.len(),"v":x.iter().map(|y| (*y as u8).to_string()).collect::<Vec<_>>()}),
        Value::ScalarString(s) => json!({"t":"string","s":true,"v":[s]}),
        Value::Strings(s) => json!({"t":"string","n":s.len(),"v":s}),
        Value::ScalarU64(x) => json!({"t":"u64","s":true,"v":[x.to_string()]}),
        Value::ScalarI64(x) => json!({"t":"i64","s":true,"v":[x.to_string()]}),
        Value::ScalarF64(x) => json!({"t":"f64","s":true,"v":[x.to_bits().to_string()]}),
        Value::ScalarF32(x) => json!({"t":"f32","s":true,"v":[x.to_bits().to_string()]}),
        Value::ScalarBool(x) => json!({"t":"bool","s":true,"v":[(*x as u8).to_string()]}),
        Value::DateTime64(_, x) => json!({"t":"datetime","n":x.len(),"v":x.iter().map(|y| y.to_string()).collect::<Vec<_>>()}),
        Value::TimeDelta64(_, x) => json!({"t":"timedelta","n":x.len(),"v":x.iter().map(|y| y.to_string()).collect::<Vec<_>>()}),
    }
}

pub fn item_type_name(t: ItemType) -> &'static str {
    match t {
        ItemType::U64 => "u64",
        ItemType::I64 => "i64",
        ItemType::F64 => "f64",
        ItemType::F32 => "f32",
        ItemType::Bool => "bool",
        ItemType::String => "string",
        ItemType::DateTime64(_) => "datetime",
        ItemType::TimeDelta64(_) => "timedelta",
    }
}

pub fn stats_to_json(stats: &[(&str, Option<Value>)]) -> J {
    J::Array(
        stats
            .iter()
            .map(|(n, v)| json!([n, v.as_ref().map(value_to_json)]))
            .collect(),
    )
}

pub fn stat_f64(stats: &[(&str, Option<Value>)], name: &str) -> Option<f64> {
    stats.iter().find(|(n, _)| *n == name).and_then(|(_, v)| match v {
        Some(Value::ScalarF64(x)) => Some(*x),
        _ => None,
    })
}
pub fn stat_i64(stats: &[(&str, Option<Value>)], name: &str) -> Option<i64> {
    stats.iter().find(|(n, _)| *n == name).and_then(|(_, v)| match v {
        Some(Value::ScalarI64(x)) => Some(*x),
        Some(Value::ScalarU64(x)) => Some(*x as i64),
        Some(Value::ScalarBool(x)) => Some(*x as i64),
        _ => None,
    })
}

/// Run a closure catching panics; the panic message becomes the error string.
pub fn catch<T>(f: impl FnOnce() -> T) -> Result<T, String> {
    let prev = std::panic::take_hook();
    let msg: Arc<Mutex<Option<String>>> = Arc::new(Mutex::new(None));
    let msg2 = msg.clone();
    std::panic::set_hook(Box::new(move |info| {
        let loc = info
            .location()
            .map(|l| format!("{}:{}", l.file(), l.line()))
            .unwrap_or_default();
        let payload = if let Some(s) = info.payload().downcast_ref::<&str>() {
            s.to_string()
        } else if let Some(s) = info.payload().downcast_ref::<String>() {
            s.clone()
        } else {
            "panic".to_string()
        };
        *msg2.lock().unwrap() = Some(format!("{payload} @ {loc}"));
    }));
    let r = std::panic::catch_unwind(std::panic::AssertUnwindSafe(f));
    std::panic::set_hook(prev);
    match r {
        Ok(v) => Ok(v),
        Err(_) => Err(msg
            .lock()
            .unwrap()
            .clone()
            .unwrap_or_else(|| "panic".to_string())),
    }
}

pub fn read_cases() -> Vec<J> {
    use std::io::BufRead;
    let stdin = std::io::stdin();
    stdin
        .lock()
        .lines()
        .map(|l| l.unwrap())
        .filter(|l| !l.trim().is_empty())
        .map(|l| serde_json::from_str(&l).expect("bad case json"))
        .collect()
}

pub fn jf(v: &J, k: &str, d: f64) -> f64 {
    v.get(k).and_then(|x| x.as_f64()).unwrap_or(d)
}
pub fn ju(v: &J, k: &str, d: u64) -> u64 {
    v.get(k).and_then(|x| x.as_u64()).unwrap_or(d)
}
pub fn jb(v: &J, k: &str, d: bool) -> bool {
    v.get(k).and_then(|x| x.as_bool()).unwrap_or(d)
}
pub fn js<'a>(v: &'a J, k: &str, d: &'a str) -> &'a str {
    v.get(k).and_then(|x| x.as_str()).unwrap_or(d)
}
pub fn jvf(v: &J, k: &str) -> Vec<f64> {
    v.get(k)
        .and_then(|x| x.as_array())
        .map(|a| a.iter().map(|y| y.as_f64().unwrap()).collect())
        .unwrap_or_default()
}
