//! Scripted random number generator: the harness decides every word the sampler consumes.
//!
//! rand 0.10 (vendored source read): `random::<bool>()` is the sign bit of `next_u32()`;
//! `random_bool(p)` is `next_u64() < (p * 2^64) as u64` (always true for p == 1.0) and panics for
//! p outside [0,1] or NaN.

use std::convert::Infallible;

use rand::TryRng;

use crate::SplitMix;

#[derive(Clone, Debug, PartialEq, Eq)]
pub enum Call {
    U32(u64),
    U64(u64),
    Bytes(usize),
}

pub struct ScriptRng {
    pub script: Vec<u64>,
    pub pos: usize,
    pub fallback: SplitMix,
    pub calls: Vec<Call>,
    pub exhausted: bool,
}

impl ScriptRng {
    pub fn new(script: Vec<u64>, seed: u64) -> Self {
        ScriptRng {
            script,
            pos: 0,
            fallback: SplitMix(seed),
            calls: vec![],
            exhausted: false,
        }
    }
    fn word(&mut self) -> u64 {
        if self.pos < self.script.len() {
            let w = self.script[self.pos];
            self.pos += 1;
            w
        } else {
            self.exhausted = true;
            self.fallback.next()
        }
    }
}

impl TryRng for ScriptRng {
    type Error = Infallible;
    fn try_next_u32(&mut self) -> Result<u32, Infallible> {
        let w = self.word();
        self.calls.push(Call::U32(w));
        // the direction bit is the sign bit of the u32: use the top 32 bits of the word
        Ok((w >> 32) as u32)
    }
    fn try_next_u64(&mut self) -> Result<u64, Infallible> {
        let w = self.word();
        self.calls.push(Call::U64(w));
        Ok(w)
    }
    fn try_fill_bytes(&mut self, dst: &mut [u8]) -> Result<(), Infallible> {
        self.calls.push(Call::Bytes(dst.len()));
        for chunk in dst.chunks_mut(8) {
            let w = self.fallback.next().to_le_bytes();
            chunk.copy_from_slice(&w[..chunk.len()]);
        }
        Ok(())
    }
}

/// Generator for the mirror rebuild (C01): the j-th `random::<bool>()` (one u32 word: the doubling
/// direction) is `dirs[j]`; every u64 word (the multinomial coins of `merge_into`, which do not
/// influence the shape of the tree) comes from a seeded SplitMix stream.
pub struct DirRng {
    pub dirs: Vec<bool>,
    pub pos: usize,
    pub coins: SplitMix,
    pub n_u64: usize,
    pub exhausted: bool,
}

impl DirRng {
    pub fn new(dirs: Vec<bool>, seed: u64) -> Self {
        DirRng { dirs, pos: 0, coins: SplitMix(seed), n_u64: 0, exhausted: false }
    }
}

impl TryRng for DirRng {
    type Error = Infallible;
    fn try_next_u32(&mut self) -> Result<u32, Infallible> {
        let fwd = if self.pos < self.dirs.len() {
            self.dirs[self.pos]
        } else {
            self.exhausted = true;
            false
        };
        self.pos += 1;
        // `bool` is the sign bit of the u32
        Ok(if fwd { 0x8000_0000 } else { 0 })
    }
    fn try_next_u64(&mut self) -> Result<u64, Infallible> {
        self.n_u64 += 1;
        Ok(self.coins.next())
    }
    fn try_fill_bytes(&mut self, dst: &mut [u8]) -> Result<(), Infallible> {
        for chunk in dst.chunks_mut(8) {
            let w = self.coins.next().to_le_bytes();
            chunk.copy_from_slice(&w[..chunk.len()]);
        }
        Ok(())
    }
}
