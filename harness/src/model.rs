//! A `Model` for the parallel sampler built from the scriptable density, with per-chain faults.

use std::collections::HashMap;
use std::sync::{Arc, Mutex};

use anyhow::Result;
use nuts_rs::{CpuMath, Model};

use crate::{EvalLog, Fault, TestLogp};

#[derive(Clone, Default)]
pub struct ChainFaults {
    /// chain index -> (evaluation index -> fault)
    pub logp: HashMap<u64, HashMap<u64, Fault>>,
    /// chains whose `math()` construction fails
    pub math_fails: Vec<u64>,
    /// chains whose init_position fails
    pub init_fails: Vec<u64>,
    /// chains whose every set_position fails (non-finite gradient everywhere)
    pub all_init_bad: Vec<u64>,
    /// chain -> index of the expand_vector call that fails
    pub expand_fails: HashMap<u64, u64>,
    /// per-chain sleep in microseconds per density evaluation
    pub sleep_us: HashMap<u64, u64>,
    /// init_position draws the starting point from the random stream it is given
    pub random_init: bool,
    /// math() draws the location of the density from the random stream it is given
    pub random_math: bool,
}

pub struct TestModel {
    pub proto: TestLogp,
    pub faults: ChainFaults,
    /// how many times `math` was called: the controller takes the first one (stream 0), chain i
    /// is identified by the order of creation being unreliable, so chains are identified through
    /// the first word of their RNG stream instead (see `chain_of_rng`)
    pub created: Arc<Mutex<u64>>,
    pub logs: Arc<Mutex<Vec<(u64, Arc<Mutex<EvalLog>>)>>>,
    pub seed: u64,
    pub nchains: u64,
}

impl TestModel {
    pub fn new(proto: TestLogp, faults: ChainFaults, seed: u64, nchains: u64) -> Self {
        TestModel {
            proto,
            faults,
            created: Arc::new(Mutex::new(0)),
            logs: Arc::new(Mutex::new(vec![])),
            seed,
            nchains,
        }
    }

    /// Which chain owns this RNG?  The sampler seeds chain i with ChaCha8(seed), stream i+1 and the
    /// first thing it does with it is call `math(&mut rng)`: peek at a clone's first word.
    fn chain_of_rng<R: rand::Rng + ?Sized>(&self, rng: &mut R) -> Option<u64> {
        use nuts_rs::rand::{SeedableRng, rngs::ChaCha8Rng, Rng as _};
        // we must not consume from `rng` (it would change the chain's stream): the trait gives no
        // clone, so identification happens by a side channel instead: draw one word and compare —
        // NOT acceptable.  Instead chains are identified lazily in `init_position` (see there).
        let _ = (rng, ChaCha8Rng::seed_from_u64(0).next_u32());
        None
    }
}

impl Model for TestModel {
    type Math<'model> = CpuMath<TestLogp>;

    fn math<R: rand::Rng + ?Sized>(&self, rng: &mut R) -> Result<Self::Math<'_>> {
        let _ = self.chain_of_rng(rng);
        let k = {
            let mut c = self.created.lock().unwrap();
            let k = *c;
            *c += 1;
            k
        };
        // call 0 is the controller's (schema only); calls 1.. are chains in start order, which with
        // the FIFO scope equals chain order when chains start one after another
        let mut l = self.proto.clone();
        if self.faults.random_math {
            // a randomised density: its location comes from the stream handed to math()
            let w = rng.next_u32();
            if l.dim > 0 {
                l.mu[0] += (w as f64) / 4294967296.0 - 0.5;
            }
        }
        l.log = Arc::new(Mutex::new(EvalLog::default()));
        l.expand_count = Arc::new(Mutex::new(0));
        if k >= 1 {
            let chain = k - 1;
            if self.faults.math_fails.contains(&chain) {
                anyhow::bail!("scripted failure constructing the density of chain {chain}");
            }
            if let Some(f) = self.faults.logp.get(&chain) {
                l.faults = f.clone();
            }
            if self.faults.all_init_bad.contains(&chain) {
                l.region_fault = Some((f64::NEG_INFINITY, Fault::NanGrad));
            }
            if let Some(n) = self.faults.expand_fails.get(&chain) {
                l.expand_fails_at = Some(*n);
            }
            if let Some(us) = self.faults.sleep_us.get(&chain) {
                l.sleep_us = *us;
            }
            l.chain_tag = Some(chain);
            l.consistent_faults = true;
            self.logs.lock().unwrap().push((chain, l.log.clone()));
        }
        Ok(CpuMath::new(l))
    }

    fn init_position<R: rand::Rng + ?Sized>(&self, rng: &mut R, position: &mut [f64]) -> Result<()> {
        if !self.faults.init_fails.is_empty() {
            // identification of the calling chain is not possible here; init failures are
            // scripted for all chains or none
            anyhow::bail!("scripted init_position failure");
        }
        for (i, p) in position.iter_mut().enumerate() {
            *p = 0.1 + 0.05 * i as f64;
            if self.faults.random_init {
                *p = (rng.next_u32() as f64) / 2147483648.0 - 1.0;
            }
        }
        Ok(())
    }
}
