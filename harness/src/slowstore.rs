//! A delegating storage backend for the parallel-sampler harness: it forwards everything to an
//! inner backend and can (a) sleep inside `record_sample` (which the chain calls while holding its
//! trace mutex: widens the window in which controller commands meet a recording chain), and
//! (b) fail at a chosen call (record_sample of chain c at draw k, flush, chain finalize).

use std::sync::atomic::{AtomicU64, Ordering};
use std::time::Duration;

/// number of injected failures that were actually returned (one case per process)
pub static FAIL_HITS: AtomicU64 = AtomicU64::new(0);

use anyhow::{Result, anyhow};
use nuts_rs::verif::{ChainStorage, StorageConfig, TraceStorage};
use nuts_rs::{Math, Progress, Settings};
use nuts_storable::Value;

#[derive(Clone, Default, Debug)]
pub struct SlowOpts {
    pub record_sleep_us: u64,
    /// (chain, number of the record_sample call of that chain that fails)
    pub record_fail: Option<(u64, u64)>,
    /// chain whose finalize fails
    pub finalize_fail: Option<u64>,
}

pub struct SlowConfig<C> {
    pub inner: C,
    pub opts: SlowOpts,
}

pub struct SlowTrace<T> {
    inner: T,
    opts: SlowOpts,
}

pub struct SlowChain<S> {
    inner: S,
    opts: SlowOpts,
    chain: u64,
    calls: u64,
}

impl<C: StorageConfig> StorageConfig for SlowConfig<C> {
    type Storage = SlowTrace<C::Storage>;
    fn new_trace<M: Math>(self, settings: &impl Settings, math: &M) -> Result<Self::Storage> {
        Ok(SlowTrace { inner: self.inner.new_trace(settings, math)?, opts: self.opts })
    }
}

impl<T: TraceStorage> TraceStorage for SlowTrace<T> {
    type ChainStorage = SlowChain<T::ChainStorage>;
    type Finalized = T::Finalized;

    fn initialize_trace_for_chain(&self, chain_id: u64) -> Result<Self::ChainStorage> {
        Ok(SlowChain {
            inner: self.inner.initialize_trace_for_chain(chain_id)?,
            opts: self.opts.clone(),
            chain: chain_id,
            calls: 0,
        })
    }

    fn finalize(
        self,
        traces: Vec<Result<<Self::ChainStorage as ChainStorage>::Finalized>>,
    ) -> Result<(Option<anyhow::Error>, Self::Finalized)> {
        self.inner.finalize(traces)
    }

    fn inspect(
        &self,
        traces: Vec<Result<Option<<Self::ChainStorage as ChainStorage>::Finalized>>>,
    ) -> Result<(Option<anyhow::Error>, Self::Finalized)> {
        self.inner.inspect(traces)
    }
}

impl<S: ChainStorage> ChainStorage for SlowChain<S> {
    type Finalized = S::Finalized;

    fn record_sample(
        &mut self,
        settings: &impl Settings,
        stats: Vec<(&str, Option<Value>)>,
        draws: Vec<(&str, Option<Value>)>,
        info: &Progress,
    ) -> Result<()> {
        let k = self.calls;
        self.calls += 1;
        if self.opts.record_sleep_us > 0 {
            std::thread::sleep(Duration::from_micros(self.opts.record_sleep_us));
        }
        if self.opts.record_fail == Some((self.chain, k)) {
            FAIL_HITS.fetch_add(1, Ordering::SeqCst);
            return Err(anyhow!("injected storage failure in record_sample (chain {}, call {})", self.chain, k));
        }
        self.inner.record_sample(settings, stats, draws, info)
    }

    fn finalize(self) -> Result<Self::Finalized> {
        if self.opts.finalize_fail == Some(self.chain) {
            FAIL_HITS.fetch_add(1, Ordering::SeqCst);
            return Err(anyhow!("injected storage failure in finalize (chain {})", self.chain));
        }
        self.inner.finalize()
    }

    fn inspect(&self) -> Result<Option<Self::Finalized>> {
        self.inner.inspect()
    }

    fn flush(&self) -> Result<()> {
        self.inner.flush()
    }
}
