//! C14: drives REAL sampling runs that record into a storage backend and, through a logging
//! wrapper around the backend's `StorageConfig`/`TraceStorage`/`ChainStorage`, into a recording
//! reference (the exact sequence of `record_sample` arguments per chain).  After `inspect` (at a
//! prefix) and `finalize` the backend's result is read back completely and printed next to the
//! logged history.
//!
//! Modes: "seq" (default) drives the chains round-robin on this thread through
//! `Settings::new_chain` + `Chain::expanded_draw` (deterministic prefixes for aborted runs and
//! `inspect`); "sampler" drives the whole run through `nuts_rs::Sampler`.

use std::collections::HashMap;
use std::ops::Deref;
use std::sync::{Arc, Mutex};
use std::time::Duration;

use anyhow::Result;
use arrow::array::{
    Array as ArrowArray, BooleanArray, Float32Array, Float64Array, Int64Array, LargeListArray,
    RecordBatch, StringArray, UInt64Array,
};
use nuts_rs::rand::{SeedableRng, rngs::ChaCha8Rng};
use nuts_rs::verif::{ChainStorage, StatsDims, StorageConfig, TraceStorage};
use nuts_rs::{
    ArrowConfig, ArrowTrace, Chain, CpuMath, CsvConfig, DiagMclmcSettings, DiagNutsSettings,
    FlowMclmcSettings, FlowNutsSettings, HashMapConfig, HashMapValue,
    LowRankMclmcSettings, LowRankNutsSettings, Math, NdarrayConfig, NdarrayTrace, NdarrayValue,
    Progress, Sampler, SamplerWaitResult, Settings, StepSizeAdaptMethod, Storable, Value,
    ZarrAsyncConfig, ZarrConfig,
};
use serde_json::{Map, Value as J, json};
use verif_harness::model::{ChainFaults, TestModel};
use verif_harness::*;
use zarrs::array::{Array as ZArray, ArraySubset};
use zarrs::storage::storage_adapter::sync_to_async::{
    SyncToAsyncSpawnBlocking, SyncToAsyncStorageAdapter,
};
use zarrs::storage::store::MemoryStore;
use zarrs::storage::{ReadableListableStorageTraits, ReadableWritableListableStorage};

// ---------------------------------------------------------------------------------------------
// Recording reference: a StorageConfig wrapper that logs every record_sample call
// ---------------------------------------------------------------------------------------------
type Log = Arc<Mutex<Vec<Vec<J>>>>;

struct LogConfig<C> {
    inner: C,
    log: Log,
    schema: Arc<Mutex<Option<J>>>,
}

struct LogTrace<T> {
    inner: T,
    log: Log,
}

struct LogChain<Ch> {
    inner: Ch,
    chain: u64,
    log: Log,
}

fn schema_json<S: Settings, M: Math>(settings: &S, math: &M) -> J {
    let types = settings.stat_types(math);
    let dims = settings.stat_dims_all(math);
    let evs = settings.stat_event_dims(math);
    let stats: Vec<J> = types
        .iter()
        .zip(dims.iter())
        .zip(evs.iter())
        .map(|(((n, t), (n2, d)), (n3, e))| {
            json!([n, item_type_name(*t), d, e, n == n2 && n == n3])
        })
        .collect();
    let dtypes = settings.data_types(math);
    let ddims = settings.data_dims_all(math);
    let draws: Vec<J> = dtypes
        .iter()
        .zip(ddims.iter())
        .map(|((n, t), (n2, d))| json!([n, item_type_name(*t), d, J::Null, n == n2]))
        .collect();
    let mut sds: Vec<(String, u64)> = settings.stat_dim_sizes(math).into_iter().collect();
    sds.sort();
    let mut dds: Vec<(String, u64)> = math.dim_sizes().into_iter().collect();
    dds.sort();
    json!({"stats": stats, "draws": draws, "stat_dim_sizes": sds, "draw_dim_sizes": dds,
           "hint_tune": settings.hint_num_tune(), "hint_draws": settings.hint_num_draws(),
           "num_chains": settings.num_chains()})
}

impl<C: StorageConfig> StorageConfig for LogConfig<C> {
    type Storage = LogTrace<C::Storage>;
    fn new_trace<M: Math>(self, settings: &impl Settings, math: &M) -> Result<Self::Storage> {
        *self.schema.lock().unwrap() = Some(schema_json(settings, math));
        {
            let mut l = self.log.lock().unwrap();
            l.clear();
            for _ in 0..settings.num_chains() {
                l.push(vec![]);
            }
        }
        let inner = self.inner.new_trace(settings, math)?;
        Ok(LogTrace {
            inner,
            log: self.log,
        })
    }
}

impl<T: TraceStorage> TraceStorage for LogTrace<T> {
    type ChainStorage = LogChain<T::ChainStorage>;
    type Finalized = T::Finalized;

    fn initialize_trace_for_chain(&self, chain_id: u64) -> Result<Self::ChainStorage> {
        let inner = self.inner.initialize_trace_for_chain(chain_id)?;
        Ok(LogChain {
            inner,
            chain: chain_id,
            log: self.log.clone(),
        })
    }

    fn finalize(
        self,
        traces: Vec<Result<<Self::ChainStorage as ChainStorage>::Finalized>>,
    ) -> Result<(Option<anyhow::Error>, Self::Finalized)> {
        self.inner.finalize(traces)
    }

    fn inspect(
        &self,
        traces: Vec<Result<Option<<Self::ChainStorage as ChainStorage>::Finalized>>>,
    ) -> Result<(Option<anyhow::Error>, Self::Finalized)> {
        self.inner.inspect(traces)
    }
}

fn entries_json(es: &[(&str, Option<Value>)]) -> J {
    J::Array(
        es.iter()
            .map(|(n, v)| json!([n, v.as_ref().map(value_to_json)]))
            .collect(),
    )
}

impl<Ch: ChainStorage> ChainStorage for LogChain<Ch> {
    type Finalized = Ch::Finalized;

    fn record_sample(
        &mut self,
        settings: &impl Settings,
        stats: Vec<(&str, Option<Value>)>,
        draws: Vec<(&str, Option<Value>)>,
        info: &Progress,
    ) -> Result<()> {
        let mut entry = json!({"t": info.tuning, "s": entries_json(&stats), "d": entries_json(&draws),
                               "draw": info.draw, "chain": info.chain, "div": info.diverging});
        let idx = {
            let mut l = self.log.lock().unwrap();
            let c = &mut l[self.chain as usize];
            entry["r"] = json!("pending");
            c.push(entry);
            c.len() - 1
        };
        // a panic of the backend leaves "pending" in the log
        let r = self.inner.record_sample(settings, stats, draws, info);
        {
            let mut l = self.log.lock().unwrap();
            l[self.chain as usize][idx]["r"] = match &r {
                Ok(()) => json!("ok"),
                Err(e) => json!(format!("err: {e:#}")),
            };
        }
        r
    }

    fn finalize(self) -> Result<Self::Finalized> {
        self.inner.finalize()
    }

    fn inspect(&self) -> Result<Option<Self::Finalized>> {
        self.inner.inspect()
    }

    fn flush(&self) -> Result<()> {
        self.inner.flush()
    }
}

// ---------------------------------------------------------------------------------------------
// Read-back of the in-memory results
// ---------------------------------------------------------------------------------------------
fn hm_json(v: &HashMapValue) -> J {
    match v {
        HashMapValue::F64(x) => json!({"t":"f64","v":x.iter().map(|y| y.to_bits().to_string()).collect::<Vec<_>>()}),
        HashMapValue::F32(x) => json!({"t":"f32","v":x.iter().map(|y| y.to_bits().to_string()).collect::<Vec<_>>()}),
        HashMapValue::Bool(x) => json!({"t":"bool","v":x.iter().map(|y| (*y as u8).to_string()).collect::<Vec<_>>()}),
        HashMapValue::I64(x) => json!({"t":"i64","v":x.iter().map(|y| y.to_string()).collect::<Vec<_>>()}),
        HashMapValue::U64(x) => json!({"t":"u64","v":x.iter().map(|y| y.to_string()).collect::<Vec<_>>()}),
        HashMapValue::String(x) => json!({"t":"string","v":x}),
    }
}

fn read_hashmap(t: &Vec<nuts_rs::verif::HashMapResult>) -> J {
    let chains: Vec<J> = t
        .iter()
        .map(|c| {
            let mut s = Map::new();
            for (k, v) in &c.stats {
                s.insert(k.clone(), hm_json(v));
            }
            let mut d = Map::new();
            for (k, v) in &c.draws {
                d.insert(k.clone(), hm_json(v));
            }
            json!({"stats": s, "draws": d})
        })
        .collect();
    json!({"chains": chains})
}

fn nd_json(v: &NdarrayValue) -> J {
    match v {
        NdarrayValue::F64(a) => json!({"t":"f64","shape":a.shape(),"v":a.iter().map(|y| y.to_bits().to_string()).collect::<Vec<_>>()}),
        NdarrayValue::F32(a) => json!({"t":"f32","shape":a.shape(),"v":a.iter().map(|y| y.to_bits().to_string()).collect::<Vec<_>>()}),
        NdarrayValue::Bool(a) => json!({"t":"bool","shape":a.shape(),"v":a.iter().map(|y| (*y as u8).to_string()).collect::<Vec<_>>()}),
        NdarrayValue::I64(a) => json!({"t":"i64","shape":a.shape(),"v":a.iter().map(|y| y.to_string()).collect::<Vec<_>>()}),
        NdarrayValue::U64(a) => json!({"t":"u64","shape":a.shape(),"v":a.iter().map(|y| y.to_string()).collect::<Vec<_>>()}),
        NdarrayValue::String(a) => json!({"t":"string","shape":a.shape(),"v":a.iter().cloned().collect::<Vec<_>>()}),
    }
}

fn read_ndarray(t: &NdarrayTrace) -> J {
    let mut s = Map::new();
    for (k, v) in &t.stats {
        s.insert(k.clone(), nd_json(v));
    }
    let mut d = Map::new();
    for (k, v) in &t.draws {
        d.insert(k.clone(), nd_json(v));
    }
    json!({"stats": s, "draws": d})
}

fn arrow_cell(a: &dyn ArrowArray, i: usize) -> Option<Vec<String>> {
    if a.is_null(i) {
        return None;
    }
    let any = a.as_any();
    if let Some(x) = any.downcast_ref::<Float64Array>() {
        return Some(vec![x.value(i).to_bits().to_string()]);
    }
    if let Some(x) = any.downcast_ref::<Float32Array>() {
        return Some(vec![x.value(i).to_bits().to_string()]);
    }
    if let Some(x) = any.downcast_ref::<Int64Array>() {
        return Some(vec![x.value(i).to_string()]);
    }
    if let Some(x) = any.downcast_ref::<UInt64Array>() {
        return Some(vec![x.value(i).to_string()]);
    }
    if let Some(x) = any.downcast_ref::<BooleanArray>() {
        return Some(vec![(x.value(i) as u8).to_string()]);
    }
    if let Some(x) = any.downcast_ref::<StringArray>() {
        return Some(vec![x.value(i).to_string()]);
    }
    if let Some(x) = any.downcast_ref::<LargeListArray>() {
        let inner = x.value(i);
        let mut out = vec![];
        for j in 0..inner.len() {
            match arrow_cell(inner.as_ref(), j) {
                Some(mut v) => out.append(&mut v),
                None => out.push("<null-item>".to_string()),
            }
        }
        return Some(out);
    }
    Some(vec![format!("<unsupported {:?}>", a.data_type())])
}

fn read_batch(b: &RecordBatch) -> J {
    let schema = b.schema();
    let cols: Vec<J> = schema
        .fields()
        .iter()
        .enumerate()
        .map(|(i, f)| {
            let col = b.column(i);
            let rows: Vec<J> = (0..col.len())
                .map(|r| match arrow_cell(col.as_ref(), r) {
                    None => J::Null,
                    Some(v) => json!(v),
                })
                .collect();
            let mut meta: Vec<(String, String)> = f.metadata().iter().map(|(k, v)| (k.clone(), v.clone())).collect();
            meta.sort();
            json!({"name": f.name(), "dtype": format!("{}", f.data_type()), "nullable": f.is_nullable(),
                   "meta": meta, "rows": rows})
        })
        .collect();
    json!({"nrows": b.num_rows(), "cols": cols})
}

fn read_arrow(t: &Vec<ArrowTrace>) -> J {
    let chains: Vec<J> = t
        .iter()
        .map(|c| json!({"stats": read_batch(&c.sample_stats), "draws": read_batch(&c.posterior)}))
        .collect();
    json!({"chains": chains})
}

fn read_csv(dir: &std::path::Path, n_chains: usize) -> J {
    let chains: Vec<J> = (0..n_chains)
        .map(|c| match std::fs::read_to_string(dir.join(format!("chain_{c}.csv"))) {
            Ok(s) => J::String(s),
            Err(_) => J::Null,
        })
        .collect();
    json!({"chains": chains})
}

fn zarr_array_json(store: &Arc<dyn ReadableListableStorageTraits>, path: &str, tag: &str) -> J {
    let arr = match ZArray::open(store.clone(), path) {
        Ok(a) => a,
        Err(e) => return json!({"missing": format!("{e}")}),
    };
    let shape = arr.shape().to_vec();
    let dims: Vec<J> = arr
        .dimension_names()
        .as_ref()
        .map(|d| d.iter().map(|x| json!(x)).collect())
        .unwrap_or_default();
    let subset = ArraySubset::new_with_shape(shape.clone());
    let v: std::result::Result<Vec<String>, String> = match tag {
        "f64" => arr
            .retrieve_array_subset::<Vec<f64>>(&subset)
            .map(|v| v.iter().map(|y| y.to_bits().to_string()).collect())
            .map_err(|e| format!("{e}")),
        "f32" => arr
            .retrieve_array_subset::<Vec<f32>>(&subset)
            .map(|v| v.iter().map(|y| y.to_bits().to_string()).collect())
            .map_err(|e| format!("{e}")),
        "i64" => arr
            .retrieve_array_subset::<Vec<i64>>(&subset)
            .map(|v| v.iter().map(|y| y.to_string()).collect())
            .map_err(|e| format!("{e}")),
        "u64" => arr
            .retrieve_array_subset::<Vec<u64>>(&subset)
            .map(|v| v.iter().map(|y| y.to_string()).collect())
            .map_err(|e| format!("{e}")),
        "bool" => arr
            .retrieve_array_subset::<Vec<bool>>(&subset)
            .map(|v| v.iter().map(|y| (*y as u8).to_string()).collect())
            .map_err(|e| format!("{e}")),
        "string" => arr
            .retrieve_array_subset::<Vec<String>>(&subset)
            .map_err(|e| format!("{e}")),
        _ => Err("unknown tag".to_string()),
    };
    match v {
        Ok(v) => json!({"dtype": format!("{}", arr.data_type()), "shape": shape, "dims": dims, "v": v}),
        Err(e) => json!({"dtype": format!("{}", arr.data_type()), "shape": shape, "dims": dims, "error": e}),
    }
}

fn read_zarr(store: &Arc<dyn ReadableListableStorageTraits>, schema: &J) -> J {
    let mut groups = Map::new();
    for (g, key) in [
        ("warmup_sample_stats", "stats"),
        ("sample_stats", "stats"),
        ("warmup_posterior", "draws"),
        ("posterior", "draws"),
    ] {
        let mut m = Map::new();
        if let Some(fs) = schema[key].as_array() {
            for f in fs {
                let name = f[0].as_str().unwrap();
                let tag = f[1].as_str().unwrap();
                m.insert(name.to_string(), zarr_array_json(store, &format!("/{g}/{name}"), tag));
            }
        }
        groups.insert(g.to_string(), J::Object(m));
    }
    json!({"groups": groups})
}

// ---------------------------------------------------------------------------------------------
// Case set-up
// ---------------------------------------------------------------------------------------------
fn draw_schema(case: &J) -> DrawSchema {
    let mut s = DrawSchema::default();
    if let Some(sc) = case.get("schema") {
        if let Some(vars) = sc.get("vars").and_then(|x| x.as_array()) {
            for v in vars {
                let dims: Vec<String> = v[2]
                    .as_array()
                    .map(|a| a.iter().map(|d| d.as_str().unwrap().to_string()).collect())
                    .unwrap_or_default();
                s.vars.push((
                    v[0].as_str().unwrap().to_string(),
                    v[1].as_str().unwrap().to_string(),
                    dims,
                ));
            }
        }
        if let Some(ds) = sc.get("dim_sizes").and_then(|x| x.as_array()) {
            for d in ds {
                s.dim_sizes
                    .push((d[0].as_str().unwrap().to_string(), d[1].as_u64().unwrap()));
            }
        }
    }
    s
}

fn build_logp(case: &J) -> TestLogp {
    let dim = ju(case, "dim", 2) as usize;
    let mut l = TestLogp::std_normal(dim);
    l.schema = draw_schema(case);
    if let Some(rf) = case.get("region_fault").and_then(|x| x.as_array()) {
        let thr = rf[0].as_f64().unwrap();
        let f = Fault::parse(rf[1].as_str().unwrap()).unwrap();
        l.region_fault = Some((thr, f));
    }
    l
}

fn faults_of(case: &J) -> ChainFaults {
    let mut f = ChainFaults::default();
    if let Some(arr) = case.get("logp_faults").and_then(|x| x.as_array()) {
        for e in arr {
            let chain = e[0].as_u64().unwrap();
            let k = e[1].as_u64().unwrap();
            let kind = Fault::parse(e[2].as_str().unwrap()).unwrap();
            f.logp.entry(chain).or_default().insert(k, kind);
        }
    }
    f
}

struct TokioSpawnBlocking;
impl SyncToAsyncSpawnBlocking for TokioSpawnBlocking {
    fn spawn_blocking<F, R>(&self, f: F) -> impl std::future::Future<Output = R> + Send
    where
        F: FnOnce() -> R + Send + 'static,
        R: Send + 'static,
    {
        async move { tokio::task::spawn_blocking(f).await.unwrap() }
    }
}

// ---------------------------------------------------------------------------------------------
// Drivers
// ---------------------------------------------------------------------------------------------
type Reader<'a, F> = &'a mut dyn FnMut(Option<&F>, &J) -> J;

fn fin_out<F>(r: std::result::Result<Result<(Option<anyhow::Error>, F)>, String>, read: Reader<F>, schema: &J) -> J {
    match r {
        Err(p) => json!({"status": format!("panic: {p}"), "read": read(None, schema)}),
        Ok(Err(e)) => json!({"status": format!("err: {e:#}"), "read": read(None, schema)}),
        Ok(Ok((e, f))) => json!({"status": "ok", "chain_error": e.map(|x| format!("{x:#}")),
                                  "read": read(Some(&f), schema)}),
    }
}

fn drive_seq<S: Settings, C: StorageConfig>(
    case: &J,
    settings: S,
    config: C,
    read: Reader<<C::Storage as TraceStorage>::Finalized>,
) -> J {
    let logp = build_logp(case);
    let faults = faults_of(case);
    let n_chains = settings.num_chains();
    let seed = settings.seed();
    let log: Log = Arc::new(Mutex::new(vec![]));
    let schema_cell = Arc::new(Mutex::new(None));
    let math0 = CpuMath::new(logp.clone());
    let lc = LogConfig {
        inner: config,
        log: log.clone(),
        schema: schema_cell.clone(),
    };
    let trace = match catch(|| lc.new_trace(&settings, &math0)) {
        Err(p) => return json!({"id": case["id"], "new_trace": format!("panic: {p}"), "schema": schema_cell.lock().unwrap().clone()}),
        Ok(Err(e)) => return json!({"id": case["id"], "new_trace": format!("err: {e:#}"), "schema": schema_cell.lock().unwrap().clone()}),
        Ok(Ok(t)) => t,
    };
    let schema = schema_cell.lock().unwrap().clone().unwrap();
    let total = (settings.hint_num_tune() + settings.hint_num_draws()) as u64;
    let limits: Vec<u64> = (0..n_chains)
        .map(|c| {
            case.get("abort_after")
                .and_then(|a| a.as_array())
                .and_then(|a| a.get(c))
                .and_then(|x| x.as_u64())
                .unwrap_or(total)
        })
        .collect();
    let inspect_at = case.get("inspect_at").and_then(|x| x.as_u64());
    // steps before which every chain storage is flushed (flushing must not change what the
    // backend finally returns)
    let flush_at: Vec<u64> = case
        .get("flush_at")
        .and_then(|x| x.as_array())
        .map(|a| a.iter().filter_map(|x| x.as_u64()).collect())
        .unwrap_or_default();
    let mut flush_errors: Vec<String> = vec![];

    let mut chains = vec![];
    let mut storages = vec![];
    let mut chain_status: Vec<J> = vec![];
    for c in 0..n_chains {
        let st = match catch(|| trace.initialize_trace_for_chain(c as u64)) {
            Err(p) => return json!({"id": case["id"], "new_trace": "ok", "init_chain": format!("panic: {p}")}),
            Ok(Err(e)) => return json!({"id": case["id"], "new_trace": "ok", "init_chain": format!("err: {e:#}")}),
            Ok(Ok(s)) => s,
        };
        storages.push(Some(st));
        let mut rng = ChaCha8Rng::seed_from_u64(seed);
        rng.set_stream(c as u64 + 1);
        let mut lp = logp.clone();
        lp.log = Arc::new(Mutex::new(EvalLog::default()));
        lp.expand_count = Arc::new(Mutex::new(0));
        if let Some(f) = faults.logp.get(&(c as u64)) {
            lp.faults = f.clone();
        }
        let mut chain = settings.new_chain(c as u64, CpuMath::new(lp), &mut rng);
        let init: Vec<f64> = (0..logp.dim).map(|i| 0.1 + 0.05 * i as f64 + 0.01 * c as f64).collect();
        match catch(|| chain.set_position(&init)) {
            Ok(Ok(())) => chain_status.push(json!("ok")),
            Ok(Err(e)) => chain_status.push(json!(format!("set_position err: {e:#}"))),
            Err(p) => chain_status.push(json!(format!("set_position panic: {p}"))),
        }
        chains.push(chain);
    }
    let mut alive: Vec<bool> = chain_status.iter().map(|s| s == "ok").collect();
    let mut inspect_out = J::Null;
    for step in 0..=total {
        if Some(step) == inspect_at {
            let r = catch(|| {
                let per: Vec<Result<Option<_>>> = storages
                    .iter()
                    .filter_map(|s| s.as_ref())
                    .map(|s| s.inspect())
                    .collect();
                trace.inspect(per)
            });
            let counts: Vec<usize> = log.lock().unwrap().iter().map(|c| c.len()).collect();
            inspect_out = fin_out(r, read, &schema);
            inspect_out["at"] = json!(step);
            inspect_out["counts"] = json!(counts);
        }
        if flush_at.contains(&step) {
            for st in storages.iter().filter_map(|s| s.as_ref()) {
                match catch(|| st.flush()) {
                    Ok(Ok(())) => {}
                    Ok(Err(e)) => flush_errors.push(format!("flush err at {step}: {e:#}")),
                    Err(p) => flush_errors.push(format!("flush panic at {step}: {p}")),
                }
            }
        }
        if step == total {
            break;
        }
        for c in 0..n_chains {
            if !alive[c] || step >= limits[c] {
                continue;
            }
            let chain = &mut chains[c];
            let drawn = catch(|| chain.expanded_draw());
            let (mut expanded, mut stats, info) = match drawn {
                Err(p) => {
                    alive[c] = false;
                    chain_status[c] = json!(format!("draw panic at {step}: {p}"));
                    continue;
                }
                Ok(Err(e)) => {
                    alive[c] = false;
                    chain_status[c] = json!(format!("draw err at {step}: {e:#}"));
                    continue;
                }
                Ok(Ok((_pos, e, s, i))) => (e, s, i),
            };
            let math = chain.math();
            let dims = StatsDims::from(math.deref());
            let st = storages[c].as_mut().unwrap();
            let r = catch(|| {
                st.record_sample(
                    &settings,
                    stats.get_all(&dims),
                    expanded.get_all(math.deref()),
                    &info,
                )
            });
            match r {
                Ok(Ok(())) => {}
                Ok(Err(e)) => {
                    alive[c] = false;
                    chain_status[c] = json!(format!("record err at {step}: {e:#}"));
                }
                Err(p) => {
                    alive[c] = false;
                    chain_status[c] = json!(format!("record panic at {step}: {p}"));
                }
            }
        }
    }
    drop(chains);
    let r = catch(move || {
        let per: Vec<Result<_>> = storages
            .into_iter()
            .filter_map(|s| s)
            .map(|s| s.finalize())
            .collect();
        trace.finalize(per)
    });
    let final_out = fin_out(r, read, &schema);
    let history = log.lock().unwrap().clone();
    json!({"id": case["id"], "new_trace": "ok", "mode": "seq", "schema": schema, "history": history,
           "chain_status": chain_status, "inspect": inspect_out, "final": final_out, "flush_errors": flush_errors})
}

fn drive_sampler<S: Settings, C: StorageConfig>(
    case: &J,
    settings: S,
    config: C,
    read: Reader<<C::Storage as TraceStorage>::Finalized>,
) -> J {
    let logp = build_logp(case);
    let n_chains = settings.num_chains() as u64;
    let model = TestModel::new(logp, faults_of(case), settings.seed(), n_chains);
    let log: Log = Arc::new(Mutex::new(vec![]));
    let schema_cell = Arc::new(Mutex::new(None));
    let lc = LogConfig {
        inner: config,
        log: log.clone(),
        schema: schema_cell.clone(),
    };
    let cores = ju(case, "num_cores", 2) as usize;
    let mut sampler = match catch(|| Sampler::new(model, settings, lc, cores, None)) {
        Err(p) => return json!({"id": case["id"], "new_trace": format!("panic: {p}")}),
        Ok(Err(e)) => return json!({"id": case["id"], "new_trace": format!("err: {e:#}")}),
        Ok(Ok(s)) => s,
    };
    let abort_ms = case.get("abort_after_ms").and_then(|x| x.as_u64());
    let outcome;
    let mut final_out = J::Null;
    let deadline = std::time::Instant::now() + Duration::from_secs(ju(case, "watchdog_s", 30));
    if let Some(ms) = abort_ms {
        std::thread::sleep(Duration::from_millis(ms));
        let r = catch(move || sampler.abort());
        let schema = schema_cell.lock().unwrap().clone().unwrap_or(J::Null);
        outcome = "aborted".to_string();
        final_out = fin_out(r, read, &schema);
    } else {
        loop {
            match sampler.wait_timeout(Duration::from_millis(50)) {
                SamplerWaitResult::Trace(t) => {
                    let schema = schema_cell.lock().unwrap().clone().unwrap_or(J::Null);
                    outcome = "trace".to_string();
                    final_out = json!({"status": "ok", "chain_error": J::Null, "read": read(Some(&t), &schema)});
                    break;
                }
                SamplerWaitResult::Err(e, t) => {
                    let schema = schema_cell.lock().unwrap().clone().unwrap_or(J::Null);
                    outcome = "err".to_string();
                    final_out = json!({"status": "ok", "chain_error": format!("{e:#}"),
                                       "read": read(t.as_ref(), &schema)});
                    break;
                }
                SamplerWaitResult::Timeout(s) => {
                    sampler = s;
                    if std::time::Instant::now() > deadline {
                        let _ = catch(move || sampler.abort());
                        outcome = "hang".to_string();
                        break;
                    }
                }
            }
        }
    }
    let schema = schema_cell.lock().unwrap().clone().unwrap_or(J::Null);
    let history = log.lock().unwrap().clone();
    json!({"id": case["id"], "new_trace": "ok", "mode": "sampler", "outcome": outcome, "schema": schema,
           "history": history, "chain_status": J::Null, "inspect": J::Null, "final": final_out})
}

fn drive<S: Settings, C: StorageConfig>(
    case: &J,
    settings: S,
    config: C,
    read: Reader<<C::Storage as TraceStorage>::Finalized>,
) -> J {
    if js(case, "mode", "seq") == "sampler" {
        drive_sampler(case, settings, config, read)
    } else {
        drive_seq(case, settings, config, read)
    }
}

fn run_backend<S: Settings>(case: &J, settings: S) -> J {
    let backend = js(case, "backend", "hashmap");
    let sw = jb(case, "store_warmup", true);
    match backend {
        "hashmap" => drive(case, settings, HashMapConfig::new(), &mut |f, _| match f {
            Some(t) => read_hashmap(t),
            None => J::Null,
        }),
        "ndarray" => drive(case, settings, NdarrayConfig::new(), &mut |f, _| match f {
            Some(t) => read_ndarray(t),
            None => J::Null,
        }),
        "arrow" => {
            let mut cfg = ArrowConfig::default();
            cfg.store_warmup = sw;
            drive(case, settings, cfg, &mut |f, _| match f {
                Some(t) => read_arrow(t),
                None => J::Null,
            })
        }
        "csv" => {
            let dir = tempfile::tempdir().expect("tempdir");
            let mut cfg = CsvConfig::new(dir.path()).store_warmup(sw);
            if let Some(p) = case.get("precision").and_then(|x| x.as_u64()) {
                cfg = cfg.with_precision(p as usize);
            }
            let n = settings.num_chains();
            let path = dir.path().to_path_buf();
            drive(case, settings, cfg, &mut |_, _| read_csv(&path, n))
        }
        "zarr" => {
            let cs = ju(case, "chunk_size", 100);
            if js(case, "store", "memory") == "fs" {
                let dir = tempfile::tempdir().expect("tempdir");
                let store = Arc::new(
                    zarrs::filesystem::FilesystemStore::new(dir.path()).expect("fs store"),
                );
                let cfg = ZarrConfig::new(store.clone() as ReadableWritableListableStorage)
                    .with_chunk_size(cs)
                    .store_warmup(sw);
                let path = dir.path().to_path_buf();
                drive(case, settings, cfg, &mut |_, schema| {
                    // re-open the directory with a fresh store object
                    let fresh: Arc<dyn ReadableListableStorageTraits> = Arc::new(
                        zarrs::filesystem::FilesystemStore::new(&path).expect("fs store"),
                    );
                    read_zarr(&fresh, schema)
                })
            } else {
                let store = Arc::new(MemoryStore::new());
                let cfg = ZarrConfig::new(store.clone() as ReadableWritableListableStorage)
                    .with_chunk_size(cs)
                    .store_warmup(sw);
                let rs: Arc<dyn ReadableListableStorageTraits> = store.clone();
                drive(case, settings, cfg, &mut |_, schema| read_zarr(&rs, schema))
            }
        }
        "zarr_async" => {
            let cs = ju(case, "chunk_size", 100);
            let rt = tokio::runtime::Builder::new_multi_thread()
                .worker_threads(2)
                .enable_all()
                .build()
                .expect("tokio runtime");
            let store = Arc::new(MemoryStore::new());
            let astore = Arc::new(SyncToAsyncStorageAdapter::new(store.clone(), TokioSpawnBlocking));
            let cfg = ZarrAsyncConfig::new(rt.handle().clone(), astore)
                .with_chunk_size(cs)
                .store_warmup(sw);
            let rs: Arc<dyn ReadableListableStorageTraits> = store.clone();
            let out = drive(case, settings, cfg, &mut |_, schema| read_zarr(&rs, schema));
            rt.shutdown_timeout(Duration::from_secs(2));
            out
        }
        other => json!({"id": case["id"], "error": format!("unknown backend {other}")}),
    }
}

macro_rules! common_nuts {
    ($s:expr, $case:expr) => {{
        let c = $case;
        $s.num_tune = ju(c, "num_tune", 5);
        $s.num_draws = ju(c, "num_draws", 5);
        $s.num_chains = ju(c, "num_chains", 1) as usize;
        $s.seed = ju(c, "seed", 1);
        $s.maxdepth = ju(c, "maxdepth", 3);
        $s.store_gradient = jb(c, "store_gradient", $s.store_gradient);
        $s.store_unconstrained = jb(c, "store_unconstrained", $s.store_unconstrained);
        $s.store_transformed = jb(c, "store_transformed", $s.store_transformed);
        $s.store_divergences = jb(c, "store_divergences", $s.store_divergences);
        $s.max_energy_error = jf(c, "max_energy_error", $s.max_energy_error);
    }};
}
macro_rules! common_mclmc {
    ($s:expr, $case:expr) => {{
        let c = $case;
        $s.num_tune = ju(c, "num_tune", 5);
        $s.num_draws = ju(c, "num_draws", 5);
        $s.num_chains = ju(c, "num_chains", 1) as usize;
        $s.seed = ju(c, "seed", 1);
        $s.step_size = jf(c, "fixed_step", 0.25);
        $s.store_gradient = jb(c, "store_gradient", $s.store_gradient);
        $s.store_unconstrained = jb(c, "store_unconstrained", $s.store_unconstrained);
        $s.store_transformed = jb(c, "store_transformed", $s.store_transformed);
        $s.store_divergences = jb(c, "store_divergences", $s.store_divergences);
        $s.max_energy_error = jf(c, "max_energy_error", $s.max_energy_error);
    }};
}

fn run_case(case: &J) -> J {
    let preset = js(case, "preset", "diag_nuts");
    match preset {
        "diag_nuts" => {
            let mut s = DiagNutsSettings::default();
            common_nuts!(s, case);
            s.adapt_options.mass_matrix_options.store_mass_matrix = jb(case, "store_mass_matrix", false);
            run_backend(case, s)
        }
        "lowrank_nuts" => {
            let mut s = LowRankNutsSettings::default();
            common_nuts!(s, case);
            s.adapt_options.mass_matrix_options.store_mass_matrix = jb(case, "store_mass_matrix", false);
            run_backend(case, s)
        }
        "flow_nuts" => {
            let mut s = FlowNutsSettings::default();
            common_nuts!(s, case);
            run_backend(case, s)
        }
        "diag_mclmc" => {
            let mut s = DiagMclmcSettings::default();
            common_mclmc!(s, case);
            s.adapt_options.mass_matrix_options.store_mass_matrix = jb(case, "store_mass_matrix", false);
            run_backend(case, s)
        }
        "lowrank_mclmc" => {
            let mut s = LowRankMclmcSettings::default();
            common_mclmc!(s, case);
            s.adapt_options.mass_matrix_options.store_mass_matrix = jb(case, "store_mass_matrix", false);
            run_backend(case, s)
        }
        "flow_mclmc" => {
            let mut s = FlowMclmcSettings::default();
            common_mclmc!(s, case);
            s.adapt_options.step_size_settings.adapt_options.method =
                StepSizeAdaptMethod::Fixed(s.step_size);
            run_backend(case, s)
        }
        other => json!({"id": case["id"], "error": format!("unknown preset {other}")}),
    }
}

fn main() {
    for case in read_cases() {
        let out = match catch(|| run_case(&case)) {
            Ok(o) => o,
            Err(p) => json!({"id": case["id"], "harness_panic": p}),
        };
        println!("{}", out);
    }
    let _: HashMap<u8, u8> = HashMap::new();
}
