//! Open-loop driving of the step-size adaptation recurrences (DualAverage, Adam) with synthetic
//! acceptance sequences.  Prints the state after every advance as bit patterns together with the
//! libm values the binary64 model takes as inputs.  Used by C07.

use nuts_rs::verif::{Adam, DualAverage, DualAverageOptions};
use nuts_rs::AdamOptions;
use serde_json::{Value as J, json};
use verif_harness::*;

fn b(x: f64) -> String {
    x.to_bits().to_string()
}
fn fb(v: &J) -> f64 {
    match v {
        J::String(s) => f64::from_bits(s.parse::<u64>().unwrap()),
        o => o.as_f64().unwrap(),
    }
}

fn run_case(case: &J) -> J {
    let accs: Vec<f64> = case["accs"].as_array().unwrap().iter().map(fb).collect();
    let target = fb(&case["target"]);
    let initial = fb(&case["initial"]);
    if js(case, "method", "dual") == "dual" {
        let opts = DualAverageOptions {
            k: fb(&case["k"]),
            t0: fb(&case["t0"]),
            gamma: fb(&case["gamma"]),
            max_step_size: fb(&case["max_step"]),
        };
        let mut da = DualAverage::new(opts, initial);
        let (s0, c0) = da.verif_state();
        let mut rows = vec![];
        for a in &accs {
            let (_, count) = da.verif_state();
            let mk = (count as f64).powf(-opts.k);
            da.advance(*a, target);
            let (s, c) = da.verif_state();
            rows.push(json!({"state": s.iter().map(|x| b(*x)).collect::<Vec<_>>(), "count": c, "mk": b(mk),
                             "step": b(da.current_step_size()), "step_adapted": b(da.current_step_size_adapted())}));
        }
        json!({"id": case["id"], "init": s0.iter().map(|x| b(*x)).collect::<Vec<_>>(), "init_count": c0,
               "ln_max": b(opts.max_step_size.ln()), "ln_init": b(initial.ln()), "ln_10init": b((10.0 * initial).ln()),
               "rows": rows})
    } else {
        let opts = AdamOptions {
            beta1: fb(&case["beta1"]),
            beta2: fb(&case["beta2"]),
            epsilon: fb(&case["eps"]),
            learning_rate: fb(&case["lr"]),
        };
        let mut ad = Adam::new(opts, initial);
        let (s0, c0) = ad.verif_state();
        let mut rows = vec![];
        for a in &accs {
            let (_, t) = ad.verif_state();
            let t1 = t + 1;
            let b1t = opts.beta1.powi(t1 as i32);
            let b2t = opts.beta2.powi(t1 as i32);
            ad.advance(*a, target);
            let (s, c) = ad.verif_state();
            rows.push(json!({"state": s.iter().map(|x| b(*x)).collect::<Vec<_>>(), "count": c, "b1t": b(b1t), "b2t": b(b2t),
                             "step": b(ad.current_step_size())}));
        }
        json!({"id": case["id"], "init": s0.iter().map(|x| b(*x)).collect::<Vec<_>>(), "init_count": c0,
               "ln_init": b(initial.ln()), "rows": rows})
    }
}

fn main() {
    for case in read_cases() {
        let o = match catch(|| run_case(&case)) {
            Ok(o) => o,
            Err(p) => json!({"id": case["id"], "panic": p}),
        };
        println!("{}", o);
    }
}
