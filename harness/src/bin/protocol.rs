//! Drives the parallel `Sampler` with a user script under seeded schedule perturbation and logs
//! the schedule-point events.  Used by C10, C11, C12, C13.
//!
//! One process handles ONE case (the event log and the schedule configuration are process-wide
//! statics in nuts_rs::verif::sched): the python side starts one process per case.

use std::collections::HashMap;
use std::sync::mpsc;
use std::time::{Duration, Instant};

use nuts_rs::verif::sched;
use nuts_rs::{
    DiagMclmcSettings, DiagNutsSettings, HashMapConfig, HashMapValue, LowRankNutsSettings, Sampler,
    SamplerWaitResult, Settings,
};
use serde_json::{Value as J, json};
use verif_harness::model::{ChainFaults, TestModel};
use verif_harness::*;

type Trace = Vec<nuts_rs::verif::HashMapResult>;

fn hm_bits(v: &HashMapValue) -> Vec<String> {
    match v {
        HashMapValue::F64(x) => x.iter().map(|y| y.to_bits().to_string()).collect(),
        HashMapValue::F32(x) => x.iter().map(|y| y.to_bits().to_string()).collect(),
        HashMapValue::Bool(x) => x.iter().map(|y| (*y as u8).to_string()).collect(),
        HashMapValue::I64(x) => x.iter().map(|y| y.to_string()).collect(),
        HashMapValue::U64(x) => x.iter().map(|y| y.to_string()).collect(),
        HashMapValue::String(x) => x.clone(),
    }
}

fn trace_json(t: &Trace, full: bool) -> J {
    J::Array(
        t.iter()
            .map(|c| {
                let n = match c.stats.get("energy") {
                    Some(HashMapValue::F64(v)) => v.len(),
                    _ => 0,
                };
                let mut o = json!({"len": n});
                let mut keys: Vec<&String> = c.stats.keys().collect();
                keys.sort();
                if full {
                    let mut m = serde_json::Map::new();
                    for k in keys {
                        m.insert(k.clone(), json!(hm_bits(&c.stats[k])));
                    }
                    let mut dk: Vec<&String> = c.draws.keys().collect();
                    dk.sort();
                    for k in dk {
                        m.insert(format!("draw:{k}"), json!(hm_bits(&c.draws[k])));
                    }
                    o["data"] = J::Object(m);
                } else {
                    o["energy"] = json!(c.stats.get("energy").map(hm_bits));
                    o["diverging"] = json!(c.stats.get("diverging").map(hm_bits));
                    o["n_steps"] = json!(c.stats.get("n_steps").map(hm_bits));
                    o["tuning"] = json!(c.stats.get("tuning").map(hm_bits));
                }
                o
            })
            .collect(),
    )
}

fn faults_of(case: &J) -> ChainFaults {
    let mut f = ChainFaults::default();
    if let Some(arr) = case.get("logp_faults").and_then(|x| x.as_array()) {
        for e in arr {
            let chain = e[0].as_u64().unwrap();
            let k = e[1].as_u64().unwrap();
            let kind = Fault::parse(e[2].as_str().unwrap()).unwrap();
            f.logp.entry(chain).or_default().insert(k, kind);
        }
    }
    let list = |k: &str| -> Vec<u64> {
        case.get(k)
            .and_then(|x| x.as_array())
            .map(|a| a.iter().map(|y| y.as_u64().unwrap()).collect())
            .unwrap_or_default()
    };
    f.math_fails = list("math_fails");
    f.init_fails = list("init_fails");
    f.all_init_bad = list("all_init_bad");
    f.random_init = jb(case, "random_init", false);
    f.random_math = jb(case, "random_math", false);
    if let Some(arr) = case.get("expand_fails").and_then(|x| x.as_array()) {
        for e in arr {
            f.expand_fails.insert(e[0].as_u64().unwrap(), e[1].as_u64().unwrap());
        }
    }
    if let Some(arr) = case.get("sleep_us").and_then(|x| x.as_array()) {
        for e in arr {
            f.sleep_us.insert(e[0].as_u64().unwrap(), e[1].as_u64().unwrap());
        }
    }
    f
}

fn leak_str(s: &str) -> &'static str {
    Box::leak(s.to_string().into_boxed_str())
}

/// run a closure on a helper thread; None if it does not return within the watchdog time
fn watchdog<T: Send + 'static>(f: impl FnOnce() -> T + Send + 'static, secs: u64) -> Option<T> {
    let (tx, rx) = mpsc::channel();
    std::thread::spawn(move || {
        let r = f();
        let _ = tx.send(r);
    });
    rx.recv_timeout(Duration::from_secs(secs)).ok()
}

fn progress_json(p: &[nuts_rs::ChainProgress]) -> J {
    J::Array(
        p.iter()
            .map(|c| {
                json!({"finished": c.finished_draws, "total": c.total_draws, "divergences": c.divergences,
                       "tuning": c.tuning, "started": c.started, "total_steps": c.total_num_steps,
                       "divergent_draws": c.divergent_draws})
            })
            .collect(),
    )
}

/// Chain i run alone, following the documented recipe of the parallel sampler through the public
/// API only: ChaCha8(seed) on stream i + 1 -> Model::math -> Settings::new_chain -> init_position /
/// set_position (retried) -> draws.  Returns energy bits, n_steps and diverging per draw.
fn run_alone<S: Settings>(case: &J, settings: &S, chain: u64) -> J {
    use nuts_rs::rand::{SeedableRng, rngs::ChaCha8Rng};
    use nuts_rs::{Chain, Model};
    use nuts_storable::Storable;
    let dim = ju(case, "dim", 2) as usize;
    let model = TestModel::new(TestLogp::std_normal(dim), faults_of(case), settings.seed(), settings.num_chains() as u64);
    // the model numbers its densities in creation order (0 = controller): make this one chain `chain`
    *model.created.lock().unwrap() = chain + 1;
    let mut rng = ChaCha8Rng::seed_from_u64(settings.seed());
    rng.set_stream(chain + 1);
    let logp = match model.math(&mut rng) {
        Ok(l) => l,
        Err(e) => return json!({"error": format!("{e:?}")}),
    };
    let mut sampler = settings.new_chain(chain, logp, &mut rng);
    let mut initval = vec![0f64; dim];
    let mut ok = false;
    for _ in 0..500 {
        if model.init_position(&mut rng, &mut initval).is_err() {
            return json!({"error": "init_position"});
        }
        if sampler.set_position(&initval).is_ok() {
            ok = true;
            break;
        }
    }
    if !ok {
        return json!({"error": "all initialisation points failed"});
    }
    let total = settings.hint_num_tune() + settings.hint_num_draws();
    let (mut energy, mut n_steps, mut diverging) = (vec![], vec![], vec![]);
    for _ in 0..total {
        match sampler.expanded_draw() {
            Err(e) => return json!({"error": format!("{e:?}"), "energy": energy}),
            Ok((_pos, _exp, mut stats, progress)) => {
                let math = sampler.math();
                let dims = nuts_rs::verif::StatsDims::from(&*math);
                let all = stats.get_all(&dims);
                energy.push(stat_f64(&all, "energy").map(|x| x.to_bits().to_string()));
                n_steps.push(progress.num_steps.to_string());
                diverging.push(if progress.diverging { "1" } else { "0" });
            }
        }
    }
    json!({"energy": energy, "n_steps": n_steps, "diverging": diverging})
}

fn run_script<S: Settings>(case: &J, settings: S) -> J {
    let dim = ju(case, "dim", 2) as usize;
    let nchains = settings.num_chains() as u64;
    let alone: Vec<J> = if jb(case, "alone", false) {
        (0..nchains).map(|i| match catch(|| run_alone(case, &settings, i)) {
            Ok(j) => j,
            Err(p) => json!({"error": format!("panic: {p}")}),
        }).collect()
    } else {
        vec![]
    };
    let model = TestModel::new(TestLogp::std_normal(dim), faults_of(case), settings.seed(), nchains);
    let logs = model.logs.clone();
    let cores = ju(case, "num_cores", 2) as usize;
    let full = jb(case, "full_trace", false);
    sched::configure(ju(case, "sched_seed", 0), ju(case, "max_sleep_us", 200));
    let script: Vec<J> = case["script"].as_array().cloned().unwrap_or_default();
    let wd = ju(case, "watchdog_s", 20);
    let mut steps_out: Vec<J> = vec![];
    let mut outcome = json!({"kind": "none"});
    let sopts = verif_harness::slowstore::SlowOpts {
        record_sleep_us: ju(case, "record_sleep_us", 0),
        record_fail: case.get("record_fail").and_then(|x| x.as_array()).map(|a| (a[0].as_u64().unwrap(), a[1].as_u64().unwrap())),
        finalize_fail: case.get("finalize_fail").and_then(|x| x.as_u64()),
    };
    let storage = verif_harness::slowstore::SlowConfig { inner: HashMapConfig::new(), opts: sopts };
    let sampler = match catch(|| Sampler::new(model, settings, storage, cores, None)) {
        Err(p) => return json!({"id": case["id"], "new": format!("panic: {p}")}),
        Ok(Err(e)) => return json!({"id": case["id"], "new": format!("err: {e:?}")}),
        Ok(Ok(s)) => s,
    };
    let mut sampler = Some(sampler);
    let mut hang = false;
    for op in script {
        let name = op[0].as_str().unwrap_or("").to_string();
        if sampler.is_none() && !["sleep_ms", "release", "wait_parked"].contains(&name.as_str()) {
            steps_out.push(json!({"op": name, "skipped": "sampler consumed"}));
            continue;
        }
        match name.as_str() {
            "sleep_ms" => std::thread::sleep(Duration::from_millis(op[1].as_u64().unwrap())),
            "park" => sched::park_at(leak_str(op[1].as_str().unwrap()), op[2].as_u64().unwrap(), op[3].as_u64().unwrap()),
            "wait_parked" => {
                let t0 = Instant::now();
                while !sched::is_parked() && t0.elapsed() < Duration::from_secs(5) {
                    std::thread::sleep(Duration::from_micros(200));
                }
                steps_out.push(json!({"op": "wait_parked", "parked": sched::is_parked()}));
            }
            "release" => sched::release(),
            "pause" | "resume" | "progress" | "flush" | "inspect" => {
                let mut s = sampler.take().unwrap();
                let nm = name.clone();
                sched::point("user", leak_str(&format!("call_{nm}")), 0, 0);
                let r = watchdog(
                    move || {
                        let res = catch(|| match nm.as_str() {
                            "pause" => s.pause().map(|_| J::Null).map_err(|e| format!("{e:?}")),
                            "resume" => s.resume().map(|_| J::Null).map_err(|e| format!("{e:?}")),
                            "flush" => s.flush().map(|_| J::Null).map_err(|e| format!("{e:?}")),
                            "progress" => s.progress().map(|p| progress_json(&p)).map_err(|e| format!("{e:?}")),
                            _ => s
                                .inspect()
                                .map(|(e, t)| json!({"error": e.map(|x| format!("{x:?}")), "trace": trace_json(&t, false)}))
                                .map_err(|e| format!("{e:?}")),
                        });
                        (s, res)
                    },
                    wd,
                );
                match r {
                    None => {
                        steps_out.push(json!({"op": name, "hang": true}));
                        hang = true;
                        break;
                    }
                    Some((s, res)) => {
                        let code = match &res {
                            Ok(Ok(_)) => 1,
                            Ok(Err(_)) => 0,
                            Err(_) => 2,
                        };
                        sched::point("user", leak_str(&format!("ret_{name}")), 0, code);
                        steps_out.push(match res {
                            Ok(Ok(v)) => json!({"op": name, "ok": v}),
                            Ok(Err(e)) => json!({"op": name, "err": e}),
                            Err(p) => json!({"op": name, "panic": p}),
                        });
                        sampler = Some(s);
                    }
                }
            }
            "wait_ms" | "wait_until_done" => {
                let per = if name == "wait_ms" { op[1].as_u64().unwrap() } else { 50 };
                let deadline = Instant::now() + Duration::from_secs(wd);
                loop {
                    let s = sampler.take().unwrap();
                    sched::point("user", "call_wait", 0, 0);
                    let r = watchdog(
                        move || catch(move || s.wait_timeout(Duration::from_millis(per))),
                        wd,
                    );
                    match r {
                        None => {
                            steps_out.push(json!({"op": name, "hang": true}));
                            hang = true;
                            break;
                        }
                        Some(Err(p)) => {
                            sched::point("user", "ret_wait", 0, 9);
                            outcome = json!({"kind": "panic", "msg": p});
                            break;
                        }
                        Some(Ok(SamplerWaitResult::Trace(t))) => {
                            sched::point("user", "ret_wait", 0, 1);
                            outcome = json!({"kind": "trace", "trace": trace_json(&t, full)});
                            break;
                        }
                        Some(Ok(SamplerWaitResult::Err(e, t))) => {
                            sched::point("user", "ret_wait", 0, 2);
                            outcome = json!({"kind": "err", "msg": format!("{e:?}").chars().take(300).collect::<String>(),
                                             "trace": t.map(|t| trace_json(&t, full))});
                            break;
                        }
                        Some(Ok(SamplerWaitResult::Timeout(s))) => {
                            sched::point("user", "ret_wait", 0, 0);
                            sampler = Some(s);
                            if name == "wait_ms" {
                                steps_out.push(json!({"op": name, "timeout": true}));
                                break;
                            }
                            if Instant::now() > deadline {
                                steps_out.push(json!({"op": name, "hang": true}));
                                hang = true;
                                break;
                            }
                        }
                    }
                }
                if hang {
                    break;
                }
            }
            "abort" => {
                let s = sampler.take().unwrap();
                sched::point("user", "call_abort", 0, 0);
                let r = watchdog(move || catch(move || s.abort()), wd);
                match r {
                    None => {
                        steps_out.push(json!({"op": "abort", "hang": true}));
                        hang = true;
                        break;
                    }
                    Some(Err(p)) => {
                        sched::point("user", "ret_abort", 0, 9);
                        outcome = json!({"kind": "panic", "msg": p});
                    }
                    Some(Ok(Ok((e, t)))) => {
                        sched::point("user", "ret_abort", 0, if e.is_some() { 3 } else { 1 });
                        outcome = json!({"kind": "aborted", "error": e.map(|x| format!("{x:?}").chars().take(300).collect::<String>()),
                                         "trace": trace_json(&t, full)});
                    }
                    Some(Ok(Err(e))) => {
                        sched::point("user", "ret_abort", 0, 2);
                        outcome = json!({"kind": "abort_err", "msg": format!("{e:?}").chars().take(300).collect::<String>()});
                    }
                }
            }
            other => steps_out.push(json!({"op": other, "unknown": true})),
        }
    }
    sched::release();
    if let Some(s) = sampler.take() {
        if !hang {
            // leftover sampler: abort it so that the process can exit cleanly
            let _ = watchdog(move || catch(move || s.abort()), 5);
        }
    }
    let events: Vec<J> = sched::take_log()
        .iter()
        .map(|e| json!([e.thread, e.point, e.chain, if e.arg == u64::MAX { -1i64 } else { e.arg as i64 }]))
        .collect();
    let fatal_hits: Vec<J> = logs
        .lock()
        .unwrap()
        .iter()
        .map(|(c, l)| json!([c, l.lock().unwrap().fatal_hits]))
        .collect();
    json!({"id": case["id"], "new": "ok", "steps": steps_out, "outcome": outcome, "hang": hang, "events": events,
           "fatal_hits": fatal_hits, "alone": alone,
           "storage_fail_hits": verif_harness::slowstore::FAIL_HITS.load(std::sync::atomic::Ordering::SeqCst)})
}

fn main() {
    let cases = read_cases();
    let case = &cases[0];
    let preset = js(case, "preset", "diag_nuts");
    let out = match preset {
        "lowrank_nuts" => {
            let mut s = LowRankNutsSettings::default();
            s.num_tune = ju(case, "num_tune", 5);
            s.num_draws = ju(case, "num_draws", 5);
            s.num_chains = ju(case, "num_chains", 2) as usize;
            s.seed = ju(case, "seed", 1);
            s.maxdepth = ju(case, "maxdepth", 3);
            run_script(case, s)
        }
        "flow_mclmc" => {
            let mut s = nuts_rs::FlowMclmcSettings::default();
            s.num_tune = ju(case, "num_tune", 5);
            s.num_draws = ju(case, "num_draws", 5);
            s.num_chains = ju(case, "num_chains", 2) as usize;
            s.seed = ju(case, "seed", 1);
            s.step_size = 0.25;
            s.adapt_options.step_size_settings.adapt_options.method = nuts_rs::StepSizeAdaptMethod::Fixed(0.25);
            run_script(case, s)
        }
        "flow_nuts" => {
            let mut s = nuts_rs::FlowNutsSettings::default();
            s.num_tune = ju(case, "num_tune", 5);
            s.num_draws = ju(case, "num_draws", 5);
            s.num_chains = ju(case, "num_chains", 2) as usize;
            s.seed = ju(case, "seed", 1);
            s.maxdepth = ju(case, "maxdepth", 3);
            run_script(case, s)
        }
        "lowrank_mclmc" => {
            let mut s = nuts_rs::LowRankMclmcSettings::default();
            s.num_tune = ju(case, "num_tune", 5);
            s.num_draws = ju(case, "num_draws", 5);
            s.num_chains = ju(case, "num_chains", 2) as usize;
            s.seed = ju(case, "seed", 1);
            run_script(case, s)
        }
        "diag_mclmc" => {
            let mut s = DiagMclmcSettings::default();
            s.num_tune = ju(case, "num_tune", 5);
            s.num_draws = ju(case, "num_draws", 5);
            s.num_chains = ju(case, "num_chains", 2) as usize;
            s.seed = ju(case, "seed", 1);
            run_script(case, s)
        }
        _ => {
            let mut s = DiagNutsSettings::default();
            s.num_tune = ju(case, "num_tune", 5);
            s.num_draws = ju(case, "num_draws", 5);
            s.num_chains = ju(case, "num_chains", 2) as usize;
            s.seed = ju(case, "seed", 1);
            s.maxdepth = ju(case, "maxdepth", 3);
            run_script(case, s)
        }
    };
    println!("{}", out);
    let _: HashMap<u8, u8> = HashMap::new();
    // threads of a hung sampler may still be alive: exit hard
    std::process::exit(0);
}
