//! Runs the crate-private `nuts::draw` on a scripted orbit: scripted momentum, scripted random
//! words, scripted density faults; logs every leapfrog the tree builder performs.
//! Used by C01, C03, C05.

use nuts_rs::verif::{
    Collector, DiagMassMatrix, Direction, Hamiltonian, LeapfrogResult, LowRankMassMatrix, NutsOptions, Point,
    SampleInfo,
    State, TransformedHamiltonian, TransformedPoint, nuts_draw,
};
use nuts_rs::{DivergenceInfo, KineticEnergyKind, LowRankSettings, Math};
use serde_json::{Value as J, json};
use verif_harness::rngs::{Call, DirRng, ScriptRng};
use verif_harness::wrapmath::WrapMath;
use verif_harness::*;

type WM = WrapMath<TestLogp>;

fn bits(x: f64) -> String {
    x.to_bits().to_string()
}
fn vbits(v: &[f64]) -> Vec<String> {
    v.iter().map(|x| bits(*x)).collect()
}

#[derive(Default)]
struct LogCollector {
    init: Option<J>,
    leapfrogs: Vec<J>,
    draw: Option<J>,
    /// mirror mode (C01): handles of the start (first entry) and of every leapfrog end, in order
    keep_states: bool,
    states: Vec<State<WM, TransformedPoint<WM>>>,
}

fn point_json(math: &mut WM, s: &State<WM, TransformedPoint<WM>>) -> J {
    let d = s.point().verif_data(math);
    json!({
        "idx": d.index_in_trajectory,
        "q": vbits(&d.transformed_position),
        "v": vbits(&d.velocity),
        "x": vbits(&d.untransformed_position),
        "g": vbits(&d.untransformed_gradient),
        "tg": vbits(&d.transformed_gradient),
        "logp": bits(d.logp),
        "logdet": bits(d.logdet),
        "kinetic": bits(d.kinetic_energy),
        "energy": bits(s.point().energy()),
        "energy_error": bits(s.point().energy_error()),
        "initial_energy": bits(d.initial_energy),
        "transform_id": d.transform_id,
    })
}

impl Collector<WM, TransformedPoint<WM>> for LogCollector {
    fn register_leapfrog(
        &mut self,
        math: &mut WM,
        start: &State<WM, TransformedPoint<WM>>,
        end: &State<WM, TransformedPoint<WM>>,
        divergence_info: Option<&DivergenceInfo>,
    ) {
        let mut j = point_json(math, end);
        j["start_idx"] = json!(start.index_in_trajectory());
        j["diverged"] = json!(divergence_info.is_some());
        j["div_logp_error"] = json!(divergence_info.map(|d| d.logp_function_error.is_some()).unwrap_or(false));
        j["div_energy_error"] = json!(divergence_info.and_then(|d| d.energy_error).map(bits));
        self.leapfrogs.push(j);
        if self.keep_states {
            self.states.push(end.clone());
        }
    }
    fn register_draw(&mut self, math: &mut WM, state: &State<WM, TransformedPoint<WM>>, info: &SampleInfo) {
        let mut j = point_json(math, state);
        j["depth"] = json!(info.depth);
        self.draw = Some(j);
    }
    fn register_init(&mut self, math: &mut WM, state: &State<WM, TransformedPoint<WM>>, _o: &NutsOptions) {
        self.init = Some(point_json(math, state));
        if self.keep_states {
            self.states.push(state.clone());
        }
    }
}

/// Collector of one mirror rebuild: shape of the tree (indices relative to its start) and the
/// largest deviation of the states it integrates from the states of the original orbit.
struct MirrorCollector<'a> {
    /// index of the rebuild's start on the original orbit
    s: i64,
    /// original orbit: index -> (transformed position, velocity)
    orbit: &'a std::collections::HashMap<i64, (Vec<f64>, Vec<f64>)>,
    min: i64,
    max: i64,
    steps: u64,
    diverged: u64,
    outside: u64,
    dq: f64,
    dv: f64,
}

impl<'a> Collector<WM, TransformedPoint<WM>> for MirrorCollector<'a> {
    fn register_leapfrog(
        &mut self,
        math: &mut WM,
        _start: &State<WM, TransformedPoint<WM>>,
        end: &State<WM, TransformedPoint<WM>>,
        divergence_info: Option<&DivergenceInfo>,
    ) {
        self.steps += 1;
        if divergence_info.is_some() {
            self.diverged += 1;
            return;
        }
        let i = end.index_in_trajectory();
        self.min = self.min.min(i);
        self.max = self.max.max(i);
        match self.orbit.get(&(self.s + i)) {
            None => self.outside += 1,
            Some((q, v)) => {
                let d = end.point().verif_data(math);
                for (a, b) in d.transformed_position.iter().zip(q.iter()) {
                    let e = (a - b).abs();
                    if !(e <= self.dq) {
                        self.dq = e;
                    }
                }
                for (a, b) in d.velocity.iter().zip(v.iter()) {
                    let e = (a - b).abs();
                    if !(e <= self.dv) {
                        self.dv = e;
                    }
                }
            }
        }
    }
}

/// C01 mirror rebuild.  `states` = start and leapfrog ends of a draw that ended, without a
/// divergence, with a tree of depth `depth >= 1`: the accepted tree consists of the start and the
/// first 2^depth - 1 leapfrog ends and occupies the index interval [lo, hi].  For chosen states s of
/// it, `nuts::draw` is run again from a copy of state s (same position, gradient, velocity) with
/// maxdepth = depth and with the doubling directions mirrored: doubling j goes forward iff the
/// block of size 2^j (aligned from lo) that contains s is the left half of its parent block.
fn mirror_rebuilds<H: Hamiltonian<WM, Point = TransformedPoint<WM>>>(
    math: &mut WM,
    ham: &mut H,
    opts: &NutsOptions,
    states: &[State<WM, TransformedPoint<WM>>],
    depth: u64,
    seed: u64,
) -> J {
    let n = 1usize << depth;
    if states.len() < n {
        return json!({"skipped": "fewer states than 2^depth"});
    }
    let acc = &states[..n];
    let mut orbit = std::collections::HashMap::new();
    let (mut lo, mut hi) = (0i64, 0i64);
    for st in acc {
        let d = st.point().verif_data(math);
        lo = lo.min(d.index_in_trajectory);
        hi = hi.max(d.index_in_trajectory);
        orbit.insert(d.index_in_trajectory, (d.transformed_position, d.velocity));
    }
    if hi - lo + 1 != n as i64 || orbit.len() != n {
        return json!({"skipped": "accepted states are not an interval of 2^depth indices"});
    }
    // which states to rebuild from: all of a small tree, else a seeded sample with both ends and the start
    let mut sm = SplitMix(seed ^ 0x6d69_7272_6f72);
    let mut chosen: Vec<i64> = if n <= 16 {
        (lo..=hi).collect()
    } else {
        let mut c = vec![lo, hi, 0];
        while c.len() < 10 {
            let s = lo + sm.below(n as u64) as i64;
            if !c.contains(&s) {
                c.push(s);
            }
        }
        c
    };
    chosen.sort();
    chosen.dedup();
    let mut out = vec![];
    for s in chosen {
        let src = acc.iter().find(|st| st.index_in_trajectory() == s).unwrap();
        let vel = src.point().verif_data(math).velocity;
        let dirs: Vec<bool> = (0..depth).map(|j| (((s - lo) >> j) & 1) == 0).collect();
        let mut start = ham.copy_state(math, src);
        math.gauss_script.clear();
        math.gauss_script.push_back(vel);
        let mut rng = DirRng::new(dirs.clone(), sm.next());
        let mut coll = MirrorCollector { s, orbit: &orbit, min: 0, max: 0, steps: 0, diverged: 0, outside: 0, dq: 0.0, dv: 0.0 };
        let o2 = NutsOptions { maxdepth: depth, ..opts.clone() };
        let res = catch(|| nuts_draw(math, &mut start, &mut rng, ham, &o2, &mut coll));
        math.gauss_script.clear();
        let mut j = json!({
            "s": s, "dirs": dirs, "min": coll.min, "max": coll.max, "steps": coll.steps,
            "diverged_steps": coll.diverged, "outside": coll.outside, "dq": coll.dq, "dv": coll.dv,
            "dir_words": rng.pos, "coin_words": rng.n_u64,
        });
        match res {
            Err(p) => j["panic"] = json!(p),
            Ok(Err(e)) => j["err"] = json!(format!("{e:?}")),
            Ok(Ok((_, info))) => {
                j["depth"] = json!(info.depth);
                j["reached_maxdepth"] = json!(info.reached_maxdepth);
                j["diverging"] = json!(info.divergence_info.is_some());
            }
        }
        out.push(j);
    }
    json!({"lo": lo, "hi": hi, "rebuilds": out})
}

fn parse_u64s(v: &J, k: &str) -> Vec<u64> {
    v.get(k)
        .and_then(|x| x.as_array())
        .map(|a| {
            a.iter()
                .map(|y| match y {
                    J::String(s) => s.parse::<u64>().unwrap(),
                    other => other.as_u64().unwrap(),
                })
                .collect()
        })
        .unwrap_or_default()
}

fn options(case: &J) -> NutsOptions {
    NutsOptions {
        maxdepth: ju(case, "maxdepth", 4),
        mindepth: ju(case, "mindepth", 0),
        check_turning: jb(case, "check_turning", true),
        store_divergences: false,
        target_integration_time: case.get("target_integration_time").and_then(|x| x.as_f64()),
        extra_doublings: ju(case, "extra_doublings", 0),
        max_energy_error: jf(case, "max_energy_error", 1000.0),
    }
}

fn build_logp(case: &J) -> TestLogp {
    let dim = ju(case, "dim", 2) as usize;
    let mut prec = jvf(case, "prec");
    if prec.len() != dim {
        prec = vec![1.0; dim];
    }
    let mut mu = jvf(case, "mu");
    if mu.len() != dim {
        mu = vec![0.0; dim];
    }
    let mut l = TestLogp::gaussian(prec, mu);
    l.quartic = jf(case, "quartic", 0.0);
    let dp = jvf(case, "dense_prec");
    if dp.len() == dim * dim && dim > 0 {
        l.dense_prec = Some(dp);
    }
    if let Some(fs) = case.get("faults").and_then(|x| x.as_array()) {
        for f in fs {
            l.faults
                .insert(f[0].as_u64().unwrap(), Fault::parse(f[1].as_str().unwrap()).unwrap());
        }
    }
    l.log.lock().unwrap().keep = true;
    // scripted faults are a function of the point: with extra doublings the tree builder integrates
    // onto the same point twice, and the model's fault predicate is a function of the index
    l.consistent_faults = jb(case, "consistent_faults", true);
    l
}

fn kind_of(case: &J) -> KineticEnergyKind {
    match js(case, "kind", "euclidean") {
        "exact_normal" => KineticEnergyKind::ExactNormal,
        "microcanonical" => KineticEnergyKind::Microcanonical,
        _ => KineticEnergyKind::Euclidean,
    }
}

/// replacing the transformation between two draws (as the adaptation does during warmup)
trait Retransform {
    fn retransform(&mut self, math: &mut WM, stds: &[f64], mean: &[f64], rt: &J);
    /// what the transformation reports about itself: diagonal scales, square roots of the retained
    /// eigenvalues (if a low-rank part is in force), log-determinant, id
    fn params(&self, math: &mut WM) -> J;
}
impl Retransform for TransformedHamiltonian<WM, DiagMassMatrix<WM>> {
    fn retransform(&mut self, math: &mut WM, stds: &[f64], mean: &[f64], _rt: &J) {
        self.transformation_mut().verif_set_transform(math, stds, mean);
    }
    fn params(&self, math: &mut WM) -> J {
        let (stds, inv, mean, logdet, id) = self.transformation().verif_params(math);
        json!({"stds": vbits(&stds), "inv_stds": vbits(&inv), "mean": vbits(&mean), "logdet": bits(logdet), "id": id, "sqrt_eigs": J::Null})
    }
}
impl Retransform for TransformedHamiltonian<WM, LowRankMassMatrix<WM>> {
    /// a full low-rank update (LowRankMassMatrix::update); spectral data may be non-finite, in
    /// which case the update has to be rejected as a whole
    fn retransform(&mut self, math: &mut WM, stds: &[f64], mean: &[f64], rt: &J) {
        if jb(rt, "regrad", false) {
            // re-initialisation from a single gradient, as Chain::set_position does on a chain
            // that has already adapted: diagonal scales from the gradient, no low-rank part
            let mut pos = math.new_array();
            math.read_from_slice(&mut pos, mean);
            let mut grad = math.new_array();
            math.read_from_slice(&mut grad, stds);
            self.transformation_mut().update_from_grad(math, &pos, &grad, 1.0, (1e-20, 1e20));
            return;
        }
        let Some(lr) = rt.get("lowrank") else { return };
        // null = NaN, "inf" = +infinity
        let num = |x: &J| match x {
            J::String(s) if s == "inf" => f64::INFINITY,
            o => o.as_f64().unwrap_or(f64::NAN),
        };
        let vals: Vec<f64> = lr["vals"].as_array().unwrap().iter().map(num).collect();
        let vecs: Vec<Vec<f64>> = lr["vecs"]
            .as_array()
            .unwrap()
            .iter()
            .map(|c| c.as_array().unwrap().iter().map(num).collect())
            .collect();
        let mu = jvf(lr, "mu");
        self.transformation_mut().verif_update(math, stds, mean, &vals, &vecs, &mu);
    }
    fn params(&self, math: &mut WM) -> J {
        let ((stds, inv, mean, _dl, _di), inner, logdet, id) = self.transformation().verif_params(math);
        json!({"stds": vbits(&stds), "inv_stds": vbits(&inv), "mean": vbits(&mean), "logdet": bits(logdet), "id": id,
               "sqrt_eigs": inner.map(|(a, _b, _mu, _l)| vbits(&a))})
    }
}

fn run_with<H: Hamiltonian<WM, Point = TransformedPoint<WM>> + Retransform>(
    case: &J,
    mut math: WM,
    mut ham: H,
    log: std::sync::Arc<std::sync::Mutex<EvalLog>>,
) -> J {
    let dim = math.dim();
    *ham.step_size_mut() = jf(case, "step_size", 0.25);
    let mut init = jvf(case, "init");
    if init.len() != dim {
        init = vec![0.5; dim];
    }
    let mut state = match ham.init_state(&mut math, &init) {
        Ok(s) => s,
        Err(e) => return json!({"id": case["id"], "init_state": format!("err: {e:?}")}),
    };
    let evals_before = log.lock().unwrap().count;
    let mut mom = jvf(case, "momentum");
    if mom.len() != dim {
        mom = vec![1.0; dim];
    }
    let ndraws = ju(case, "ndraws", 1);
    let words = parse_u64s(case, "words");
    let mut rng = ScriptRng::new(words, ju(case, "seed", 1));
    let opts = options(case);
    let mut draws = vec![];
    if let Some(sc) = case.get("search") {
        // the initial step-size search (stepsize::Strategy::init) on this Hamiltonian, with the
        // scripted momentum; every density evaluation it makes is in the log
        use nuts_rs::{StepSizeAdaptMethod, StepSizeSettings};
        let mut st = StepSizeSettings::default();
        st.initial_step = jf(sc, "initial_step", 0.1);
        st.target_accept = jf(sc, "target", 0.8);
        st.adapt_options.method = if js(sc, "method", "dual") == "adam" { StepSizeAdaptMethod::Adam } else { StepSizeAdaptMethod::DualAverage };
        let mut strat = nuts_rs::verif::StepSizeStrategy::new(st);
        math.gauss_script.push_back(mom.clone());
        let mut opts = options(case);
        let e0 = log.lock().unwrap().count;
        let res = catch(|| strat.init(&mut math, &mut opts, &mut ham, &init, &mut rng));
        let evals: Vec<J> = log.lock().unwrap().evals[e0 as usize..]
            .iter()
            .map(|e| json!({"x": vbits(&e.position), "logp": bits(e.logp), "g": vbits(&e.gradient),
                            "fault": e.fault.map(|f| f.name())}))
            .collect();
        let ad = strat.verif_adapt_state().map(|(k, v, c)| json!({"kind": k, "v": v.iter().map(|x| bits(*x)).collect::<Vec<_>>(), "count": c}));
        return json!({"id": case["id"], "init_state": "ok", "draws": [], "search": {
            "result": match res { Ok(Ok(())) => "ok".to_string(), Ok(Err(e)) => format!("err: {e:?}"), Err(p) => format!("panic: {p}") },
            "step_after": bits(ham.step_size()), "adapt": ad, "evals": evals,
            "start": point_json(&mut math, &state)}});
    }
    if let Some(steps) = case.get("single_steps").and_then(|x| x.as_array()) {
        // direct calls of Hamiltonian::leapfrog with a chosen direction and step-size factor,
        // each continuing from the state the previous call returned
        math.gauss_script.push_back(mom.clone());
        if let Err(e) = ham.initialize_trajectory(&mut math, &mut state, true, &mut rng) {
            return json!({"id": case["id"], "init_state": format!("err: {e:?}")});
        }
        let mut coll = LogCollector::default();
        coll.init = Some(point_json(&mut math, &state));
        let base = state.point().initial_energy();
        let mut cur = state.clone();
        let mut factors = vec![];
        for st in steps {
            let dir = if st[0].as_i64().unwrap_or(1) >= 0 { Direction::Forward } else { Direction::Backward };
            let f = st[1].as_f64().unwrap_or(1.0);
            let res = catch(|| ham.leapfrog(&mut math, &cur, dir, f, base, jf(case, "max_energy_error", 1000.0), &mut coll));
            match res {
                Ok(LeapfrogResult::Ok(next)) => {
                    factors.push(f);
                    cur = next;
                }
                Ok(_) => {
                    factors.push(f);
                    break;
                }
                Err(p) => return json!({"id": case["id"], "init_state": "ok", "panic": p, "draws": []}),
            }
        }
        for (lf, f) in coll.leapfrogs.iter_mut().zip(factors.iter()) {
            lf["factor"] = json!(f);
        }
        let d = json!({"init": coll.init, "leapfrogs": coll.leapfrogs, "single_steps": true,
                       "final": point_json(&mut math, &cur)});
        return json!({"id": case["id"], "init_state": "ok", "draws": [d], "evals": [], "evals_before": evals_before});
    }
    let mirror = jb(case, "mirror", false)
        && opts.extra_doublings == 0
        && opts.check_turning
        && opts.target_integration_time.is_none()
        && opts.mindepth == 0;
    // optional: one scripted momentum per draw
    let momenta: Vec<Vec<f64>> = case
        .get("momenta")
        .and_then(|x| x.as_array())
        .map(|a| a.iter().map(|m| m.as_array().map(|v| v.iter().map(|y| y.as_f64().unwrap()).collect()).unwrap_or_default()).collect())
        .unwrap_or_default();
    for k in 0..ndraws {
        // momentum of draw k: rotate the scripted vector so that successive draws differ
        let mut m: Vec<f64> = (0..dim).map(|i| mom[(i + k as usize) % dim.max(1)]).collect();
        if !momenta.is_empty() && momenta[k as usize % momenta.len()].len() == dim {
            m = momenta[k as usize % momenta.len()].clone();
        }
        math.gauss_script.push_back(m);
        if k >= 1 {
            if let Some(rt) = case.get("retransform") {
                let (s2, m2) = (jvf(rt, "stds"), jvf(rt, "mean"));
                if s2.len() == dim && m2.len() == dim {
                    ham.retransform(&mut math, &s2, &m2, rt);
                }
            }
        }
        let mut coll = LogCollector::default();
        coll.keep_states = mirror;
        let calls_before = rng.calls.len();
        let evals_start = log.lock().unwrap().count;
        let res = catch(|| nuts_draw(&mut math, &mut state, &mut rng, &mut ham, &opts, &mut coll));
        let evals_end = log.lock().unwrap().count;
        // mirror rebuilds (C01) of a draw that ended without divergence at depth >= 1; the handles
        // kept by the collector are released before anything else looks at the returned state
        let mut mirror_out = None;
        let kept = std::mem::take(&mut coll.states);
        if mirror {
            if let Ok(Ok((_, info))) = &res {
                if info.divergence_info.is_none() && info.depth >= 1 && info.depth <= 12 {
                    let keep = std::mem::replace(&mut log.lock().unwrap().keep, false);
                    let depth = info.depth;
                    let seed = ju(case, "seed", 1).wrapping_add(k);
                    mirror_out = Some(match catch(|| mirror_rebuilds(&mut math, &mut ham, &opts, &kept, depth, seed)) {
                        Ok(j) => j,
                        Err(p) => json!({"panic": p}),
                    });
                    math.gauss_script.clear();
                    log.lock().unwrap().keep = keep;
                }
            }
        }
        drop(kept);
        let calls: Vec<J> = rng.calls[calls_before..]
            .iter()
            .map(|c| match c {
                Call::U32(w) => json!(["u32", w.to_string()]),
                Call::U64(w) => json!(["u64", w.to_string()]),
                Call::Bytes(n) => json!(["bytes", n]),
            })
            .collect();
        let params_now = ham.params(&mut math);
        let mut d = json!({
            "transform_params": params_now,
            "init": coll.init, "leapfrogs": coll.leapfrogs, "registered_draw": coll.draw,
            "rng_calls": calls, "evals": evals_end - evals_start, "script_exhausted": rng.exhausted,
        });
        if let Some(mj) = mirror_out {
            d["mirror"] = mj;
        }
        match res {
            Err(p) => {
                d["result"] = json!({"panic": p});
                draws.push(d);
                break;
            }
            Ok(Err(e)) => {
                d["result"] = json!({"err": format!("{e:?}")});
                draws.push(d);
                break;
            }
            Ok(Ok((new_state, info))) => {
                d["result"] = json!({
                    "state": point_json(&mut math, &new_state),
                    "depth": info.depth,
                    "reached_maxdepth": info.reached_maxdepth,
                    "diverging": info.divergence_info.is_some(),
                    "div_start_idx": info.divergence_info.as_ref().and_then(|x| x.start_idx_in_trajectory),
                    "div_end_idx": info.divergence_info.as_ref().and_then(|x| x.end_idx_in_trajectory),
                });
                let (strong, weak, _) = new_state.verif_counts();
                d["state_counts"] = json!([strong, weak]);
                state = new_state;
                draws.push(d);
            }
        }
    }
    let evals: Vec<J> = log.lock().unwrap().evals[evals_before as usize..]
        .iter()
        .map(|e| json!({"x": vbits(&e.position), "logp": bits(e.logp), "g": vbits(&e.gradient),
                        "fault": e.fault.map(|f| f.name())}))
        .collect();
    json!({"id": case["id"], "init_state": "ok", "evals_before": evals_before, "draws": draws,
           "evals": evals, "free_len": ham.pool().verif_free_len()})
}

fn run_case(case: &J) -> J {
    let logp = build_logp(case);
    let log = logp.log.clone();
    let dim = logp.dim;
    let mut math = WrapMath::new(logp);
    let mut stds = jvf(case, "stds");
    if stds.len() != dim {
        stds = vec![1.0; dim];
    }
    let mut mean = jvf(case, "mean");
    if mean.len() != dim {
        mean = vec![0.0; dim];
    }
    let kind = kind_of(case);
    if let Some(lr) = case.get("lowrank") {
        let vals = jvf(lr, "vals");
        let vecs: Vec<Vec<f64>> = lr["vecs"]
            .as_array()
            .unwrap()
            .iter()
            .map(|c| c.as_array().unwrap().iter().map(|x| x.as_f64().unwrap()).collect())
            .collect();
        let mut mu = jvf(lr, "mu");
        if mu.len() != dim {
            mu = vec![0.0; dim];
        }
        let mut mm = LowRankMassMatrix::new(&mut math, LowRankSettings::default());
        mm.verif_update(&mut math, &stds, &mean, &vals, &vecs, &mu);
        let ham = TransformedHamiltonian::new(&mut math, mm, kind);
        run_with(case, math, ham, log)
    } else {
        let mut mm = DiagMassMatrix::verif_new(&mut math, false);
        mm.verif_set_transform(&mut math, &stds, &mean);
        let ham = TransformedHamiltonian::new(&mut math, mm, kind);
        run_with(case, math, ham, log)
    }
}

fn main() {
    for case in read_cases() {
        let out = match catch(|| run_case(&case)) {
            Ok(o) => o,
            Err(p) => json!({"id": case["id"], "harness_panic": p}),
        };
        println!("{}", out);
    }
}
