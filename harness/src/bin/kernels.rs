//! Calls the vector operations of the CPU backend through the public `Math` trait on vectors
//! given as bit patterns and prints the results as bit patterns.  Used by C17 (and C08).

use nuts_rs::{CpuMath, Math};
use serde_json::{Value as J, json};
use verif_harness::*;

fn fbits(v: &J) -> f64 {
    match v {
        J::String(s) => f64::from_bits(s.parse::<u64>().unwrap()),
        other => f64::from_bits(other.as_u64().unwrap()),
    }
}
fn vec_of(case: &J, k: &str) -> Vec<f64> {
    case.get(k)
        .and_then(|x| x.as_array())
        .map(|a| a.iter().map(fbits).collect())
        .unwrap_or_default()
}
fn sc(case: &J, k: &str) -> f64 {
    case.get(k).map(fbits).unwrap_or(0.0)
}
fn out(v: &[f64]) -> Vec<String> {
    v.iter().map(|x| x.to_bits().to_string()).collect()
}
fn b(x: f64) -> String {
    x.to_bits().to_string()
}

fn run_case(case: &J) -> J {
    let n = ju(case, "n", 0) as usize;
    let mut math = CpuMath::new(TestLogp::std_normal(n));
    let mut arr = |name: &str| {
        let v = vec_of(case, name);
        let mut a = math.new_array();
        if v.len() == n {
            math.read_from_slice(&mut a, &v);
        }
        a
    };
    let x = arr("x");
    let y = arr("y");
    let z = arr("z");
    let w = arr("w");
    let u = arr("u");
    let a = sc(case, "a");
    let op = js(case, "op", "");
    let res = match op {
        "multiply" => {
            let mut o = math.new_array();
            math.array_mult(&x, &y, &mut o);
            json!({"v": out(&math.box_array(&o))})
        }
        "multiply_inplace" => {
            let mut o = math.copy_array(&x);
            math.array_mult_inplace(&mut o, &y);
            json!({"v": out(&math.box_array(&o))})
        }
        "axpy" => {
            let mut o = math.copy_array(&y);
            math.axpy(&x, &mut o, a);
            json!({"v": out(&math.box_array(&o))})
        }
        "axpy_out" => {
            let mut o = math.new_array();
            math.axpy_out(&x, &y, a, &mut o);
            json!({"v": out(&math.box_array(&o))})
        }
        "vector_dot" => json!({"s": [b(math.array_vector_dot(&x, &y))]}),
        "scalar_prods2" => {
            let (r1, r2) = math.scalar_prods2(&x, &y, &z, &w);
            json!({"s": [b(r1), b(r2)]})
        }
        "scalar_prods3" => {
            let (r1, r2) = math.scalar_prods3(&x, &y, &z, &w, &u);
            json!({"s": [b(r1), b(r2)]})
        }
        "std_norm_flow" => {
            let mut po = math.new_array();
            let mut v = math.copy_array(&y);
            math.std_norm_flow(&x, &mut po, &mut v, a);
            json!({"v": out(&math.box_array(&po)), "v2": out(&math.box_array(&v)),
                   "sin": b(a.sin()), "cos": b(a.cos())})
        }
        "std_norm_grad_flow" => {
            let mut o = math.new_array();
            math.std_norm_grad_flow(&x, &y, &z, &mut o, a);
            json!({"v": out(&math.box_array(&o))})
        }
        "std_norm_grad_flow_inplace" => {
            let mut o = math.copy_array(&z);
            math.std_norm_grad_flow_inplace(&x, &y, &mut o, a);
            json!({"v": out(&math.box_array(&o))})
        }
        "sq_norm_sum" => json!({"s": [b(math.sq_norm_sum(&x, &y))]}),
        "all_finite" => json!({"b": math.array_all_finite(&x)}),
        "all_finite_and_nonzero" => json!({"b": math.array_all_finite_and_nonzero(&x)}),
        "recip" => {
            let mut o = math.new_array();
            math.array_recip(&x, &mut o);
            json!({"v": out(&math.box_array(&o))})
        }
        "normalize" => {
            let mut o = math.copy_array(&x);
            math.array_normalize(&mut o);
            json!({"v": out(&math.box_array(&o))})
        }
        "fill" => {
            let mut o = math.copy_array(&x);
            math.fill_array(&mut o, a);
            json!({"v": out(&math.box_array(&o))})
        }
        "sum_ln" => json!({"s": [b(math.array_sum_ln(&x))]}),
        "gaussian" => {
            // the real momentum draw: two successive fills of a vector that starts as NaN sentinels
            use nuts_rs::rand::{SeedableRng, rngs::ChaCha8Rng};
            let mut rng = ChaCha8Rng::seed_from_u64(ju(case, "seed", 1));
            let sentinel = vec![f64::NAN; n];
            let mut o1 = math.new_array();
            math.read_from_slice(&mut o1, &sentinel);
            math.array_gaussian(&mut rng, &mut o1, &x);
            let mut o2 = math.new_array();
            math.read_from_slice(&mut o2, &sentinel);
            math.array_gaussian(&mut rng, &mut o2, &x);
            json!({"v": out(&math.box_array(&o1)), "v2": out(&math.box_array(&o2))})
        }
        "esh" => {
            let mut o = math.copy_array(&y);
            let r = math.esh_momentum_update(&x, &mut o, a);
            json!({"v": out(&math.box_array(&o)), "s": [b(r)]})
        }
        "update_variance" => {
            let mut mean = math.copy_array(&x);
            let mut var = math.copy_array(&y);
            math.array_update_variance(&mut mean, &mut var, &z, a);
            json!({"v": out(&math.box_array(&mean)), "v2": out(&math.box_array(&var))})
        }
        "var_inv_std_draw" | "var_inv_std_draw_grad" | "var_inv_std_grad" => {
            let mut inv_std = math.copy_array(&x);
            let mut std = math.copy_array(&y);
            let fill = case.get("fill").filter(|f| !f.is_null()).map(fbits);
            let clamp = (sc(case, "lo"), sc(case, "hi"));
            match op {
                "var_inv_std_draw" => math.array_update_var_inv_std_draw(&mut inv_std, &mut std, &z, a, fill, clamp),
                "var_inv_std_draw_grad" => math.array_update_var_inv_std_draw_grad(&mut inv_std, &mut std, &z, &w, fill, clamp),
                _ => math.array_update_var_inv_std_grad(&mut inv_std, &mut std, &z, fill.unwrap_or(1.0), clamp),
            }
            json!({"v": out(&math.box_array(&inv_std)), "v2": out(&math.box_array(&std))})
        }
        "lowrank" | "lowrank_inplace" => {
            let cols: Vec<Vec<f64>> = case["vecs"]
                .as_array()
                .unwrap()
                .iter()
                .map(|c| c.as_array().unwrap().iter().map(fbits).collect())
                .collect();
            let vals = vec_of(case, "vals");
            let vecs = math.new_eig_vectors(cols.iter().map(|c| c.as_slice()));
            let vals = math.new_eig_values(&vals);
            if op == "lowrank" {
                let mut o = math.new_array();
                math.apply_lowrank_transform(&vecs, &vals, &x, &mut o);
                json!({"v": out(&math.box_array(&o))})
            } else {
                let mut o = math.copy_array(&x);
                math.apply_lowrank_transform_inplace(&vecs, &vals, &mut o);
                json!({"v": out(&math.box_array(&o))})
            }
        }
        "arch" => json!({"arch": format!("{:?}", pulp::Arch::new())}),
        _ => json!({"error": "unknown op"}),
    };
    let mut r = res;
    r["id"] = case["id"].clone();
    r
}

fn main() {
    for case in read_cases() {
        let o = match catch(|| run_case(&case)) {
            Ok(o) => o,
            Err(p) => json!({"id": case["id"], "panic": p}),
        };
        println!("{}", o);
    }
}
