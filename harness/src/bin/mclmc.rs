//! Runs MCLMC chains with a delegating Math backend that logs every ESH momentum update and
//! normalisation; density faults at chosen evaluations produce divergences.  Used by C18.

use nuts_rs::{
    Chain, DiagMclmcSettings, MclmcTrajectoryKind, Settings, StepSizeAdaptMethod, Storable,
    rand::{SeedableRng, rngs::ChaCha8Rng},
};
use serde_json::{Value as J, json};
use verif_harness::wrapmath::WrapMath;
use verif_harness::*;

fn bits(x: f64) -> String {
    x.to_bits().to_string()
}
fn vb(v: &[f64]) -> Vec<String> {
    v.iter().map(|x| bits(*x)).collect()
}

fn run_case(case: &J) -> J {
    let dim = ju(case, "dim", 3) as usize;
    let mut prec = jvf(case, "prec");
    if prec.len() != dim {
        prec = vec![1.0; dim];
    }
    let mut logp = TestLogp::gaussian(prec, vec![0.0; dim]);
    if let Some(fs) = case.get("faults").and_then(|x| x.as_array()) {
        for f in fs {
            logp.faults
                .insert(f[0].as_u64().unwrap(), Fault::parse(f[1].as_str().unwrap()).unwrap());
        }
    }
    logp.log.lock().unwrap().keep = true;
    let evlog = logp.log.clone();
    let mut math = WrapMath::new(logp);
    math.log.keep = true;
    let mut s = DiagMclmcSettings::default();
    s.num_tune = ju(case, "num_tune", 4);
    s.num_draws = ju(case, "num_draws", 4);
    s.step_size = jf(case, "step_size", 0.25);
    s.momentum_decoherence_length = jf(case, "L", 1.0);
    s.subsample_frequency = jf(case, "subsample_frequency", 1.0);
    s.dynamic_step_size = jb(case, "dynamic_step_size", true);
    s.max_energy_error = jf(case, "max_energy_error", 1e9);
    s.trajectory_switch_fraction = jf(case, "switch_fraction", 0.3);
    s.trajectory_kind = match js(case, "kind", "micro") {
        "euclid" => MclmcTrajectoryKind::Euclidean,
        "early" => MclmcTrajectoryKind::EuclideanEarlyThenMicrocanonical,
        _ => MclmcTrajectoryKind::Microcanonical,
    };
    s.adapt_options.step_size_settings.jitter = case.get("jitter").and_then(|x| x.as_f64());
    s.adapt_options.step_size_settings.adapt_options.method = StepSizeAdaptMethod::Fixed(s.step_size);
    let total = s.num_tune + s.num_draws;
    let mut rng = ChaCha8Rng::seed_from_u64(ju(case, "seed", 1));
    let mut chain = s.new_chain(0, math, &mut rng);
    let mut init = jvf(case, "init");
    if init.len() != dim {
        init = (0..dim).map(|i| 0.3 + 0.1 * i as f64).collect();
    }
    if let Err(e) = chain.set_position(&init) {
        return json!({"id": case["id"], "set_position": format!("err: {e:?}")});
    }
    let switch_draw = (s.trajectory_switch_fraction * s.num_tune as f64) as u64;
    let mut draws = vec![];
    let mut prev_pos = init.clone();
    // (an auxiliary backend of the same dimension: reading a point out needs a `&mut Math`)
    let mut aux = verif_harness::wrapmath::WrapMath::new(TestLogp::std_normal(dim));
    let mut prev_mom = chain.verif_state().point().verif_data(&mut aux).velocity;
    let (mut esh_seen, mut norm_seen, mut eval_seen, mut gauss_seen) = {
        let m = chain.math();
        (m.log.esh.len(), m.log.normalize.len(), evlog.lock().unwrap().evals.len(), m.log.gaussians.len())
    };
    for _ in 0..total {
        match catch(|| chain.expanded_draw()) {
            Err(p) => {
                draws.push(json!({"panic": p}));
                break;
            }
            Ok(Err(e)) => {
                draws.push(json!({"err": format!("{e:?}").chars().take(200).collect::<String>()}));
                break;
            }
            Ok(Ok((pos, _exp, mut stats, progress))) => {
                let m = chain.math();
                let dims = nuts_rs::verif::StatsDims::from(&*m);
                let all = stats.get_all(&dims);
                let esh: Vec<J> = m.log.esh[esh_seen..]
                    .iter()
                    .map(|e| json!({"g": vb(&e.grad), "p_in": vb(&e.mom_in), "step": bits(e.step), "p_out": vb(&e.mom_out), "dke": bits(e.delta_ke)}))
                    .collect();
                let norms: Vec<J> = m.log.normalize[norm_seen..]
                    .iter()
                    .map(|(a, b)| json!({"in": vb(a), "out": vb(b)}))
                    .collect();
                esh_seen = m.log.esh.len();
                norm_seen = m.log.normalize.len();
                let ngauss = m.log.gaussians.len() - gauss_seen;
                gauss_seen = m.log.gaussians.len();
                let ev = evlog.lock().unwrap();
                let evals: Vec<J> = ev.evals[eval_seen..]
                    .iter()
                    .map(|e| json!(e.fault.map(|f| f.name())))
                    .collect();
                eval_seen = ev.evals.len();
                draws.push(json!({
                    "draw": progress.draw, "tuning": progress.tuning, "diverging": progress.diverging,
                    "num_steps": progress.num_steps, "step_size": bits(progress.step_size),
                    "pos": vb(&pos), "prev_pos": vb(&prev_pos),
                    "average_step_size": stat_f64(&all, "average_step_size").map(bits),
                    "stat_num_steps": stat_i64(&all, "num_steps"),
                    "esh": esh, "normalize": norms, "evals": evals, "gaussians": ngauss,
                }));
                drop(ev);
                drop(m);
                let mom = chain.verif_state().point().verif_data(&mut aux).velocity;
                let last = draws.len() - 1;
                draws[last]["mom"] = json!(vb(&mom));
                draws[last]["prev_mom"] = json!(vb(&prev_mom));
                prev_mom = mom;
                prev_pos = pos.to_vec();
            }
        }
    }
    json!({"id": case["id"], "set_position": "ok", "switch_draw": switch_draw, "draws": draws})
}

fn main() {
    for case in read_cases() {
        let o = match catch(|| run_case(&case)) {
            Ok(o) => o,
            Err(p) => json!({"id": case["id"], "harness_panic": p}),
        };
        println!("{}", o);
    }
}
