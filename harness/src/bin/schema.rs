//! C16: declared statistics schema versus the per-draw rows.
//!
//! For every case (preset, store_* flags, mass-matrix options, dimension, fault script) the binary
//! prints the schema the settings declare (`stat_names`, `stat_types`, `stat_dims_all`,
//! `stat_event_dims`, `stat_dim_sizes`) and, for every draw of one chain run through the public
//! API, the complete row `Stats::get_all` returns (name, present?, type tag, scalar/length, the
//! value itself for scalars) together with `Progress` and the transformation id observed through
//! the `Transformation::transformation_id` accessor (independent of the statistics).

use nuts_rs::verif::Transformation as _;
use nuts_rs::{
    Chain, CpuMath, DiagMclmcSettings, DiagNutsSettings, FlowMclmcSettings, FlowNutsSettings,
    LowRankMclmcSettings, LowRankNutsSettings, Settings, StepSizeAdaptMethod, Storable, Value,
    rand::{SeedableRng, rngs::ChaCha8Rng},
};
use serde_json::{Value as J, json};
use verif_harness::*;

fn build_logp(case: &J) -> TestLogp {
    let dim = ju(case, "dim", 2) as usize;
    let mut prec = jvf(case, "prec");
    if prec.len() != dim {
        prec = vec![1.0; dim];
    }
    let mut l = TestLogp::gaussian(prec, vec![0.0; dim]);
    let dp = jvf(case, "dense_prec");
    if dp.len() == dim * dim && dim > 0 {
        l.dense_prec = Some(dp);
    }
    if let Some(rf) = case.get("region_fault").and_then(|x| x.as_array()) {
        let thr = rf[0].as_f64().unwrap();
        let f = Fault::parse(rf[1].as_str().unwrap()).unwrap();
        l.region_fault = Some((thr, f));
    }
    if let Some(fs) = case.get("faults").and_then(|x| x.as_array()) {
        for f in fs {
            let k = f[0].as_u64().unwrap();
            let kind = Fault::parse(f[1].as_str().unwrap()).unwrap();
            l.faults.insert(k, kind);
        }
    }
    l
}

/// One entry of a row: vectors are reduced to their length, scalars keep their value.
fn entry_json(name: &str, v: &Option<Value>) -> J {
    match v {
        None => json!([name, J::Null]),
        Some(v) => {
            let mut j = value_to_json(v);
            let scalar = j.get("s").is_some();
            if !scalar {
                j.as_object_mut().unwrap().remove("v");
            }
            json!([name, j])
        }
    }
}

fn schema_json<S: Settings>(settings: &S, math: &CpuMath<TestLogp>) -> J {
    let names = settings.stat_names(math);
    let types: Vec<J> = settings
        .stat_types(math)
        .into_iter()
        .map(|(n, t)| json!([n, item_type_name(t)]))
        .collect();
    let dims: Vec<J> = settings
        .stat_dims_all(math)
        .into_iter()
        .map(|(n, d)| json!([n, d]))
        .collect();
    let events: Vec<J> = settings
        .stat_event_dims(math)
        .into_iter()
        .map(|(n, e)| json!([n, e]))
        .collect();
    let mut sizes: Vec<(String, u64)> = settings.stat_dim_sizes(math).into_iter().collect();
    sizes.sort();
    json!({"names": names, "types": types, "dims": dims, "event_dims": events,
           "dim_sizes": sizes.into_iter().map(|(k, v)| json!([k, v])).collect::<Vec<_>>()})
}

macro_rules! apply_euclid {
    ($s:expr, $case:expr) => {{
        let c = $case;
        $s.adapt_options.mass_matrix_options.store_mass_matrix = jb(c, "store_mass_matrix", false);
        $s.adapt_options.early_mass_matrix_switch_freq = ju(
            c,
            "early_switch_freq",
            $s.adapt_options.early_mass_matrix_switch_freq,
        );
        $s.adapt_options.mass_matrix_switch_freq =
            ju(c, "switch_freq", $s.adapt_options.mass_matrix_switch_freq);
        $s.adapt_options.mass_matrix_update_freq =
            ju(c, "update_freq", $s.adapt_options.mass_matrix_update_freq);
    }};
}

macro_rules! apply_common {
    ($s:expr, $case:expr) => {{
        let c = $case;
        $s.num_tune = ju(c, "num_tune", 10);
        $s.num_draws = ju(c, "num_draws", 5);
        $s.store_gradient = jb(c, "store_gradient", false);
        $s.store_unconstrained = jb(c, "store_unconstrained", false);
        $s.store_transformed = jb(c, "store_transformed", false);
        $s.store_divergences = jb(c, "store_divergences", false);
        $s.max_energy_error = jf(c, "max_energy_error", $s.max_energy_error);
    }};
}

/// runs the chain; `$probe` maps (&chain, &mut aux math) to (transformation id, has low-rank part)
macro_rules! run_chain {
    ($settings:expr, $case:expr, $probe:expr) => {{
        let settings = $settings;
        let case = $case;
        let logp = build_logp(case);
        let dim = logp.dim;
        let total = settings.num_tune + settings.num_draws;
        let mut rng = ChaCha8Rng::seed_from_u64(ju(case, "seed", 1));
        let schema = {
            let m = CpuMath::new(build_logp(case));
            catch(|| schema_json(&settings, &m))
        };
        let mut aux = CpuMath::new(TestLogp::std_normal(dim));
        let probe = $probe;
        let math = CpuMath::new(logp);
        let chain_id = ju(case, "chain", 0);
        match schema {
            Err(p) => json!({"id": case["id"], "schema_panic": p}),
            Ok(schema) => match catch(move || settings.new_chain(chain_id, math, &mut rng)) {
                Err(p) => json!({"id": case["id"], "schema": schema, "new_chain": format!("panic: {p}")}),
                Ok(mut chain) => {
                    let mut init = jvf(case, "init");
                    if init.len() != dim {
                        init = vec![0.1; dim];
                    }
                    let id_new = catch(|| probe(&chain, &mut aux)).ok();
                    // initialisation attempts that are rejected first (a zero gradient component at
                    // the centre of the density), as the sampler's retry loop would make them
                    for _ in 0..ju(case, "bad_inits", 0) {
                        let centre = vec![0.0; dim];
                        let _ = catch(|| chain.set_position(&centre));
                    }
                    match catch(|| chain.set_position(&init)) {
                        Err(p) => json!({"id": case["id"], "schema": schema, "new_chain": "ok",
                                         "set_position": format!("panic: {p}")}),
                        Ok(Err(e)) => json!({"id": case["id"], "schema": schema, "new_chain": "ok",
                                             "set_position": format!("err: {e:?}")}),
                        Ok(Ok(())) => {
                            let id_init = catch(|| probe(&chain, &mut aux)).ok();
                            let mut draws = vec![];
                            // draws whose statistics are never extracted (Chain::draw)
                            for _ in 0..ju(case, "plain_draws", 0) {
                                let _ = catch(|| chain.draw());
                            }
                            for _ in 0..total {
                                match catch(|| chain.expanded_draw()) {
                                    Err(p) => {
                                        draws.push(json!({"panic": p}));
                                        break;
                                    }
                                    Ok(Err(e)) => {
                                        draws.push(json!({"err": format!("{e:?}")}));
                                        break;
                                    }
                                    Ok(Ok((pos, _expanded, mut stats, progress))) => {
                                        // the values of the position-describing statistics (C03 audit)
                                        let mut described = serde_json::Map::new();
                                        let row: Vec<J> = {
                                            let math = chain.math();
                                            let dims = nuts_rs::verif::StatsDims::from(&*math);
                                            let all = stats.get_all(&dims);
                                            for (n, v) in all.iter() {
                                                if matches!(*n, "unconstrained_draw" | "gradient" | "logp" | "index_in_trajectory" | "energy" | "energy_error" | "depth" | "n_steps") {
                                                    if let Some(v) = v {
                                                        described.insert(n.to_string(), value_to_json(v)["v"].clone());
                                                    }
                                                }
                                            }
                                            all.iter().map(|(n, v)| entry_json(n, v)).collect()
                                        };
                                        let (ref_logp, ref_grad) = {
                                            let l = build_logp(case);
                                            let mut g = vec![0.0; dim];
                                            let lp = l.plain_logp(&pos, &mut g);
                                            (lp, g)
                                        };
                                        let pr = catch(|| probe(&chain, &mut aux)).ok();
                                        draws.push(json!({
                                            "draw": progress.draw,
                                            "chain": progress.chain,
                                            "diverging": progress.diverging,
                                            "tuning": progress.tuning,
                                            "id_after": pr.map(|p| p.0),
                                            "has_inner": pr.and_then(|p| p.1),
                                            "row": row,
                                            "pos": pos.iter().map(|x| x.to_bits().to_string()).collect::<Vec<_>>(),
                                            "ref_logp": ref_logp.to_bits().to_string(),
                                            "ref_grad": ref_grad.iter().map(|x| x.to_bits().to_string()).collect::<Vec<_>>(),
                                            "described": described,
                                        }));
                                    }
                                }
                            }
                            json!({"id": case["id"], "schema": schema, "new_chain": "ok", "set_position": "ok",
                                   "id_new": id_new.map(|p| p.0), "id_init": id_init.map(|p| p.0),
                                   "draws": draws})
                        }
                    }
                }
            },
        }
    }};
}

type M = CpuMath<TestLogp>;

fn run_case(case: &J) -> J {
    let preset = js(case, "preset", "diag_nuts").to_string();
    match preset.as_str() {
        "diag_nuts" => {
            let mut s = DiagNutsSettings::default();
            apply_common!(s, case);
            s.maxdepth = ju(case, "maxdepth", 4);
            apply_euclid!(s, case);
            s.adapt_options.mass_matrix_options.use_grad_based_estimate =
                jb(case, "use_grad_based_estimate", true);
            run_chain!(s, case, |c: &<DiagNutsSettings as Settings>::Chain<M>, aux: &mut M| {
                (c.verif_hamiltonian().transformation().transformation_id(aux), None::<bool>)
            })
        }
        "lowrank_nuts" => {
            let mut s = LowRankNutsSettings::default();
            apply_common!(s, case);
            s.maxdepth = ju(case, "maxdepth", 4);
            apply_euclid!(s, case);
            run_chain!(s, case, |c: &<LowRankNutsSettings as Settings>::Chain<M>, aux: &mut M| {
                let t = c.verif_hamiltonian().transformation();
                (t.transformation_id(aux), Some(t.verif_params(aux).1.is_some()))
            })
        }
        "flow_nuts" => {
            let mut s = FlowNutsSettings::default();
            apply_common!(s, case);
            s.maxdepth = ju(case, "maxdepth", 4);
            s.adapt_options.transform_update_freq =
                ju(case, "update_freq", s.adapt_options.transform_update_freq);
            run_chain!(s, case, |c: &<FlowNutsSettings as Settings>::Chain<M>, aux: &mut M| {
                (c.verif_hamiltonian().transformation().transformation_id(aux), None::<bool>)
            })
        }
        "diag_mclmc" => {
            let mut s = DiagMclmcSettings::default();
            apply_common!(s, case);
            s.step_size = jf(case, "fixed_step", 0.25);
            s.dynamic_step_size = jb(case, "dynamic_step_size", true);
            apply_euclid!(s, case);
            s.adapt_options.mass_matrix_options.use_grad_based_estimate =
                jb(case, "use_grad_based_estimate", true);
            run_chain!(s, case, |c: &<DiagMclmcSettings as Settings>::Chain<M>, aux: &mut M| {
                (c.verif_hamiltonian().transformation().transformation_id(aux), None::<bool>)
            })
        }
        "lowrank_mclmc" => {
            let mut s = LowRankMclmcSettings::default();
            apply_common!(s, case);
            s.step_size = jf(case, "fixed_step", 0.25);
            s.dynamic_step_size = jb(case, "dynamic_step_size", true);
            apply_euclid!(s, case);
            run_chain!(s, case, |c: &<LowRankMclmcSettings as Settings>::Chain<M>, aux: &mut M| {
                let t = c.verif_hamiltonian().transformation();
                (t.transformation_id(aux), Some(t.verif_params(aux).1.is_some()))
            })
        }
        "flow_mclmc" => {
            let mut s = FlowMclmcSettings::default();
            apply_common!(s, case);
            s.step_size = jf(case, "fixed_step", 0.25);
            s.dynamic_step_size = jb(case, "dynamic_step_size", true);
            s.adapt_options.transform_update_freq =
                ju(case, "update_freq", s.adapt_options.transform_update_freq);
            s.adapt_options.step_size_settings.adapt_options.method =
                StepSizeAdaptMethod::Fixed(s.step_size);
            run_chain!(s, case, |c: &<FlowMclmcSettings as Settings>::Chain<M>, aux: &mut M| {
                (c.verif_hamiltonian().transformation().transformation_id(aux), None::<bool>)
            })
        }
        other => json!({"id": case["id"], "error": format!("unknown preset {other}")}),
    }
}

fn main() {
    for case in read_cases() {
        let out = run_case(&case);
        println!("{}", out);
    }
}
