//! C15: drives the real `ZarrChainStorage` / `ZarrAsyncChainStorage` of nuts-rs directly from
//! real chains (one `record_sample` per draw with the chain's real statistics, expanded draw and
//! `Progress`), calls `flush()` where the case asks for it, snapshots the store after every record
//! (memory store: key -> bytes copy, filesystem store: directory copy) and reads each snapshot
//! back with a fresh zarrs reader.  Rows are interned: every distinct row content (type tag +
//! elements, floats as bit patterns) gets a small integer token; the history of `record_sample`
//! arguments uses the same tokens.

use std::{
    collections::HashMap,
    path::{Path, PathBuf},
    sync::{
        Arc, Mutex,
        atomic::{AtomicBool, Ordering},
    },
};

use nuts_rs::verif::{ChainStorage, StatsDims, StorageConfig, TraceStorage};
use nuts_rs::{
    Chain, CpuMath, DiagMclmcSettings, DiagNutsSettings, FlowMclmcSettings, FlowNutsSettings,
    ItemType, LowRankMclmcSettings, LowRankNutsSettings, Settings, StepSizeAdaptMethod, Storable,
    Value, ZarrAsyncConfig, ZarrConfig,
    rand::{SeedableRng, rngs::ChaCha8Rng},
};
use serde_json::{Value as J, json};
use verif_harness::*;
use zarrs::array::{Array, ArraySubset};
use zarrs::filesystem::FilesystemStore;
use zarrs::storage::storage_adapter::sync_to_async::{
    SyncToAsyncSpawnBlocking, SyncToAsyncStorageAdapter,
};
use zarrs::storage::store::MemoryStore;
use zarrs::storage::{
    ListableStorageTraits, ReadableListableStorageTraits, ReadableStorageTraits,
    ReadableWritableListableStorage, ReadableWritableListableStorageTraits, WritableStorageTraits,
};

// ---------------------------------------------------------------------------------------------
// row interning
// ---------------------------------------------------------------------------------------------
#[derive(Default)]
struct Interner {
    map: HashMap<String, u64>,
    table: Vec<String>,
}
impl Interner {
    fn get(&mut self, s: String) -> u64 {
        if let Some(i) = self.map.get(&s) {
            return *i;
        }
        let i = self.table.len() as u64;
        self.map.insert(s.clone(), i);
        self.table.push(s);
        i
    }
}

fn row_f64(x: &[f64]) -> String {
    format!("f64|{}", x.iter().map(|y| y.to_bits().to_string()).collect::<Vec<_>>().join(","))
}
fn row_f32(x: &[f32]) -> String {
    format!("f32|{}", x.iter().map(|y| y.to_bits().to_string()).collect::<Vec<_>>().join(","))
}
fn row_u64(x: &[u64]) -> String {
    format!("u64|{}", x.iter().map(|y| y.to_string()).collect::<Vec<_>>().join(","))
}
fn row_i64(x: &[i64]) -> String {
    format!("i64|{}", x.iter().map(|y| y.to_string()).collect::<Vec<_>>().join(","))
}
fn row_bool(x: &[bool]) -> String {
    format!("bool|{}", x.iter().map(|y| (*y as u8).to_string()).collect::<Vec<_>>().join(","))
}
fn row_str(x: &[String]) -> String {
    format!("string|{}", serde_json::to_string(x).unwrap())
}

/// canonical row of a value handed to `record_sample`
fn value_row(v: &Value) -> String {
    match v {
        Value::ScalarF64(x) => row_f64(&[*x]),
        Value::ScalarF32(x) => row_f32(&[*x]),
        Value::ScalarU64(x) => row_u64(&[*x]),
        Value::ScalarI64(x) => row_i64(&[*x]),
        Value::ScalarBool(x) => row_bool(&[*x]),
        Value::ScalarString(x) => row_str(&[x.clone()]),
        Value::F64(x) => row_f64(x),
        Value::F32(x) => row_f32(x),
        Value::U64(x) => row_u64(x),
        Value::I64(x) => row_i64(x),
        Value::Bool(x) => row_bool(x),
        Value::Strings(x) => row_str(x),
        Value::DateTime64(_, x) => format!("datetime|{:?}", x),
        Value::TimeDelta64(_, x) => format!("timedelta|{:?}", x),
    }
}

fn fill_row(t: ItemType, width: usize) -> String {
    match t {
        ItemType::F64 => row_f64(&vec![f64::NAN; width]),
        ItemType::F32 => row_f32(&vec![f32::NAN; width]),
        ItemType::U64 => row_u64(&vec![0; width]),
        ItemType::I64 => row_i64(&vec![0; width]),
        ItemType::Bool => row_bool(&vec![false; width]),
        ItemType::String => row_str(&vec![String::new(); width]),
        _ => "unsupported".to_string(),
    }
}

// ---------------------------------------------------------------------------------------------
// stores
// ---------------------------------------------------------------------------------------------
enum Backing {
    Mem(Arc<MemoryStore>),
    Fs(Arc<FilesystemStore>, PathBuf),
}

fn copy_dir(src: &Path, dst: &Path) -> std::io::Result<()> {
    std::fs::create_dir_all(dst)?;
    for e in std::fs::read_dir(src)? {
        let e = e?;
        let p = e.path();
        let q = dst.join(e.file_name());
        if e.file_type()?.is_dir() {
            copy_dir(&p, &q)?;
        } else {
            std::fs::copy(&p, &q)?;
        }
    }
    Ok(())
}

struct Snapshot {
    store: Arc<dyn ReadableListableStorageTraits>,
    dir: Option<PathBuf>,
}
impl Drop for Snapshot {
    fn drop(&mut self) {
        if let Some(d) = &self.dir {
            let _ = std::fs::remove_dir_all(d);
        }
    }
}

impl Backing {
    fn new(kind: &str, tmp_root: &Path, tag: &str) -> Backing {
        match kind {
            "fs" => {
                let d = tmp_root.join(format!("{tag}-live"));
                let _ = std::fs::remove_dir_all(&d);
                std::fs::create_dir_all(&d).unwrap();
                Backing::Fs(Arc::new(FilesystemStore::new(&d).unwrap()), d)
            }
            _ => Backing::Mem(Arc::new(MemoryStore::new())),
        }
    }
    fn dynstore(&self) -> ReadableWritableListableStorage {
        match self {
            Backing::Mem(s) => s.clone(),
            Backing::Fs(s, _) => s.clone(),
        }
    }
    /// An independent copy of the current store contents, opened with a fresh store object.
    fn snapshot(&self, tmp_root: &Path, tag: &str) -> Result<Snapshot, String> {
        match self {
            Backing::Mem(s) => {
                let fresh = MemoryStore::new();
                let keys = s.list().map_err(|e| format!("list: {e}"))?;
                for k in keys.iter() {
                    if let Some(b) = s.get(k).map_err(|e| format!("get: {e}"))? {
                        fresh.set(k, b).map_err(|e| format!("set: {e}"))?;
                    }
                }
                Ok(Snapshot { store: Arc::new(fresh), dir: None })
            }
            Backing::Fs(_, d) => {
                let q = tmp_root.join(tag);
                let _ = std::fs::remove_dir_all(&q);
                copy_dir(d, &q).map_err(|e| format!("copy: {e}"))?;
                let fresh = FilesystemStore::new(&q).map_err(|e| format!("open: {e}"))?;
                Ok(Snapshot { store: Arc::new(fresh), dir: Some(q) })
            }
        }
    }
    fn cleanup(&self) {
        if let Backing::Fs(_, d) = self {
            let _ = std::fs::remove_dir_all(d);
        }
    }
}

/// `spawn_blocking` of the sync->async adapter with a seeded delay before every store
/// operation (varies the completion order of queued chunk writes).
struct DelaySpawner {
    rng: Arc<Mutex<SplitMix>>,
    max_us: u64,
    enabled: Arc<AtomicBool>,
    /// every store operation holds this lock for reading, a snapshot for writing: a snapshot never
    /// observes a half-executed store operation (chunk writes are atomic events)
    gate: Arc<std::sync::RwLock<()>>,
}
impl SyncToAsyncSpawnBlocking for DelaySpawner {
    fn spawn_blocking<F, R>(&self, f: F) -> impl std::future::Future<Output = R> + Send
    where
        F: FnOnce() -> R + Send + 'static,
        R: Send + 'static,
    {
        let d = if self.max_us > 0 && self.enabled.load(Ordering::SeqCst) {
            self.rng.lock().unwrap().below(self.max_us + 1)
        } else {
            0
        };
        let gate = self.gate.clone();
        async move {
            tokio::task::spawn_blocking(move || {
                if d > 0 {
                    std::thread::sleep(std::time::Duration::from_micros(d));
                }
                let _g = gate.read().unwrap();
                f()
            })
            .await
            .unwrap()
        }
    }
}

// ---------------------------------------------------------------------------------------------
// variables of the trace
// ---------------------------------------------------------------------------------------------
#[derive(Clone)]
struct VarMeta {
    name: String,
    is_stat: bool,
    ty: ItemType,
    width: usize,
    event_dim: Option<String>,
    fill: u64,
}

const GROUPS: [(&str, &str); 2] = [("warmup_sample_stats", "warmup_posterior"), ("sample_stats", "posterior")];

fn read_rows(
    store: &Arc<dyn ReadableListableStorageTraits>,
    path: &str,
    ty: ItemType,
    nchains: u64,
    it: &mut Interner,
) -> Result<J, String> {
    let array = Array::open(store.clone(), path).map_err(|e| format!("open {path}: {e}"))?;
    let shape = array.shape().to_vec();
    if shape.len() < 2 {
        return Err(format!("{path}: rank {}", shape.len()));
    }
    let n = shape[1];
    let width: u64 = shape[2..].iter().product();
    let mut per_chain = vec![];
    for c in 0..nchains.min(shape[0]) {
        let mut start = vec![0u64; shape.len()];
        start[0] = c;
        let mut sh = shape.clone();
        sh[0] = 1;
        let subset = ArraySubset::new_with_start_shape(start, sh).map_err(|e| format!("{e}"))?;
        let rows: Vec<String> = if n == 0 {
            vec![]
        } else if width == 0 {
            (0..n).map(|_| fill_row(ty, 0)).collect()
        } else {
            let w = width as usize;
            macro_rules! rd {
                ($t:ty, $f:ident) => {{
                    let v: Vec<$t> = array
                        .retrieve_array_subset(&subset)
                        .map_err(|e| format!("read {path}: {e}"))?;
                    if v.len() != (n as usize) * w {
                        return Err(format!("{path}: {} elements for {} rows of width {}", v.len(), n, w));
                    }
                    v.chunks(w).map(|r| $f(r)).collect()
                }};
            }
            match ty {
                ItemType::F64 => rd!(f64, row_f64),
                ItemType::F32 => rd!(f32, row_f32),
                ItemType::U64 => rd!(u64, row_u64),
                ItemType::I64 => rd!(i64, row_i64),
                ItemType::Bool => rd!(bool, row_bool),
                ItemType::String => rd!(String, row_str),
                _ => return Err("unsupported type".into()),
            }
        };
        per_chain.push(J::Array(rows.into_iter().map(|r| json!(it.get(r))).collect()));
    }
    Ok(json!({"n": n, "rows": per_chain}))
}

/// Reads every array of a store copy with a fresh reader: [warmup vars..., sample vars...]
fn read_all(snap: &Snapshot, vars: &[VarMeta], nchains: u64, it: &mut Interner) -> J {
    let mut out = vec![];
    for (gs, gd) in GROUPS.iter() {
        for v in vars {
            let path = format!("/{}/{}", if v.is_stat { gs } else { gd }, v.name);
            match catch(|| read_rows(&snap.store, &path, v.ty, nchains, it)) {
                Ok(Ok(j)) => out.push(j),
                Ok(Err(e)) => out.push(json!({"err": e})),
                Err(p) => out.push(json!({"err": format!("reader panicked: {p}")})),
            }
        }
    }
    J::Array(out)
}

// ---------------------------------------------------------------------------------------------
// the run
// ---------------------------------------------------------------------------------------------
fn build_logp(case: &J) -> TestLogp {
    let dim = ju(case, "dim", 2) as usize;
    let mut l = TestLogp::gaussian(vec![1.0; dim], vec![0.0; dim]);
    if let Some(rf) = case.get("region_fault").and_then(|x| x.as_array()) {
        let thr = rf[0].as_f64().unwrap();
        let f = Fault::parse(rf[1].as_str().unwrap()).unwrap();
        l.region_fault = Some((thr, f));
    }
    if let Some(fs) = case.get("faults").and_then(|x| x.as_array()) {
        for f in fs {
            let k = f[0].as_u64().unwrap();
            let kind = Fault::parse(f[1].as_str().unwrap()).unwrap();
            l.faults.insert(k, kind);
        }
    }
    if let Some(vars) = case.get("schema").and_then(|x| x.as_array()) {
        for v in vars {
            l.schema.vars.push((
                v[0].as_str().unwrap().to_string(),
                v[1].as_str().unwrap().to_string(),
                v[2].as_array().unwrap().iter().map(|d| d.as_str().unwrap().to_string()).collect(),
            ));
        }
    }
    if let Some(ds) = case.get("dim_sizes").and_then(|x| x.as_array()) {
        for d in ds {
            l.schema.dim_sizes.push((d[0].as_str().unwrap().to_string(), d[1].as_u64().unwrap()));
        }
    }
    l
}

fn tmp_root() -> PathBuf {
    let base = std::env::var("VERIF_ZARR_TMP").unwrap_or_else(|_| "/tmp/verif-zarr-tmp".to_string());
    let p = PathBuf::from(base);
    let _ = std::fs::create_dir_all(&p);
    p
}

struct Ctl<'a> {
    case: &'a J,
    backing: &'a Backing,
    tag: String,
    delays: Arc<AtomicBool>,
    gate: Arc<std::sync::RwLock<()>>,
}

impl Ctl<'_> {
    fn snapshot(&self, root: &Path, tag: &str) -> Result<Snapshot, String> {
        let _g = self.gate.write().unwrap();
        self.backing.snapshot(root, tag)
    }
}

fn drive<S, C, CS>(settings: S, config: C, ctl: &Ctl, logp: TestLogp) -> J
where
    S: Settings,
    C: StorageConfig,
    C::Storage: TraceStorage<ChainStorage = CS>,
    CS: ChainStorage<Finalized = HashMap<String, (u64, u64)>>,
{
    let case = ctl.case;
    let nchains = settings.num_chains() as u64;
    let root = tmp_root();
    let mut it = Interner::default();
    let dim = logp.dim;
    let meta_math = CpuMath::new(logp.clone());

    // variables: statistics first, then draw variables (names "draw"/"chain" are skipped by the backend)
    let mut vars: Vec<VarMeta> = vec![];
    {
        let types = settings.stat_types(&meta_math);
        let dims = settings.stat_dims_all(&meta_math);
        let sizes = settings.stat_dim_sizes(&meta_math);
        let evs = settings.stat_event_dims(&meta_math);
        for (((name, ty), (_, ds)), (_, ev)) in types.iter().zip(dims.iter()).zip(evs.iter()) {
            if name == "draw" || name == "chain" {
                continue;
            }
            let width: usize = ds.iter().map(|d| sizes.get(d).copied().unwrap_or(0) as usize).product();
            let fill = it.get(fill_row(*ty, width));
            vars.push(VarMeta { name: name.clone(), is_stat: true, ty: *ty, width, event_dim: ev.clone(), fill });
        }
        use nuts_rs::HasDims;
        let types = settings.data_types(&meta_math);
        let dims = settings.data_dims_all(&meta_math);
        let sizes = logp.dim_sizes();
        for ((name, ty), (_, ds)) in types.iter().zip(dims.iter()) {
            if name == "draw" || name == "chain" {
                continue;
            }
            let width: usize = ds.iter().map(|d| sizes.get(d).copied().unwrap_or(0) as usize).product();
            let fill = it.get(fill_row(*ty, width));
            vars.push(VarMeta { name: name.clone(), is_stat: false, ty: *ty, width, event_dim: None, fill });
        }
    }
    let var_index: HashMap<(bool, String), usize> =
        vars.iter().enumerate().map(|(i, v)| ((v.is_stat, v.name.clone()), i)).collect();
    let vars_json: Vec<J> = vars
        .iter()
        .map(|v| {
            json!({"name": v.name, "stat": v.is_stat, "type": item_type_name(v.ty), "width": v.width,
                   "event_dim": v.event_dim, "fill": v.fill})
        })
        .collect();

    let mut out = json!({"id": case["id"], "vars": vars_json, "nchains": nchains,
                         "n_tune": settings.hint_num_tune(), "n_draws": settings.hint_num_draws()});

    let trace = match catch(|| config.new_trace(&settings, &meta_math)) {
        Err(p) => {
            out["new_trace"] = json!(format!("panic: {p}"));
            return out;
        }
        Ok(Err(e)) => {
            out["new_trace"] = json!(format!("err: {e:?}"));
            return out;
        }
        Ok(Ok(t)) => t,
    };
    out["new_trace"] = json!("ok");
    ctl.delays.store(true, Ordering::SeqCst);

    // chains
    let mut chains = vec![];
    let mut storages: Vec<Option<CS>> = vec![];
    for c in 0..nchains {
        let mut rng = ChaCha8Rng::seed_from_u64(ju(case, "seed", 1).wrapping_add(c * 7919));
        let mut l = logp.clone();
        l.log = Arc::new(Mutex::new(EvalLog::default()));
        l.expand_count = Arc::new(Mutex::new(0));
        if let Some(fs) = case.get("chain_faults").and_then(|x| x.as_array()) {
            // per-chain fault lists override the common one: [[chain, k, kind], ...]
            let mine: Vec<_> = fs.iter().filter(|f| f[0].as_u64() == Some(c)).collect();
            if !mine.is_empty() {
                l.faults.clear();
                for f in mine {
                    l.faults.insert(f[1].as_u64().unwrap(), Fault::parse(f[2].as_str().unwrap()).unwrap());
                }
            }
        }
        let math = CpuMath::new(l);
        let mut chain = settings.new_chain(c, math, &mut rng);
        let init = vec![0.1 + 0.05 * c as f64; dim];
        if let Err(e) = chain.set_position(&init) {
            out["set_position"] = json!(format!("err: {e:?}"));
            return out;
        }
        chains.push(chain);
        match trace.initialize_trace_for_chain(c) {
            Ok(s) => storages.push(Some(s)),
            Err(e) => {
                out["init_chain"] = json!(format!("err: {e:?}"));
                return out;
            }
        }
    }

    // order of records over chains
    let total = (settings.hint_num_tune() + settings.hint_num_draws()) as u64;
    let stop_after: Vec<u64> = case
        .get("stop_after")
        .and_then(|x| x.as_array())
        .map(|a| a.iter().map(|y| y.as_u64().unwrap()).collect())
        .unwrap_or_else(|| vec![total; nchains as usize]);
    let mut order: Vec<u64> = vec![];
    {
        let mut sm = SplitMix(ju(case, "order_seed", 5));
        let mut left: Vec<u64> = (0..nchains).map(|c| stop_after[c as usize].min(total)).collect();
        while left.iter().any(|x| *x > 0) {
            let live: Vec<u64> = (0..nchains).filter(|c| left[*c as usize] > 0).collect();
            let c = live[sm.below(live.len() as u64) as usize];
            left[c as usize] -= 1;
            order.push(c);
        }
    }
    let flush_all = case.get("flush_at").map(|x| x.is_null() || x == "all").unwrap_or(true);
    let flush_at: Vec<u64> = case
        .get("flush_at")
        .and_then(|x| x.as_array())
        .map(|a| a.iter().map(|y| y.as_u64().unwrap()).collect())
        .unwrap_or_default();
    let snap_all = jb(case, "snap_every", true);

    let mut history = vec![];
    let mut snaps = vec![];
    let mut failure: Option<J> = None;
    for (k, &c) in order.iter().enumerate() {
        let chain = &mut chains[c as usize];
        let drawn = catch(|| chain.expanded_draw());
        let (mut expanded, mut stats, progress) = match drawn {
            Err(p) => {
                failure = Some(json!({"k": k, "op": "draw", "panic": p}));
                break;
            }
            Ok(Err(e)) => {
                failure = Some(json!({"k": k, "op": "draw", "err": format!("{e:?}")}));
                break;
            }
            Ok(Ok((_pos, expanded, stats, progress))) => (expanded, stats, progress),
        };
        let math = chain.math();
        let dims = StatsDims::from(&*math);
        let stat_vals = stats.get_all(&dims);
        let draw_vals = expanded.get_all(&*math);
        let mut vals: Vec<J> = vec![J::Null; vars.len()];
        let mut unknown = vec![];
        for (is_stat, list) in [(true, &stat_vals), (false, &draw_vals)] {
            for (name, v) in list.iter() {
                if *name == "draw" || *name == "chain" {
                    continue;
                }
                match var_index.get(&(is_stat, name.to_string())) {
                    Some(i) => {
                        if let Some(v) = v {
                            vals[*i] = json!(it.get(value_row(v)));
                        }
                    }
                    None => unknown.push(name.to_string()),
                }
            }
        }
        history.push(json!({"c": c, "tuning": progress.tuning, "draw": progress.draw, "diverging": progress.diverging,
                            "vals": vals, "unknown": unknown}));
        let st = storages[c as usize].as_mut().unwrap();
        let r = catch(|| st.record_sample(&settings, stat_vals, draw_vals, &progress));
        drop(math);
        match r {
            Err(p) => {
                failure = Some(json!({"k": k, "op": "record_sample", "panic": p}));
                break;
            }
            Ok(Err(e)) => {
                failure = Some(json!({"k": k, "op": "record_sample", "err": format!("{e:?}")}));
                break;
            }
            Ok(Ok(())) => {}
        }
        let do_flush = flush_all || flush_at.contains(&(k as u64));
        if do_flush {
            // every chain is flushed (the sampler's flush() does the same)
            for s in storages.iter() {
                let r = catch(|| s.as_ref().unwrap().flush());
                match r {
                    Err(p) => failure = Some(json!({"k": k, "op": "flush", "panic": p})),
                    Ok(Err(e)) => failure = Some(json!({"k": k, "op": "flush", "err": format!("{e:?}")})),
                    Ok(Ok(())) => {}
                }
            }
            if failure.is_some() {
                break;
            }
        }
        if do_flush || snap_all {
            match ctl.snapshot(&root, &format!("{}-s{k}", ctl.tag)) {
                Ok(s) => {
                    let arrays = read_all(&s, &vars, nchains, &mut it);
                    snaps.push(json!({"k": k, "flushed": do_flush, "arrays": arrays}));
                }
                Err(e) => {
                    failure = Some(json!({"k": k, "op": "snapshot", "err": e}));
                    break;
                }
            }
        }
    }
    out["history"] = J::Array(history);
    out["snaps"] = J::Array(snaps);
    if let Some(f) = failure {
        out["failure"] = f;
        out["tokens"] = json!(it.table);
        return out;
    }
    // finalisation: every chain, then the trace
    let mut fin = vec![];
    let mut counts_json = vec![];
    for (c, s) in storages.iter_mut().enumerate() {
        let st = s.take().unwrap();
        match catch(move || st.finalize()) {
            Err(p) => {
                out["failure"] = json!({"k": order.len(), "op": "chain_finalize", "chain": c, "panic": p});
                out["tokens"] = json!(it.table);
                return out;
            }
            Ok(Err(e)) => {
                out["failure"] = json!({"k": order.len(), "op": "chain_finalize", "chain": c, "err": format!("{e:?}")});
                out["tokens"] = json!(it.table);
                return out;
            }
            Ok(Ok(counts)) => {
                let mut m: Vec<(String, (u64, u64))> = counts.iter().map(|(k, v)| (k.clone(), *v)).collect();
                m.sort();
                counts_json.push(json!(m));
                fin.push(Ok(counts));
            }
        }
    }
    out["chain_counts"] = J::Array(counts_json);
    if jb(case, "snap_before_trace_finalize", true) {
        if let Ok(s) = ctl.snapshot(&root, &format!("{}-pre", ctl.tag)) {
            out["pre_final"] = read_all(&s, &vars, nchains, &mut it);
        }
    }
    match catch(move || trace.finalize(fin)) {
        Err(p) => {
            out["failure"] = json!({"k": order.len(), "op": "trace_finalize", "panic": p});
        }
        Ok(Err(e)) => {
            out["failure"] = json!({"k": order.len(), "op": "trace_finalize", "err": format!("{e:?}")});
        }
        Ok(Ok((err, _))) => {
            if let Some(e) = err {
                out["failure"] = json!({"k": order.len(), "op": "trace_finalize", "err": format!("{e:?}")});
            }
        }
    }
    match ctl.snapshot(&root, &format!("{}-fin", ctl.tag)) {
        Ok(s) => out["final"] = read_all(&s, &vars, nchains, &mut it),
        Err(e) => out["failure"] = json!({"k": order.len(), "op": "snapshot", "err": e}),
    }
    out["tokens"] = json!(it.table);
    out
}

fn with_backend<S: Settings>(settings: S, case: &J, logp: TestLogp) -> J {
    let root = tmp_root();
    let tag = format!("{}-{}", std::process::id(), case["id"].to_string().replace('"', ""));
    let backing = Backing::new(js(case, "store", "mem"), &root, &tag);
    let chunk = ju(case, "chunk", 3);
    let delays = Arc::new(AtomicBool::new(false));
    let gate = Arc::new(std::sync::RwLock::new(()));
    let ctl = Ctl { case, backing: &backing, tag, delays: delays.clone(), gate: gate.clone() };
    let res = match js(case, "backend", "sync") {
        "async" => {
            let threads = ju(case, "rt_threads", 2) as usize;
            let rt = tokio::runtime::Builder::new_multi_thread()
                .worker_threads(threads.max(1))
                .max_blocking_threads(ju(case, "blocking_threads", 8) as usize)
                .enable_all()
                .build()
                .unwrap();
            let spawner = DelaySpawner {
                rng: Arc::new(Mutex::new(SplitMix(ju(case, "lat_seed", 11)))),
                max_us: ju(case, "latency_us", 0),
                enabled: delays,
                gate,
            };
            let inner: Arc<dyn ReadableWritableListableStorageTraits> = backing.dynstore();
            let astore = Arc::new(SyncToAsyncStorageAdapter::new(inner, spawner));
            let mut cfg = ZarrAsyncConfig::new(rt.handle().clone(), astore).with_chunk_size(chunk);
            if let Some(b) = case.get("store_warmup").and_then(|x| x.as_bool()) {
                cfg = cfg.store_warmup(b);
            }
            let r = drive(settings, cfg, &ctl, logp);
            rt.shutdown_timeout(std::time::Duration::from_secs(5));
            r
        }
        _ => {
            let mut cfg = ZarrConfig::new(backing.dynstore()).with_chunk_size(chunk);
            if let Some(b) = case.get("store_warmup").and_then(|x| x.as_bool()) {
                cfg = cfg.store_warmup(b);
            }
            drive(settings, cfg, &ctl, logp)
        }
    };
    backing.cleanup();
    res
}

macro_rules! step_opts {
    ($ss:expr, $case:expr) => {{
        let c = $case;
        match js(c, "method", "default") {
            "dual" => $ss.adapt_options.method = StepSizeAdaptMethod::DualAverage,
            "adam" => $ss.adapt_options.method = StepSizeAdaptMethod::Adam,
            "fixed" => $ss.adapt_options.method = StepSizeAdaptMethod::Fixed(jf(c, "fixed_step", 0.25)),
            _ => {}
        }
        $ss.initial_step = jf(c, "initial_step", $ss.initial_step);
    }};
}

fn run_case(case: &J) -> J {
    let preset = js(case, "preset", "diag_nuts").to_string();
    let logp = build_logp(case);
    let num_tune = ju(case, "num_tune", 5);
    let num_draws = ju(case, "num_draws", 5);
    let nchains = ju(case, "num_chains", 1) as usize;
    let sd = jb(case, "store_divergences", false);
    let extra = jb(case, "store_extra", false);
    match preset.as_str() {
        "diag_nuts" | "lowrank_nuts" | "flow_nuts" => {
            macro_rules! nuts {
                ($t:ty, $flow:expr) => {{
                    let mut s = <$t>::default();
                    s.num_tune = num_tune;
                    s.num_draws = num_draws;
                    s.num_chains = nchains;
                    s.maxdepth = ju(case, "maxdepth", 3);
                    s.store_divergences = sd;
                    s.store_gradient = extra;
                    s.store_unconstrained = extra;
                    s.store_transformed = extra;
                    step_opts!(s.adapt_options.step_size_settings, case);
                    with_backend(s, case, logp)
                }};
            }
            match preset.as_str() {
                "diag_nuts" => nuts!(DiagNutsSettings, false),
                "lowrank_nuts" => nuts!(LowRankNutsSettings, false),
                _ => nuts!(FlowNutsSettings, true),
            }
        }
        "diag_mclmc" | "lowrank_mclmc" | "flow_mclmc" => {
            macro_rules! mclmc {
                ($t:ty) => {{
                    let mut s = <$t>::default();
                    s.num_tune = num_tune;
                    s.num_draws = num_draws;
                    s.num_chains = nchains;
                    s.step_size = jf(case, "fixed_step", 0.25);
                    s.store_divergences = sd;
                    s.store_gradient = extra;
                    s.store_unconstrained = extra;
                    s.store_transformed = extra;
                    with_backend(s, case, logp)
                }};
            }
            match preset.as_str() {
                "diag_mclmc" => mclmc!(DiagMclmcSettings),
                "lowrank_mclmc" => mclmc!(LowRankMclmcSettings),
                _ => {
                    let mut s = FlowMclmcSettings::default();
                    s.num_tune = num_tune;
                    s.num_draws = num_draws;
                    s.num_chains = nchains;
                    s.step_size = jf(case, "fixed_step", 0.25);
                    s.store_divergences = sd;
                    s.store_gradient = extra;
                    s.store_unconstrained = extra;
                    s.store_transformed = extra;
                    s.adapt_options.step_size_settings.adapt_options.method =
                        StepSizeAdaptMethod::Fixed(s.step_size);
                    with_backend(s, case, logp)
                }
            }
        }
        other => json!({"id": case["id"], "error": format!("unknown preset {other}")}),
    }
}

fn main() {
    for case in read_cases() {
        let out = match catch(|| run_case(&case)) {
            Ok(o) => o,
            Err(p) => json!({"id": case["id"], "harness_panic": p}),
        };
        println!("{}", out);
    }
}
