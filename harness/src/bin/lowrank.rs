//! Direct driving of the low-rank mass-matrix estimator and of `LowRankMassMatrix::update` with
//! synthetic windows (hook H1e).  Used by C08.
//!
//! case {"id", "dim", "gamma", "cutoff", "prev_stds", "prev_mean",
//!       "draws": [[bits..]..], "grads": [[bits..]..]}            -> window case
//! case {"id", "dim", "direct": {"stds","mean","vals","vecs","mu"}, "prev_stds", "prev_mean"}
//!                                                               -> direct call of `update`
//! All floating point values are decimal u64 bit patterns (strings) or plain JSON numbers.

use nuts_rs::verif::{LowRankMassMatrix, LowRankMassMatrixStrategy, MassMatrixAdaptStrategy};
use nuts_rs::LowRankSettings;
use serde_json::{Value as J, json};
type WM = verif_harness::wrapmath::WrapMath<TestLogp>;
use verif_harness::*;

fn fb(v: &J) -> f64 {
    match v {
        J::String(s) => f64::from_bits(s.parse::<u64>().unwrap()),
        o => o.as_f64().unwrap(),
    }
}
fn vfb(v: &J) -> Vec<f64> {
    v.as_array().map(|a| a.iter().map(fb).collect()).unwrap_or_default()
}
fn vvfb(v: &J) -> Vec<Vec<f64>> {
    v.as_array().map(|a| a.iter().map(vfb).collect()).unwrap_or_default()
}
fn b(x: f64) -> String {
    x.to_bits().to_string()
}
fn vb(v: &[f64]) -> Vec<String> {
    v.iter().map(|x| b(*x)).collect()
}

type Params = (
    (Vec<f64>, Vec<f64>, Vec<f64>, f64, i64),
    Option<(Vec<f64>, Vec<f64>, Vec<f64>, f64)>,
    f64,
    i64,
);

fn params_json(p: &Params) -> J {
    let ((stds, inv, mean, dlogdet, did), inner, logdet, id) = p;
    json!({
        "stds": vb(stds), "inv_stds": vb(inv), "mean": vb(mean), "diag_logdet": b(*dlogdet), "diag_id": did,
        "inner": inner.as_ref().map(|(vs, vsi, mu, ld)| json!({"vals_sqrt": vb(vs), "vals_sqrt_inv": vb(vsi), "mu": vb(mu), "logdet": b(*ld)})),
        "logdet": b(*logdet), "id": id,
    })
}

/// the transformation applied to a probe point and back (what "in use" means for a scale)
fn probe(math: &mut WM, mm: &LowRankMassMatrix<WM>, x: &[f64], g: &[f64]) -> J {
    use nuts_rs::Math;
    use nuts_rs::verif::Transformation;
    let mut pos = math.new_array();
    math.read_from_slice(&mut pos, x);
    let mut grad = math.new_array();
    math.read_from_slice(&mut grad, g);
    let mut tpos = math.new_array();
    let mut tgrad = math.new_array();
    let logdet = mm.inv_transform_normalize(math, &pos, &grad, &mut tpos, &mut tgrad);
    let tp = math.box_array(&tpos).into_vec();
    let tg = math.box_array(&tgrad).into_vec();
    json!({"tpos": vb(&tp), "tgrad": vb(&tg), "logdet": logdet.ok().map(b)})
}

/// one step on a persistent transformation: `regrad` (update_from_grad), `direct` (update) or a
/// window fed to a fresh estimator followed by `adapt`
fn apply_step(math: &mut WM, mm: &mut LowRankMassMatrix<WM>, case: &J, dim: usize, settings: LowRankSettings) -> J {
    let before: Params = mm.verif_params(math);
    let mut probe_x = vfb(&case["probe_x"]);
    if probe_x.len() != dim {
        probe_x = (0..dim).map(|i| 0.25 + i as f64).collect();
    }
    let mut probe_g = vfb(&case["probe_g"]);
    if probe_g.len() != dim {
        probe_g = vec![0.5; dim];
    }

    if let Some(d) = case.get("regrad") {
        // LowRankMassMatrixStrategy::init / Chain::set_position: update_from_grad with fill 1, clamp (1e-20, 1e20)
        use nuts_rs::Math;
        let (p, g) = (vfb(&d["pos"]), vfb(&d["grad"]));
        let mut pos = math.new_array();
        math.read_from_slice(&mut pos, &p);
        let mut grad = math.new_array();
        math.read_from_slice(&mut grad, &g);
        let r = catch(std::panic::AssertUnwindSafe(|| mm.update_from_grad(math, &pos, &grad, 1f64, (1e-20, 1e20))));
        let after: Params = mm.verif_params(math);
        return json!({"id": case["id"], "before": params_json(&before), "after": params_json(&after), "panic": r.err()});
    }
    if let Some(d) = case.get("direct") {
        let (stds, mean, vals, vecs, mu) = (vfb(&d["stds"]), vfb(&d["mean"]), vfb(&d["vals"]), vvfb(&d["vecs"]), vfb(&d["mu"]));
        let lns: Vec<String> = vals.iter().map(|v| b(v.ln())).collect();
        let r = catch(std::panic::AssertUnwindSafe(|| mm.verif_update(math, &stds, &mean, &vals, &vecs, &mu)));
        let after: Params = mm.verif_params(math);
        let pr = catch(std::panic::AssertUnwindSafe(|| probe(math, mm, &probe_x, &probe_g)));
        return json!({"id": case["id"], "before": params_json(&before), "after": params_json(&after),
                      "panic": r.err(), "ln_vals": lns, "probe": pr.ok()});
    }

    let draws = vvfb(&case["draws"]);
    let grads = vvfb(&case["grads"]);
    let mut strat = LowRankMassMatrixStrategy::new(dim, settings);
    for (d, g) in draws.iter().zip(grads.iter()) {
        strat.verif_push(d.clone(), g.clone());
    }
    let count = <LowRankMassMatrixStrategy as MassMatrixAdaptStrategy<WM>>::current_count(&strat);
    let rs = catch(|| LowRankMassMatrixStrategy::verif_rescale_points(&draws, &grads));
    // (`adapt` never runs the pipeline on fewer than three draws)
    let cu = if count < 3 { Ok(None) } else { catch(|| strat.verif_compute_update()) };
    let r = catch(std::panic::AssertUnwindSafe(|| {
        <LowRankMassMatrixStrategy as MassMatrixAdaptStrategy<WM>>::adapt(&strat, math, mm)
    }));
    let after: Params = mm.verif_params(math);
    let pr = catch(std::panic::AssertUnwindSafe(|| probe(math, mm, &probe_x, &probe_g)));
    let cuj = match &cu {
        Ok(Some((stds, mean, vals, vecs, mu))) => json!({
            "stds": vb(stds), "mean": vb(mean), "vals": vb(vals),
            "vecs": vecs.iter().map(|c| vb(c)).collect::<Vec<_>>(), "mu": vb(mu),
            "ln_vals": vals.iter().map(|v| b(v.ln())).collect::<Vec<_>>(),
        }),
        Ok(None) => json!(null),
        Err(p) => json!({"panic": p}),
    };
    let rsj = match &rs {
        Ok((stds, mu, dm, gm, d, g)) => json!({
            "stds": vb(stds), "mu": vb(mu), "draw_mean": vb(dm), "grad_mean": vb(gm),
            "draws": d.iter().map(|c| vb(c)).collect::<Vec<_>>(), "grads": g.iter().map(|c| vb(c)).collect::<Vec<_>>(),
        }),
        Err(p) => json!({"panic": p}),
    };
    json!({"id": case["id"], "count": count, "before": params_json(&before), "after": params_json(&after),
           "adapt": match &r { Ok(c) => json!(c), Err(p) => json!({"panic": p}) },
           "compute_update": cuj, "rescale": rsj, "probe": pr.ok()})
}

fn run_case(case: &J) -> J {
    let dim = ju(case, "dim", 1) as usize;
    let mut math = WM::new(TestLogp::std_normal(dim));
    let settings = LowRankSettings {
        store_mass_matrix: true,
        gamma: case.get("gamma").map(fb).unwrap_or(1e-5),
        eigval_cutoff: case.get("cutoff").map(fb).unwrap_or(2.0),
    };
    let mut mm = LowRankMassMatrix::new(&mut math, settings);
    let mut prev_stds = vfb(&case["prev_stds"]);
    if prev_stds.len() != dim {
        prev_stds = vec![1.0; dim];
    }
    let mut prev_mean = vfb(&case["prev_mean"]);
    if prev_mean.len() != dim {
        prev_mean = vec![0.0; dim];
    }
    // a valid previous transformation (pure diagonal: no eigenvalues)
    mm.verif_update(&mut math, &prev_stds, &prev_mean, &[], &[], &vec![0.0; dim]);
    if let Some(h) = case.get("history").and_then(|x| x.as_array()) {
        // several steps on the same transformation (each step carries its own gamma / cutoff)
        let steps: Vec<J> = h
            .iter()
            .map(|st| {
                let stg = LowRankSettings {
                    store_mass_matrix: true,
                    gamma: st.get("gamma").map(fb).unwrap_or(settings.gamma),
                    eigval_cutoff: st.get("cutoff").map(fb).unwrap_or(settings.eigval_cutoff),
                };
                apply_step(&mut math, &mut mm, st, dim, stg)
            })
            .collect();
        return json!({"id": case["id"], "steps": steps});
    }
    apply_step(&mut math, &mut mm, case, dim, settings)
}

fn main() {
    for case in read_cases() {
        let o = match catch(|| run_case(&case)) {
            Ok(o) => o,
            Err(p) => json!({"id": case["id"], "harness_panic": p}),
        };
        println!("{}", o);
    }
}
