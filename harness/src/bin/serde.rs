//! C19: settings survive serialisation and reproduce the same chain.
//!
//! Per case (preset, value seed, mode) this binary
//!  (a) builds a settings value of the preset by *direct field assignment* (no serde involved),
//!      dumps every leaf field by direct field access ("fields"), and prints
//!      `serde_json::to_value(&settings)` as a canonical tree ("json": objects as ordered member
//!      lists, floats as bit patterns) and `serde_json::to_string(&settings)` ("text");
//!  (b) round-trips through `from_value` (and through text `from_str`) and dumps the fields of the
//!      results again ("rt_fields", "text_rt_fields") plus `to_value` of the round-tripped value;
//!  (c) mode "run": builds two chains with `Settings::new_chain`, one from the original and one
//!      from the round-tripped settings, same RNG seed, and logs every draw bitwise;
//!  (d) with "zarr": runs the real `Sampler` with the Zarr backend on a memory store and reads the
//!      root group attributes back ("zarr").
//! Probes ("probe" cases) feed hand-modified JSON text to `from_str` to tie the decoder model.

use std::{collections::HashMap, fmt::Debug, sync::Arc, time::Duration};

use nuts_rs::{
    Chain, CpuMath, DiagAdaptExpSettings, DiagMclmcSettings, DiagNutsSettings,
    EuclideanAdaptOptions, FlowMclmcSettings, FlowNutsSettings, FlowSettings, KineticEnergyKind,
    LowRankMclmcSettings, LowRankNutsSettings, LowRankSettings, MclmcSettings,
    MclmcTrajectoryKind, Model, NutsSettings, Sampler, SamplerWaitResult, Settings,
    StepSizeAdaptMethod, StepSizeAdaptOptions, StepSizeSettings, ZarrConfig,
    rand::{Rng, SeedableRng, rngs::ChaCha8Rng},
};
use serde::Serialize;
use serde_json::{Value as J, json};
use verif_harness::*;
use zarrs::storage::store::MemoryStore;

// ---------------------------------------------------------------------------------------------
// value generator
// ---------------------------------------------------------------------------------------------
struct G {
    sm: SplitMix,
    wild: bool,
    hints: HashMap<String, u64>,
}

const WILD_F64_BITS: [u64; 16] = [
    0x0000_0000_0000_0001, // 5e-324, smallest subnormal
    0x000F_FFFF_FFFF_FFFF, // largest subnormal
    0x0010_0000_0000_0000, // smallest normal
    0x7FEF_FFFF_FFFF_FFFF, // f64::MAX
    0x7FE1_CCF3_85EB_C8A0, // 1e308
    0x8000_0000_0000_0000, // -0.0
    0x0000_0000_0000_0000, // 0.0
    0x3FB9_9999_9999_999A, // 0.1
    0xBFB9_9999_9999_999A, // -0.1
    0x3FD5_5555_5555_5555, // 1/3
    0x01A5_6E1F_C2F8_F359, // 1e-300
    0xFFE1_CCF3_85EB_C8A0, // -1e308
    0x4340_0000_0000_0001, // 2^53 + 2
    0x3FF0_0000_0000_0001, // 1 + ulp
    0x4059_0000_0000_0000, // 100.0 (integral float: must stay a float token)
    0x41D2_6580_B487_E6B7, // 1234567890.1234567
];

impl G {
    fn wild_f64(&mut self) -> f64 {
        let k = self.sm.below(24);
        if (k as usize) < WILD_F64_BITS.len() {
            f64::from_bits(WILD_F64_BITS[k as usize])
        } else {
            let mut b = self.sm.next();
            if (b >> 52) & 0x7FF == 0x7FF {
                b &= !(1u64 << 52); // keep it finite
            }
            f64::from_bits(b)
        }
    }
    fn wild_u64(&mut self) -> u64 {
        match self.sm.below(10) {
            0 => 0,
            1 => 1,
            2 => u64::MAX,
            3 => 1u64 << 63,
            4 => (1u64 << 53) + 1,
            5 => u32::MAX as u64 + 1,
            6 => u64::MAX - 1,
            _ => self.sm.next(),
        }
    }
    fn f(&mut self, lo: f64, hi: f64) -> f64 {
        if self.wild {
            self.wild_f64()
        } else {
            lo + (hi - lo) * self.sm.unit()
        }
    }
    fn u(&mut self, lo: u64, hi: u64) -> u64 {
        if self.wild {
            self.wild_u64()
        } else {
            lo + self.sm.below(hi - lo + 1)
        }
    }
    fn us(&mut self, lo: u64, hi: u64) -> usize {
        self.u(lo, hi) as usize
    }
    fn b(&mut self) -> bool {
        self.sm.below(2) == 1
    }
    /// choice among n alternatives; a hint of the case overrides the random choice
    fn pick(&mut self, key: &str, n: u64) -> u64 {
        let r = self.sm.below(n);
        match self.hints.get(key) {
            Some(h) => h % n,
            None => r,
        }
    }
    fn of(&mut self, key: &str, lo: f64, hi: f64) -> Option<f64> {
        let some = self.pick(key, 3) != 0;
        let v = self.f(lo, hi);
        if some { Some(v) } else { None }
    }
}

// ---------------------------------------------------------------------------------------------
// direct field access: generation and dump, written out by hand for every settings type
// ---------------------------------------------------------------------------------------------
fn d_u64(out: &mut Vec<J>, p: &str, n: &str, v: u64) {
    out.push(json!([format!("{p}{n}"), "u64", v.to_string()]));
}
fn d_usize(out: &mut Vec<J>, p: &str, n: &str, v: usize) {
    out.push(json!([format!("{p}{n}"), "usize", (v as u128).to_string()]));
}
fn d_f64(out: &mut Vec<J>, p: &str, n: &str, v: f64) {
    out.push(json!([format!("{p}{n}"), "f64", v.to_bits().to_string()]));
}
fn d_bool(out: &mut Vec<J>, p: &str, n: &str, v: bool) {
    out.push(json!([format!("{p}{n}"), "bool", v]));
}
fn d_optf(out: &mut Vec<J>, p: &str, n: &str, v: Option<f64>) {
    out.push(json!([format!("{p}{n}"), "opt_f64", v.map(|x| x.to_bits().to_string())]));
}
fn d_enum(out: &mut Vec<J>, p: &str, n: &str, variant: &str, payload: Option<f64>) {
    out.push(json!([format!("{p}{n}"), "enum", variant, payload.map(|x| x.to_bits().to_string())]));
}

trait Fields {
    fn fill(&mut self, g: &mut G);
    fn dump(&self, p: &str, out: &mut Vec<J>);
    /// put one non-finite float into the value (outside the property's range; informational)
    fn set_nonfinite(&mut self) {}
}

impl Fields for StepSizeAdaptOptions {
    fn fill(&mut self, g: &mut G) {
        self.method = match g.pick("method", 3) {
            0 => StepSizeAdaptMethod::DualAverage,
            1 => StepSizeAdaptMethod::Adam,
            _ => StepSizeAdaptMethod::Fixed(g.f(0.05, 0.6)),
        };
        self.dual_average.k = g.f(0.5, 1.0);
        self.dual_average.t0 = g.f(1.0, 20.0);
        self.dual_average.gamma = g.f(0.01, 0.2);
        self.dual_average.max_step_size = g.f(0.5, 10.0);
        self.adam.beta1 = g.f(0.5, 0.99);
        self.adam.beta2 = g.f(0.9, 0.9999);
        self.adam.epsilon = g.f(1e-10, 1e-6);
        self.adam.learning_rate = g.f(0.001, 0.2);
    }
    fn dump(&self, p: &str, out: &mut Vec<J>) {
        match self.method {
            StepSizeAdaptMethod::DualAverage => d_enum(out, p, "method", "DualAverage", None),
            StepSizeAdaptMethod::Adam => d_enum(out, p, "method", "Adam", None),
            StepSizeAdaptMethod::Fixed(x) => d_enum(out, p, "method", "Fixed", Some(x)),
        }
        let q = format!("{p}dual_average.");
        d_f64(out, &q, "k", self.dual_average.k);
        d_f64(out, &q, "t0", self.dual_average.t0);
        d_f64(out, &q, "gamma", self.dual_average.gamma);
        d_f64(out, &q, "max_step_size", self.dual_average.max_step_size);
        let q = format!("{p}adam.");
        d_f64(out, &q, "beta1", self.adam.beta1);
        d_f64(out, &q, "beta2", self.adam.beta2);
        d_f64(out, &q, "epsilon", self.adam.epsilon);
        d_f64(out, &q, "learning_rate", self.adam.learning_rate);
    }
}

impl Fields for StepSizeSettings {
    fn fill(&mut self, g: &mut G) {
        self.target_accept = g.f(0.5, 0.95);
        self.initial_step = g.f(0.01, 1.0);
        self.jitter = g.of("jitter", 0.01, 0.5);
        self.adapt_options.fill(g);
    }
    fn dump(&self, p: &str, out: &mut Vec<J>) {
        d_f64(out, p, "target_accept", self.target_accept);
        d_f64(out, p, "initial_step", self.initial_step);
        d_optf(out, p, "jitter", self.jitter);
        self.adapt_options.dump(&format!("{p}adapt_options."), out);
    }
}

impl Fields for DiagAdaptExpSettings {
    fn fill(&mut self, g: &mut G) {
        self.store_mass_matrix = g.b();
        self.use_grad_based_estimate = g.b();
    }
    fn dump(&self, p: &str, out: &mut Vec<J>) {
        d_bool(out, p, "store_mass_matrix", self.store_mass_matrix);
        d_bool(out, p, "use_grad_based_estimate", self.use_grad_based_estimate);
    }
}

impl Fields for LowRankSettings {
    fn fill(&mut self, g: &mut G) {
        self.store_mass_matrix = g.b();
        self.gamma = g.f(1e-7, 1e-3);
        self.eigval_cutoff = g.f(1.5, 10.0);
    }
    fn dump(&self, p: &str, out: &mut Vec<J>) {
        d_bool(out, p, "store_mass_matrix", self.store_mass_matrix);
        d_f64(out, p, "gamma", self.gamma);
        d_f64(out, p, "eigval_cutoff", self.eigval_cutoff);
    }
}

impl<S: Fields + Debug + Default> Fields for EuclideanAdaptOptions<S> {
    fn fill(&mut self, g: &mut G) {
        self.step_size_settings.fill(g);
        self.mass_matrix_options.fill(g);
        self.early_window = g.f(0.0, 0.9);
        self.step_size_window = g.f(0.0, 1.0);
        self.mass_matrix_switch_freq = g.u(1, 100);
        self.early_mass_matrix_switch_freq = g.u(1, 20);
        self.mass_matrix_update_freq = g.u(1, 20);
        self.mass_matrix_window_growth = g.f(1.0, 3.0);
    }
    fn dump(&self, p: &str, out: &mut Vec<J>) {
        self.step_size_settings.dump(&format!("{p}step_size_settings."), out);
        self.mass_matrix_options.dump(&format!("{p}mass_matrix_options."), out);
        d_f64(out, p, "early_window", self.early_window);
        d_f64(out, p, "step_size_window", self.step_size_window);
        d_u64(out, p, "mass_matrix_switch_freq", self.mass_matrix_switch_freq);
        d_u64(out, p, "early_mass_matrix_switch_freq", self.early_mass_matrix_switch_freq);
        d_u64(out, p, "mass_matrix_update_freq", self.mass_matrix_update_freq);
        d_f64(out, p, "mass_matrix_window_growth", self.mass_matrix_window_growth);
    }
}

impl Fields for FlowSettings {
    fn fill(&mut self, g: &mut G) {
        self.step_size_window = g.f(0.0, 0.5);
        self.transform_update_freq = g.u(1, 200);
        self.use_orbit_for_training = g.b();
        self.step_size_settings.fill(g);
        self.transform_train_max_energy_error = g.f(5.0, 100.0);
    }
    fn dump(&self, p: &str, out: &mut Vec<J>) {
        d_f64(out, p, "step_size_window", self.step_size_window);
        d_u64(out, p, "transform_update_freq", self.transform_update_freq);
        d_bool(out, p, "use_orbit_for_training", self.use_orbit_for_training);
        self.step_size_settings.dump(&format!("{p}step_size_settings."), out);
        d_f64(out, p, "transform_train_max_energy_error", self.transform_train_max_energy_error);
    }
}

impl<A: Fields + Debug + Copy + Default + Serialize> Fields for NutsSettings<A> {
    fn fill(&mut self, g: &mut G) {
        self.num_tune = g.u(0, 10);
        self.num_draws = g.u(1, 5);
        self.maxdepth = g.u(1, 4);
        self.mindepth = g.u(0, 1);
        self.store_gradient = g.b();
        self.store_unconstrained = g.b();
        self.store_transformed = g.b();
        self.max_energy_error = g.f(10.0, 2000.0);
        self.store_divergences = g.b();
        self.adapt_options.fill(g);
        self.check_turning = g.b();
        self.target_integration_time = g.of("tit", 0.5, 3.0);
        self.trajectory_kind = match g.pick("kind", 3) {
            0 => KineticEnergyKind::Euclidean,
            1 => KineticEnergyKind::ExactNormal,
            _ => KineticEnergyKind::Microcanonical,
        };
        self.num_chains = g.us(1, 3);
        self.seed = g.u(0, u64::MAX - 1);
        self.extra_doublings = g.u(0, 2);
    }
    fn set_nonfinite(&mut self) {
        self.max_energy_error = f64::INFINITY;
    }
    fn dump(&self, p: &str, out: &mut Vec<J>) {
        d_u64(out, p, "num_tune", self.num_tune);
        d_u64(out, p, "num_draws", self.num_draws);
        d_u64(out, p, "maxdepth", self.maxdepth);
        d_u64(out, p, "mindepth", self.mindepth);
        d_bool(out, p, "store_gradient", self.store_gradient);
        d_bool(out, p, "store_unconstrained", self.store_unconstrained);
        d_bool(out, p, "store_transformed", self.store_transformed);
        d_f64(out, p, "max_energy_error", self.max_energy_error);
        d_bool(out, p, "store_divergences", self.store_divergences);
        self.adapt_options.dump(&format!("{p}adapt_options."), out);
        d_bool(out, p, "check_turning", self.check_turning);
        d_optf(out, p, "target_integration_time", self.target_integration_time);
        let k = match self.trajectory_kind {
            KineticEnergyKind::Euclidean => "Euclidean",
            KineticEnergyKind::ExactNormal => "ExactNormal",
            KineticEnergyKind::Microcanonical => "Microcanonical",
        };
        d_enum(out, p, "trajectory_kind", k, None);
        d_usize(out, p, "num_chains", self.num_chains);
        d_u64(out, p, "seed", self.seed);
        d_u64(out, p, "extra_doublings", self.extra_doublings);
    }
}

impl<A: Fields + Debug + Copy + Default + Serialize> Fields for MclmcSettings<A> {
    fn fill(&mut self, g: &mut G) {
        self.step_size = g.f(0.05, 0.6);
        self.momentum_decoherence_length = g.f(0.5, 5.0);
        self.num_tune = g.u(0, 10);
        self.num_draws = g.u(1, 5);
        self.num_chains = g.us(1, 3);
        self.seed = g.u(0, u64::MAX - 1);
        self.max_energy_error = g.f(10.0, 2000.0);
        self.store_unconstrained = g.b();
        self.store_gradient = g.b();
        self.store_transformed = g.b();
        self.store_divergences = g.b();
        self.adapt_options.fill(g);
        self.subsample_frequency = g.f(0.0, 1.5);
        self.dynamic_step_size = g.b();
        self.trajectory_kind = match g.pick("kind", 3) {
            0 => MclmcTrajectoryKind::Microcanonical,
            1 => MclmcTrajectoryKind::Euclidean,
            _ => MclmcTrajectoryKind::EuclideanEarlyThenMicrocanonical,
        };
        self.trajectory_switch_fraction = g.f(0.0, 1.0);
    }
    fn set_nonfinite(&mut self) {
        // documented value: "Set to f64::INFINITY to disable momentum refresh entirely"
        self.momentum_decoherence_length = f64::INFINITY;
    }
    fn dump(&self, p: &str, out: &mut Vec<J>) {
        d_f64(out, p, "step_size", self.step_size);
        d_f64(out, p, "momentum_decoherence_length", self.momentum_decoherence_length);
        d_u64(out, p, "num_tune", self.num_tune);
        d_u64(out, p, "num_draws", self.num_draws);
        d_usize(out, p, "num_chains", self.num_chains);
        d_u64(out, p, "seed", self.seed);
        d_f64(out, p, "max_energy_error", self.max_energy_error);
        d_bool(out, p, "store_unconstrained", self.store_unconstrained);
        d_bool(out, p, "store_gradient", self.store_gradient);
        d_bool(out, p, "store_transformed", self.store_transformed);
        d_bool(out, p, "store_divergences", self.store_divergences);
        self.adapt_options.dump(&format!("{p}adapt_options."), out);
        d_f64(out, p, "subsample_frequency", self.subsample_frequency);
        d_bool(out, p, "dynamic_step_size", self.dynamic_step_size);
        let k = match self.trajectory_kind {
            MclmcTrajectoryKind::Microcanonical => "Microcanonical",
            MclmcTrajectoryKind::Euclidean => "Euclidean",
            MclmcTrajectoryKind::EuclideanEarlyThenMicrocanonical => "EuclideanEarlyThenMicrocanonical",
        };
        d_enum(out, p, "trajectory_kind", k, None);
        d_f64(out, p, "trajectory_switch_fraction", self.trajectory_switch_fraction);
    }
}

fn dump_all<S: Fields>(s: &S) -> J {
    let mut out = vec![];
    s.dump("", &mut out);
    J::Array(out)
}

// ---------------------------------------------------------------------------------------------
// canonical JSON tree: objects as ordered member lists, numbers as tokens
// ---------------------------------------------------------------------------------------------
fn canon(v: &J) -> J {
    match v {
        J::Null => J::Null,
        J::Bool(b) => json!({"b": b}),
        J::String(s) => json!({"s": s}),
        J::Number(n) => {
            if let Some(u) = n.as_u64() {
                json!({"u": u.to_string()})
            } else if n.is_f64() {
                json!({"f": n.as_f64().unwrap().to_bits().to_string()})
            } else {
                json!({"i": n.to_string()})
            }
        }
        J::Array(a) => json!({"a": a.iter().map(canon).collect::<Vec<_>>()}),
        J::Object(m) => json!({"o": m.iter().map(|(k, x)| json!([k, canon(x)])).collect::<Vec<_>>()}),
    }
}

// ---------------------------------------------------------------------------------------------
// (c) chains
// ---------------------------------------------------------------------------------------------
fn test_logp() -> TestLogp {
    TestLogp::gaussian(vec![1.0, 4.0, 0.25], vec![0.1, -0.2, 0.3])
}

fn run_chain<S: Settings>(s: &S, chain_seed: u64, max_draws: u64) -> J {
    let total = ((s.hint_num_tune() + s.hint_num_draws()) as u64).min(max_draws);
    let s = *s;
    let built = catch(move || {
        let mut rng = ChaCha8Rng::seed_from_u64(chain_seed);
        let math = CpuMath::new(test_logp());
        s.new_chain(3, math, &mut rng)
    });
    let mut chain = match built {
        Err(p) => return json!({"new_chain": format!("panic: {p}")}),
        Ok(c) => c,
    };
    match catch(|| chain.set_position(&[0.3, -0.1, 0.2])) {
        Err(p) => return json!({"new_chain": "ok", "set_position": format!("panic: {p}")}),
        Ok(Err(e)) => return json!({"new_chain": "ok", "set_position": format!("err: {e:?}")}),
        Ok(Ok(())) => {}
    }
    let mut draws = vec![];
    for _ in 0..total {
        match catch(|| chain.draw()) {
            Err(p) => {
                draws.push(json!({"panic": p}));
                break;
            }
            Ok(Err(e)) => {
                draws.push(json!({"err": format!("{e:?}")}));
                break;
            }
            Ok(Ok((pos, pr))) => {
                draws.push(json!({
                    "pos": pos.iter().map(|x| x.to_bits().to_string()).collect::<Vec<_>>(),
                    "step": pr.step_size.to_bits().to_string(),
                    "tuning": pr.tuning, "diverging": pr.diverging, "num_steps": pr.num_steps,
                }));
                if pr.num_steps > 20_000 {
                    // MCLMC with a collapsed step size takes up to 10^6 leapfrog steps per draw;
                    // the comparison stops here (deterministically, for both chains alike)
                    draws.push(json!({"stopped": "num_steps > 20000"}));
                    break;
                }
            }
        }
    }
    json!({"new_chain": "ok", "set_position": "ok", "draws": draws})
}

// ---------------------------------------------------------------------------------------------
// (d) Zarr
// ---------------------------------------------------------------------------------------------
struct TestModel {
    logp: TestLogp,
}
impl Model for TestModel {
    type Math<'m> = CpuMath<TestLogp>;
    fn math<R: Rng + ?Sized>(&self, _rng: &mut R) -> anyhow::Result<Self::Math<'_>> {
        let mut l = self.logp.clone();
        // every chain gets its own evaluation log
        l.log = Arc::new(std::sync::Mutex::new(EvalLog::default()));
        l.expand_count = Arc::new(std::sync::Mutex::new(0));
        Ok(CpuMath::new(l))
    }
    fn init_position<R: Rng + ?Sized>(&self, _rng: &mut R, position: &mut [f64]) -> anyhow::Result<()> {
        for (i, p) in position.iter_mut().enumerate() {
            *p = [0.3, -0.1, 0.2][i % 3];
        }
        Ok(())
    }
}

fn run_to_end<S: Settings>(s: S, store: Arc<MemoryStore>) -> Result<String, String> {
    let cfg = ZarrConfig::new(store);
    let model = TestModel { logp: test_logp() };
    let mut sampler = Sampler::new(model, s, cfg, 2, None).map_err(|e| format!("{e:?}"))?;
    let t0 = std::time::Instant::now();
    loop {
        match sampler.wait_timeout(Duration::from_millis(200)) {
            SamplerWaitResult::Trace(_) => return Ok("ok".to_string()),
            SamplerWaitResult::Timeout(sm) => {
                if t0.elapsed() > Duration::from_secs(60) {
                    let _ = sm.abort();
                    return Err("timeout".to_string());
                }
                sampler = sm
            }
            SamplerWaitResult::Err(e, _) => return Err(format!("{e:?}")),
        }
    }
}

fn run_zarr<S: Settings + Fields + Default>(s: &S, reuse: bool) -> J {
    let store = Arc::new(MemoryStore::new());
    let mut prior = J::Null;
    if reuse {
        // an earlier run with other settings (the preset's defaults) wrote into the same store
        let st = store.clone();
        prior = match catch(move || run_to_end(S::default(), st)) {
            Ok(Ok(x)) => J::String(x),
            Ok(Err(e)) => J::String(format!("err: {e}")),
            Err(p) => J::String(format!("panic: {p}")),
        };
    }
    let cfg = ZarrConfig::new(store.clone());
    let model = TestModel { logp: test_logp() };
    let s2 = *s;
    let outcome = catch(move || -> Result<String, String> {
        let mut sampler = Sampler::new(model, s2, cfg, 2, None).map_err(|e| format!("{e:?}"))?;
        let t0 = std::time::Instant::now();
        loop {
            match sampler.wait_timeout(Duration::from_millis(200)) {
                SamplerWaitResult::Trace(_) => return Ok("ok".to_string()),
                SamplerWaitResult::Timeout(sm) => {
                    if t0.elapsed() > Duration::from_secs(60) {
                        let _ = sm.abort();
                        return Err("timeout".to_string());
                    }
                    sampler = sm
                }
                SamplerWaitResult::Err(e, _) => return Err(format!("{e:?}")),
            }
        }
    });
    let sampler_result = match outcome {
        Ok(Ok(s)) => s,
        Ok(Err(e)) => format!("err: {e}"),
        Err(p) => format!("panic: {p}"),
    };
    let group = zarrs::group::Group::open(store.clone(), "/");
    let group = match group {
        Ok(g) => g,
        Err(e) => return json!({"sampler": sampler_result, "open": format!("err: {e:?}")}),
    };
    let attrs = group.attributes();
    let stored = attrs.get("sampler_settings").cloned();
    let mut out = json!({
        "sampler": sampler_result,
        "prior_run": prior,
        "open": "ok",
        "attr_keys": attrs.keys().cloned().collect::<Vec<_>>(),
        "sampler_kind": attrs.get("sampler_kind").cloned(),
        "adaptation_kind": attrs.get("adaptation_kind").cloned(),
        "expected_sampler_kind": s.sampler_name(),
        "expected_adaptation_kind": s.adaptation_name(),
        "stored": stored.as_ref().map(canon),
    });
    if let Some(st) = stored {
        match serde_json::from_value::<S>(st) {
            Ok(back) => out["stored_fields"] = dump_all(&back),
            Err(e) => out["stored_decode_error"] = J::String(format!("{e}")),
        }
    }
    out
}

// ---------------------------------------------------------------------------------------------
// cases
// ---------------------------------------------------------------------------------------------
fn run_case<S: Settings + Fields>(case: &J) -> J {
    let mode = js(case, "mode", "wild");
    let mut s = S::default();
    if mode != "default" {
        let mut hints = HashMap::new();
        if let Some(h) = case.get("hints").and_then(|x| x.as_object()) {
            for (k, v) in h {
                hints.insert(k.clone(), v.as_u64().unwrap_or(0));
            }
        }
        let mut g = G { sm: SplitMix(ju(case, "vseed", 1)), wild: mode == "wild", hints };
        s.fill(&mut g);
        if g.hints.contains_key("nonfinite") {
            s.set_nonfinite();
        }
    }
    let mut out = json!({"id": case["id"], "preset": case["preset"], "mode": mode});
    out["fields"] = dump_all(&s);

    if mode == "probe" {
        // decoder probes: hand-modified JSON text through from_str
        let text = js(case, "text", "");
        out["probe"] = match serde_json::from_str::<S>(text) {
            Ok(v) => json!({"ok": true, "fields": dump_all(&v)}),
            Err(e) => json!({"ok": false, "error": format!("{e}")}),
        };
        return out;
    }

    // (a)
    let value = match serde_json::to_value(&s) {
        Ok(v) => v,
        Err(e) => {
            out["to_value_error"] = J::String(format!("{e}"));
            return out;
        }
    };
    out["json"] = canon(&value);
    let text = match serde_json::to_string(&s) {
        Ok(t) => t,
        Err(e) => {
            out["to_string_error"] = J::String(format!("{e}"));
            return out;
        }
    };
    out["text"] = J::String(text.clone());

    // (b)
    let rt: Option<S> = match serde_json::from_value::<S>(value.clone()) {
        Ok(r) => {
            out["rt_fields"] = dump_all(&r);
            match serde_json::to_value(&r) {
                Ok(v2) => {
                    out["rt_json_equal"] = J::Bool(v2 == value);
                    out["rt_json"] = canon(&v2);
                }
                Err(e) => out["rt_to_value_error"] = J::String(format!("{e}")),
            }
            Some(r)
        }
        Err(e) => {
            out["from_value_error"] = J::String(format!("{e}"));
            None
        }
    };
    match serde_json::from_str::<S>(&text) {
        Ok(r) => out["text_rt_fields"] = dump_all(&r),
        Err(e) => out["from_str_error"] = J::String(format!("{e}")),
    }
    // text -> Value -> S (the route the Zarr metadata takes when it is read back)
    match serde_json::from_str::<J>(&text) {
        Ok(v) => {
            out["text_value_equal"] = J::Bool(v == value);
            match serde_json::from_value::<S>(v) {
                Ok(r) => out["text_value_rt_fields"] = dump_all(&r),
                Err(e) => out["text_value_error"] = J::String(format!("{e}")),
            }
        }
        Err(e) => out["text_parse_error"] = J::String(format!("{e}")),
    }

    // (c)
    if (mode == "run" && !jb(case, "norun", false)) || (mode == "default" && jb(case, "chain", false)) {
        let seed = ju(case, "chain_seed", 7);
        let max_draws = ju(case, "max_draws", 64);
        out["chain_orig"] = run_chain(&s, seed, max_draws);
        if let Some(r) = rt.as_ref() {
            out["chain_rt"] = run_chain(r, seed, max_draws);
        }
        if jb(case, "control", false) {
            // control experiment: a chain from settings that differ in ONE low-order bit of a
            // float must be distinguishable by the comparison (non-vacuity of the oracle)
            out["chain_other_seed"] = run_chain(&s, seed.wrapping_add(1), max_draws);
        }
    }
    // (d)
    if jb(case, "zarr", false) {
        out["zarr"] = run_zarr(&s, jb(case, "zarr_reuse", false));
    }
    out
}

fn main() {
    for case in read_cases() {
        let preset = js(&case, "preset", "").to_string();
        let r = catch(|| match preset.as_str() {
            "DiagNutsSettings" => run_case::<DiagNutsSettings>(&case),
            "LowRankNutsSettings" => run_case::<LowRankNutsSettings>(&case),
            "FlowNutsSettings" => run_case::<FlowNutsSettings>(&case),
            "DiagMclmcSettings" => run_case::<DiagMclmcSettings>(&case),
            "LowRankMclmcSettings" => run_case::<LowRankMclmcSettings>(&case),
            "FlowMclmcSettings" => run_case::<FlowMclmcSettings>(&case),
            other => json!({"id": case["id"], "error": format!("unknown preset {other}")}),
        });
        match r {
            Ok(j) => println!("{j}"),
            Err(p) => println!("{}", json!({"id": case["id"], "panic": p})),
        }
    }
}
