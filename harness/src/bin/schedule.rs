//! Runs single chains of every preset through the public API and logs, per draw, the observable
//! schedule facts (tuning flags, step sizes, transformation ids, estimator counts).
//! Used by C06, C09 (and parts of C07, C16).

use nuts_rs::{
    Chain, CpuMath, DiagMclmcSettings, DiagNutsSettings, FlowMclmcSettings, FlowNutsSettings,
    LowRankMclmcSettings, LowRankNutsSettings, Settings, StepSizeAdaptMethod, Storable,
    rand::{SeedableRng, rngs::ChaCha8Rng},
};
use nuts_rs::verif::Hamiltonian as _;
use serde_json::{Value as J, json};
use verif_harness::*;

fn bits(x: f64) -> String {
    x.to_bits().to_string()
}

fn build_logp(case: &J) -> TestLogp {
    let dim = ju(case, "dim", 2) as usize;
    let mut prec = jvf(case, "prec");
    if prec.len() != dim {
        prec = vec![1.0; dim];
    }
    let mut mu = jvf(case, "mu");
    if mu.len() != dim {
        mu = vec![0.0; dim];
    }
    let mut l = TestLogp::gaussian(prec, mu);
    let dp = jvf(case, "dense_prec");
    if dp.len() == dim * dim && dim > 0 {
        l.dense_prec = Some(dp);
    }
    if let Some(rf) = case.get("region_fault").and_then(|x| x.as_array()) {
        let thr = rf[0].as_f64().unwrap();
        let f = Fault::parse(rf[1].as_str().unwrap()).unwrap();
        l.region_fault = Some((thr, f));
    }
    if let Some(fs) = case.get("faults").and_then(|x| x.as_array()) {
        for f in fs {
            let k = f[0].as_u64().unwrap();
            let kind = Fault::parse(f[1].as_str().unwrap()).unwrap();
            l.faults.insert(k, kind);
        }
    }
    l
}

macro_rules! apply_euclid_opts {
    ($s:expr, $case:expr) => {{
        let c = $case;
        $s.adapt_options.early_window = jf(c, "early_window", $s.adapt_options.early_window);
        $s.adapt_options.step_size_window =
            jf(c, "step_size_window", $s.adapt_options.step_size_window);
        $s.adapt_options.mass_matrix_switch_freq =
            ju(c, "switch_freq", $s.adapt_options.mass_matrix_switch_freq);
        $s.adapt_options.early_mass_matrix_switch_freq = ju(
            c,
            "early_switch_freq",
            $s.adapt_options.early_mass_matrix_switch_freq,
        );
        $s.adapt_options.mass_matrix_update_freq =
            ju(c, "update_freq", $s.adapt_options.mass_matrix_update_freq);
        $s.adapt_options.mass_matrix_window_growth =
            jf(c, "growth", $s.adapt_options.mass_matrix_window_growth);
        apply_step_opts!($s.adapt_options.step_size_settings, c);
    }};
}

macro_rules! apply_step_opts {
    ($ss:expr, $case:expr) => {{
        let c = $case;
        match js(c, "method", "default") {
            "dual" => $ss.adapt_options.method = StepSizeAdaptMethod::DualAverage,
            "adam" => $ss.adapt_options.method = StepSizeAdaptMethod::Adam,
            "fixed" => {
                $ss.adapt_options.method = StepSizeAdaptMethod::Fixed(jf(c, "fixed_step", 0.25))
            }
            _ => {}
        }
        if let Some(j) = c.get("jitter") {
            $ss.jitter = j.as_f64();
        }
        $ss.target_accept = jf(c, "target_accept", $ss.target_accept);
        $ss.initial_step = jf(c, "initial_step", $ss.initial_step);
    }};
}

fn run_draws<M: nuts_rs::Math, C: Chain<M>>(
    chain: &mut C,
    total: u64,
    mut hook: impl FnMut(&C) -> J,
    logp_log: &std::sync::Arc<std::sync::Mutex<EvalLog>>,
) -> Vec<J> {
    let mut out = vec![];
    for _ in 0..total {
        let before_updates = logp_log.lock().unwrap().flow_updates;
        let r = catch(|| chain.expanded_draw());
        match r {
            Err(p) => {
                out.push(json!({"panic": p}));
                break;
            }
            Ok(Err(e)) => {
                out.push(json!({"err": format!("{e:?}")}));
                break;
            }
            Ok(Ok((pos, _expanded, mut stats, progress))) => {
                let math = chain.math();
                let dims = nuts_rs::verif::StatsDims::from(&*math);
                let all = stats.get_all(&dims);
                let after_updates = logp_log.lock().unwrap().flow_updates;
                let d = json!({
                    "draw": progress.draw,
                    "tuning": progress.tuning,
                    "diverging": progress.diverging,
                    "step_size": bits(progress.step_size),
                    "num_steps": progress.num_steps,
                    "stat_tuning": stat_i64(&all, "tuning"),
                    "stat_draw": stat_i64(&all, "draw"),
                    "stat_step_size": stat_f64(&all, "step_size").map(bits),
                    "step_size_bar": stat_f64(&all, "step_size_bar").map(bits),
                    "mean_tree_accept": stat_f64(&all, "mean_tree_accept").map(bits),
                    "mean_tree_accept_sym": stat_f64(&all, "mean_tree_accept_sym").map(bits),
                    "n_steps": stat_i64(&all, "n_steps"),
                    "idx": stat_i64(&all, "index_in_trajectory"),
                    "depth": stat_i64(&all, "depth"),
                    "transformation_index": stat_i64(&all, "transformation_index"),
                    "update_id": stat_i64(&all, "transformation_update_id"),
                    "fisher_distance": stat_f64(&all, "fisher_distance").map(bits),
                    "mass_matrix_inv": stat_vec(&all, "mass_matrix_inv"),
                    "transformation_mu": stat_vec(&all, "transformation_mu"),
                    "mass_matrix_stds": stat_vec(&all, "mass_matrix_stds"),
                    "mass_matrix_eigvals": stat_vec(&all, "mass_matrix_eigvals"),
                    "num_eigenvalues": stat_i64(&all, "num_eigenvalues"),
                    "div_start": stat_vec(&all, "divergence_start"),
                    "div_start_grad": stat_vec(&all, "divergence_start_gradient"),
                    "flow_updates": after_updates - before_updates,
                    "evals": logp_log.lock().unwrap().count,
                    "pos_bits": pos.iter().map(|x| x.to_bits().to_string()).collect::<Vec<_>>(),
                    "pos_finite": pos.iter().all(|x| x.is_finite()),
                    "hook": J::Null,
                });
                drop(all);
                drop(math);
                let mut d = d;
                d["hook"] = hook(chain);
                out.push(d);
            }
        }
    }
    out
}

fn stat_vec(stats: &[(&str, Option<nuts_rs::Value>)], name: &str) -> Option<Vec<String>> {
    stats.iter().find(|(n, _)| *n == name).and_then(|(_, v)| match v {
        Some(nuts_rs::Value::F64(x)) => Some(x.iter().map(|y| y.to_bits().to_string()).collect()),
        _ => None,
    })
}

type M = CpuMath<TestLogp>;

fn bits_vec(v: &[f64]) -> Vec<String> {
    v.iter().map(|x| x.to_bits().to_string()).collect()
}

/// Content tie of C09 (diagonal presets): the point the chain is at (what the DrawGradCollector
/// hands to the mass-matrix estimators when the draw is good) and the diagonal transformation
/// that is installed right now.
fn content_json(
    p: nuts_rs::verif::VerifPoint,
    t: (Vec<f64>, Vec<f64>, Vec<f64>, f64, i64),
) -> J {
    json!({
        "x": bits_vec(&p.untransformed_position),
        "g": bits_vec(&p.untransformed_gradient),
        "idx": p.index_in_trajectory,
        "stds": bits_vec(&t.0),
        "inv_stds": bits_vec(&t.1),
        "mean": bits_vec(&t.2),
        "logdet": bits(t.3),
        "id": t.4,
    })
}

fn no_content<C>(_c: &C, _aux: &mut M) -> J {
    J::Null
}

fn adapt_state_json(s: Option<(u8, [f64; 4], u64)>) -> J {
    match s {
        None => J::Null,
        Some((k, v, c)) => json!({"kind": k, "v": v.iter().map(|x| bits(*x)).collect::<Vec<_>>(), "count": c}),
    }
}

macro_rules! run_global {
    ($settings:expr, $case:expr, $logp:expr) => {
        run_global!($settings, $case, $logp, no_content)
    };
    ($settings:expr, $case:expr, $logp:expr, $probe:expr) => {{
        let settings = $settings;
        let case = $case;
        let logp: TestLogp = $logp;
        let probe = $probe;
        let want_content = jb(case, "content", false);
        let mut aux = CpuMath::new(TestLogp::std_normal(logp.dim));
        let log = logp.log.clone();
        let total = settings.num_tune + settings.num_draws;
        let dim = logp.dim;
        let mut rng = ChaCha8Rng::seed_from_u64(ju(case, "seed", 1));
        let math = CpuMath::new(logp);
        match catch(move || settings.new_chain(ju(case, "chain", 0), math, &mut rng)) {
            Err(p) => json!({"id": case["id"], "new_chain": format!("panic: {p}")}),
            Ok(mut chain) => {
                let mut init = jvf(case, "init");
                if init.len() != dim {
                    init = vec![0.1; dim];
                }
                let sched0 = chain.verif_strategy().verif_schedule_state().to_vec();
                match catch(|| chain.set_position(&init)) {
                    Err(p) => json!({"id": case["id"], "new_chain":"ok", "set_position": format!("panic: {p}")}),
                    Ok(Err(e)) => json!({"id": case["id"], "new_chain":"ok", "set_position": format!("err: {e:?}").chars().take(200).collect::<String>(),
                                        "fatal_hits": log.lock().unwrap().fatal_hits, "evals_init": log.lock().unwrap().count}),
                    Ok(Ok(())) => {
                        let sched1 = chain.verif_strategy().verif_schedule_state().to_vec();
                        let step0 = chain.verif_hamiltonian().step_size();
                        let evals_init = log.lock().unwrap().count;
                        let content_init = if want_content { probe(&chain, &mut aux) } else { J::Null };
                        let draws = run_draws(
                            &mut chain,
                            total,
                            |c| {
                                json!({
                                    "sched": c.verif_strategy().verif_schedule_state().to_vec(),
                                    "adapt": adapt_state_json(c.verif_strategy().verif_step_size().verif_adapt_state()),
                                    "content": if want_content { probe(c, &mut aux) } else { J::Null },
                                })
                            },
                            &log,
                        );
                        let fatal = log.lock().unwrap().fatal_hits;
                        json!({"id": case["id"], "new_chain":"ok", "set_position":"ok", "sched_new": sched0,
                               "sched_init": sched1, "step_init": bits(step0), "evals_init": evals_init, "fatal_hits": fatal,
                               "content_init": content_init, "draws": draws})
                    }
                }
            }
        }
    }};
}

macro_rules! run_flow {
    ($settings:expr, $case:expr, $logp:expr) => {{
        let settings = $settings;
        let case = $case;
        let logp: TestLogp = $logp;
        let log = logp.log.clone();
        let total = settings.num_tune + settings.num_draws;
        let dim = logp.dim;
        let mut rng = ChaCha8Rng::seed_from_u64(ju(case, "seed", 1));
        let math = CpuMath::new(logp);
        match catch(move || settings.new_chain(ju(case, "chain", 0), math, &mut rng)) {
            Err(p) => json!({"id": case["id"], "new_chain": format!("panic: {p}")}),
            Ok(mut chain) => {
                let mut init = jvf(case, "init");
                if init.len() != dim {
                    init = vec![0.1; dim];
                }
                match catch(|| chain.set_position(&init)) {
                    Err(p) => json!({"id": case["id"], "new_chain":"ok", "set_position": format!("panic: {p}")}),
                    Ok(Err(e)) => json!({"id": case["id"], "new_chain":"ok", "set_position": format!("err: {e:?}").chars().take(200).collect::<String>(),
                                        "fatal_hits": log.lock().unwrap().fatal_hits, "evals_init": log.lock().unwrap().count}),
                    Ok(Ok(())) => {
                        let step0 = chain.verif_hamiltonian().step_size();
                        let evals_init = log.lock().unwrap().count;
                        let draws = run_draws(&mut chain, total, |_c| J::Null, &log);
                        let fatal = log.lock().unwrap().fatal_hits;
                        json!({"id": case["id"], "new_chain":"ok", "set_position":"ok", "evals_init": evals_init, "fatal_hits": fatal,
                               "step_init": bits(step0), "draws": draws})
                    }
                }
            }
        }
    }};
}

fn run_case(case: &J) -> J {
    let preset = js(case, "preset", "diag_nuts").to_string();
    let logp = build_logp(case);
    let num_tune = ju(case, "num_tune", 20);
    let num_draws = ju(case, "num_draws", 5);
    match preset.as_str() {
        "diag_nuts" => {
            let mut s = DiagNutsSettings::default();
            s.num_tune = num_tune;
            s.num_draws = num_draws;
            s.maxdepth = ju(case, "maxdepth", 5);
            if js(case, "kind", "euclidean") == "exact_normal" {
                s.trajectory_kind = nuts_rs::KineticEnergyKind::ExactNormal;
            }
            s.max_energy_error = jf(case, "max_energy_error", s.max_energy_error);
            s.adapt_options.mass_matrix_options.store_mass_matrix = jb(case, "store_mass_matrix", false);
            s.adapt_options.mass_matrix_options.use_grad_based_estimate = jb(case, "use_grad_based_estimate", true);
            s.store_divergences = jb(case, "store_divergences", s.store_divergences);
            apply_euclid_opts!(s, case);
            run_global!(s, case, logp, |c: &<DiagNutsSettings as Settings>::Chain<M>, aux: &mut M| {
                content_json(
                    c.verif_state().point().verif_data(aux),
                    c.verif_hamiltonian().transformation().verif_params(aux),
                )
            })
        }
        "lowrank_nuts" => {
            let mut s = LowRankNutsSettings::default();
            s.num_tune = num_tune;
            s.num_draws = num_draws;
            s.maxdepth = ju(case, "maxdepth", 5);
            if js(case, "kind", "euclidean") == "exact_normal" {
                s.trajectory_kind = nuts_rs::KineticEnergyKind::ExactNormal;
            }
            s.max_energy_error = jf(case, "max_energy_error", s.max_energy_error);
            s.adapt_options.mass_matrix_options.store_mass_matrix = jb(case, "store_mass_matrix", false);
            s.adapt_options.mass_matrix_options.gamma = jf(case, "lr_gamma", s.adapt_options.mass_matrix_options.gamma);
            s.adapt_options.mass_matrix_options.eigval_cutoff = jf(case, "eigval_cutoff", s.adapt_options.mass_matrix_options.eigval_cutoff);
            apply_euclid_opts!(s, case);
            run_global!(s, case, logp, |c: &<LowRankNutsSettings as Settings>::Chain<M>, aux: &mut M| {
                // the low-rank estimator's window: positions and gradients it holds, oldest first
                let p = c.verif_state().point().verif_data(aux);
                let (dr, gr, split) = c.verif_strategy().verif_mass_matrix_adapt().verif_window();
                json!({
                    "x": bits_vec(&p.untransformed_position),
                    "g": bits_vec(&p.untransformed_gradient),
                    "idx": p.index_in_trajectory,
                    "lr_draws": dr.iter().map(|v| bits_vec(v)).collect::<Vec<_>>(),
                    "lr_grads": gr.iter().map(|v| bits_vec(v)).collect::<Vec<_>>(),
                    "lr_split": split,
                })
            })
        }
        "flow_nuts" => {
            let mut s = FlowNutsSettings::default();
            s.num_tune = num_tune;
            s.num_draws = num_draws;
            s.maxdepth = ju(case, "maxdepth", 5);
            s.adapt_options.step_size_window =
                jf(case, "step_size_window", s.adapt_options.step_size_window);
            s.adapt_options.transform_update_freq =
                ju(case, "update_freq", s.adapt_options.transform_update_freq);
            apply_step_opts!(s.adapt_options.step_size_settings, case);
            run_flow!(s, case, logp)
        }
        "diag_mclmc" => {
            let mut s = DiagMclmcSettings::default();
            s.num_tune = num_tune;
            s.num_draws = num_draws;
            s.step_size = jf(case, "fixed_step", 0.25);
            s.dynamic_step_size = jb(case, "dynamic_step_size", s.dynamic_step_size);
            s.adapt_options.mass_matrix_options.store_mass_matrix = jb(case, "store_mass_matrix", false);
            s.adapt_options.mass_matrix_options.use_grad_based_estimate = jb(case, "use_grad_based_estimate", true);
            s.store_divergences = jb(case, "store_divergences", s.store_divergences);
            apply_euclid_opts!(s, case);
            run_global!(s, case, logp, |c: &<DiagMclmcSettings as Settings>::Chain<M>, aux: &mut M| {
                content_json(
                    c.verif_state().point().verif_data(aux),
                    c.verif_hamiltonian().transformation().verif_params(aux),
                )
            })
        }
        "lowrank_mclmc" => {
            let mut s = LowRankMclmcSettings::default();
            s.num_tune = num_tune;
            s.num_draws = num_draws;
            s.step_size = jf(case, "fixed_step", 0.25);
            apply_euclid_opts!(s, case);
            run_global!(s, case, logp)
        }
        "flow_mclmc" => {
            let mut s = FlowMclmcSettings::default();
            s.num_tune = num_tune;
            s.num_draws = num_draws;
            s.step_size = jf(case, "fixed_step", 0.25);
            s.adapt_options.step_size_window =
                jf(case, "step_size_window", s.adapt_options.step_size_window);
            s.adapt_options.transform_update_freq =
                ju(case, "update_freq", s.adapt_options.transform_update_freq);
            apply_step_opts!(s.adapt_options.step_size_settings, case);
            s.adapt_options.step_size_settings.adapt_options.method =
                StepSizeAdaptMethod::Fixed(s.step_size);
            run_flow!(s, case, logp)
        }
        other => json!({"id": case["id"], "error": format!("unknown preset {other}")}),
    }
}

fn main() {
    for case in read_cases() {
        let out = run_case(&case);
        println!("{}", out);
    }
}
