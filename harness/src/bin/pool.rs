//! Random handle-operation sequences against the real StatePool.  Used by C03.
use std::collections::HashMap;

use nuts_rs::verif::{State, StatePool, TransformedPoint};
use nuts_rs::CpuMath;
use serde_json::{Value as J, json};
use verif_harness::*;

type M = CpuMath<TestLogp>;

fn run_case(case: &J) -> J {
    let mut math = CpuMath::new(TestLogp::std_normal(1));
    let pool: StatePool<M, TransformedPoint<M>> = StatePool::new(&mut math, 10);
    let mut handles: Vec<Option<State<M, TransformedPoint<M>>>> = vec![];
    let mut cell_ids: HashMap<usize, usize> = HashMap::new();
    let mut codes: Vec<u64> = vec![];
    let mut cell_of = |addr: usize, ids: &mut HashMap<usize, usize>| -> usize {
        let n = ids.len();
        *ids.entry(addr).or_insert(n)
    };
    for op in case["ops"].as_array().unwrap() {
        let kind = op[0].as_str().unwrap();
        match kind {
            "new" => {
                let s = pool.new_state(&mut math);
                let (_, _, addr) = s.verif_counts();
                cell_of(addr, &mut cell_ids);
                codes.push(10 + handles.len() as u64);
                handles.push(Some(s));
            }
            "clone" => {
                let h = op[1].as_u64().unwrap() as usize;
                match handles.get(h).and_then(|x| x.as_ref()) {
                    Some(s) => {
                        let c = s.clone();
                        codes.push(10 + handles.len() as u64);
                        handles.push(Some(c));
                    }
                    None => codes.push(2),
                }
            }
            "drop" => {
                let h = op[1].as_u64().unwrap() as usize;
                match handles.get_mut(h) {
                    Some(slot) if slot.is_some() => {
                        *slot = None;
                        codes.push(0);
                    }
                    _ => codes.push(2),
                }
            }
            "write" => {
                let h = op[1].as_u64().unwrap() as usize;
                let v = op[2].as_u64().unwrap() as f64;
                match handles.get_mut(h).and_then(|x| x.as_mut()) {
                    Some(s) => match s.try_point_mut() {
                        Ok(p) => {
                            p.verif_set_velocity(&mut math, &[v]);
                            codes.push(0);
                        }
                        Err(_) => codes.push(1),
                    },
                    None => codes.push(2),
                }
            }
            _ => codes.push(99),
        }
    }
    let mut snap: Vec<J> = vec![];
    for (h, s) in handles.iter().enumerate() {
        match s {
            Some(s) => {
                let (strong, _weak, addr) = s.verif_counts();
                let v = s.point().verif_data(&mut math).velocity[0];
                snap.push(json!([h, cell_of(addr, &mut cell_ids), strong, v as u64]));
            }
            None => snap.push(json!([h])),
        }
    }
    json!({"id": case["id"], "codes": codes, "free_len": pool.verif_free_len(), "snapshot": snap})
}

fn main() {
    for case in read_cases() {
        let o = match catch(|| run_case(&case)) {
            Ok(o) => o,
            Err(p) => json!({"id": case["id"], "panic": p}),
        };
        println!("{}", o);
    }
}
