//! One-off probes of the parallel sampler (used to reproduce findings before they were fixed).
use std::time::Duration;
use nuts_rs::{DiagNutsSettings, HashMapConfig, Sampler, SamplerWaitResult};
use verif_harness::model::{ChainFaults, TestModel};
use verif_harness::*;

fn main() {
    let which = std::env::args().nth(1).unwrap_or_default();
    let mut settings = DiagNutsSettings::default();
    settings.num_tune = 5;
    settings.num_draws = 5;
    settings.num_chains = 2;
    settings.maxdepth = 3;
    let mut faults = ChainFaults::default();
    if which == "unrec" {
        let mut m = std::collections::HashMap::new();
        m.insert(30u64, Fault::Unrec);
        faults.logp.insert(1, m);
    }
    if which == "zero" {
        settings.num_tune = 0;
        settings.num_draws = 0;
    }
    let model = TestModel::new(TestLogp::std_normal(2), faults, 1, 2);
    let r = catch(|| {
        let mut sampler = Sampler::new(model, settings, HashMapConfig::new(), 2, None).unwrap();
        let t0 = std::time::Instant::now();
        loop {
            match sampler.wait_timeout(Duration::from_millis(200)) {
                SamplerWaitResult::Trace(t) => return format!("trace with {} chains", t.len()),
                SamplerWaitResult::Err(e, t) => return format!("err: {e:?} trace={}", t.is_some()),
                SamplerWaitResult::Timeout(s) => {
                    sampler = s;
                    if t0.elapsed() > Duration::from_secs(5) {
                        let p = sampler.progress().unwrap();
                        let fin: Vec<_> = p.iter().map(|c| c.finished_draws).collect();
                        let _ = sampler.abort();
                        return format!("still running after 5 s, finished_draws = {fin:?}");
                    }
                }
            }
        }
    });
    println!("{which}: {r:?}");
}
