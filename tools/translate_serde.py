#!/usr/bin/env python3
"""Translator for C19: reads the CURRENT sources of the crate (default /repo, override with the
environment variable VERIF_REPO or --repo) and regenerates coq/gen/SerdeDecls.v, a deep embedding
(data of the types declared in coq/model/Serde.v) of every struct / enum reachable from the two
settings structs `NutsSettings` and `MclmcSettings`:

  * item name, source file, generic parameters, derives, fields in declaration order with a
    description of their type, enum variants with their payload kind,
  * EVERY attribute that mentions serde (`#[serde(...)]`, `#[cfg_attr(.., serde(..))]`) found on
    an item, a field or a variant, verbatim,
  * how each of the six presets (type aliases in src/sampler.rs) instantiates the parameter `A`.

The parser is a small hand-written tokenizer + recursive descent over Rust *item* syntax.  It is
deliberately intolerant: everything it does not fully understand on a reachable item raises
`Unsupported` ("unsupported construct ...") instead of being guessed.

Usable as a module (`load(repo)` returns the parsed model, `render(model)` the Coq text,
`resolve(model, rty)` the closed type description used by the Python side of the check).
"""
import argparse
import json
import os
import re
import sys

HERE = os.path.dirname(os.path.abspath(__file__))
VERIF = os.path.dirname(HERE)
DEFAULT_REPO = "/repo"

FILES = [
    "src/sampler.rs",
    "src/adapt_strategy.rs",
    "src/stepsize/adapt.rs",
    "src/stepsize/dual_avg.rs",
    "src/stepsize/adam.rs",
    "src/transform/low_rank.rs",
    "src/transform/adapt/diagonal.rs",
    "src/external_adapt_strategy.rs",
    "src/dynamics/transformed_hamiltonian.rs",
    "src/mclmc.rs",
]
ROOTS = ["NutsSettings", "MclmcSettings"]
PRESETS = ["DiagNutsSettings", "LowRankNutsSettings", "FlowNutsSettings",
           "DiagMclmcSettings", "LowRankMclmcSettings", "FlowMclmcSettings"]
PRIMS = {"f64", "u64", "usize", "bool"}
# type names that have a serde representation this model does not cover
KNOWN_UNSUPPORTED = {
    "i8", "i16", "i32", "i64", "i128", "isize", "u8", "u16", "u32", "u128", "f32", "char", "str",
    "String", "Vec", "Box", "Rc", "Arc", "HashMap", "BTreeMap", "HashSet", "BTreeSet", "VecDeque",
    "PhantomData", "Duration", "PathBuf", "Cow", "Result", "Cell", "RefCell", "Mutex",
}


class Unsupported(Exception):
    pass


def fail(msg, tok=None, fname=None):
    loc = ""
    if tok is not None:
        loc = " at %s:%d" % (fname or "?", tok.line)
    raise Unsupported("unsupported construct: %s%s" % (msg, loc))


# ------------------------------------------------------------------------------------------------
# tokenizer
# ------------------------------------------------------------------------------------------------
class Tok:
    __slots__ = ("kind", "text", "start", "end", "line")

    def __init__(self, kind, text, start, end, line):
        self.kind, self.text, self.start, self.end, self.line = kind, text, start, end, line

    def __repr__(self):
        return "%s(%r)" % (self.kind, self.text)


_ident = re.compile(r"[A-Za-z_][A-Za-z0-9_]*")
_num = re.compile(r"[0-9][0-9A-Za-z_\.]*")
_punct2 = ("::", "->", "=>", "..", "&&", "||", "==", "!=", "<=", ">=", "+=", "-=", "*=", "/=")


def tokenize(src, fname):
    toks = []
    i, n, line = 0, len(src), 1
    while i < n:
        c = src[i]
        if c == "\n":
            line += 1
            i += 1
            continue
        if c.isspace():
            i += 1
            continue
        if src.startswith("//", i):
            j = src.find("\n", i)
            i = n if j < 0 else j
            continue
        if src.startswith("/*", i):
            depth, j = 1, i + 2
            while j < n and depth:
                if src.startswith("/*", j):
                    depth += 1
                    j += 2
                elif src.startswith("*/", j):
                    depth -= 1
                    j += 2
                else:
                    if src[j] == "\n":
                        line += 1
                    j += 1
            i = j
            continue
        # raw / byte strings
        m = re.match(r"b?r(#*)\"", src[i:])
        if m:
            hashes = m.group(1)
            close = '"' + hashes
            j = src.find(close, i + len(m.group(0)))
            if j < 0:
                raise Unsupported("unsupported construct: unterminated raw string in %s:%d" % (fname, line))
            j += len(close)
            line += src.count("\n", i, j)
            toks.append(Tok("str", src[i:j], i, j, line))
            i = j
            continue
        if c == '"' or (c == "b" and i + 1 < n and src[i + 1] == '"'):
            j = i + (2 if c == "b" else 1)
            while j < n and src[j] != '"':
                if src[j] == "\\":
                    j += 1
                j += 1
            j += 1
            l0 = line
            line += src.count("\n", i, j)
            toks.append(Tok("str", src[i:j], i, j, l0))
            i = j
            continue
        if c == "'":
            # char literal or lifetime
            m = re.match(r"'(\\.[^']*|[^'\\])'", src[i:])
            if m:
                j = i + len(m.group(0))
                toks.append(Tok("char", src[i:j], i, j, line))
                i = j
                continue
            m = _ident.match(src, i + 1)
            if m:
                toks.append(Tok("lifetime", src[i:m.end()], i, m.end(), line))
                i = m.end()
                continue
            raise Unsupported("unsupported construct: stray quote in %s:%d" % (fname, line))
        m = _ident.match(src, i)
        if m:
            toks.append(Tok("id", m.group(0), i, m.end(), line))
            i = m.end()
            continue
        m = _num.match(src, i)
        if m:
            toks.append(Tok("num", m.group(0), i, m.end(), line))
            i = m.end()
            continue
        two = src[i:i + 2]
        if two in _punct2:
            toks.append(Tok("p", two, i, i + 2, line))
            i += 2
            continue
        toks.append(Tok("p", c, i, i + 1, line))
        i += 1
    return toks


OPEN = {"(": ")", "[": "]", "{": "}"}


def skip_group(toks, i):
    """toks[i] is an opening bracket; returns the index just after its matching close."""
    stack = [OPEN[toks[i].text]]
    i += 1
    while i < len(toks) and stack:
        t = toks[i].text
        if toks[i].kind == "p":
            if t in OPEN:
                stack.append(OPEN[t])
            elif t in (")", "]", "}"):
                if t != stack[-1]:
                    raise Unsupported("unsupported construct: unbalanced brackets near line %d" % toks[i].line)
                stack.pop()
        i += 1
    if stack:
        raise Unsupported("unsupported construct: unbalanced brackets at end of file")
    return i


# ------------------------------------------------------------------------------------------------
# item index (all struct / enum / type-alias items of a file, unparsed)
# ------------------------------------------------------------------------------------------------
class RawItem:
    def __init__(self, kind, name, fname, toks, pos, attrs, src):
        self.kind, self.name, self.fname, self.toks, self.pos, self.attrs, self.src = \
            kind, name, fname, toks, pos, attrs, src


def attr_text(src, toks, a, b):
    """verbatim source text of the attribute spanning tokens a..b (exclusive), whitespace folded"""
    return re.sub(r"\s+", " ", src[toks[a].start:toks[b - 1].end]).strip()


def index_file(src, fname):
    toks = tokenize(src, fname)
    items = []
    pending = []  # (start tok index, end tok index)
    i = 0
    while i < len(toks):
        t = toks[i]
        if t.kind == "p" and t.text == "#" and i + 1 < len(toks) and toks[i + 1].text == "[":
            j = skip_group(toks, i + 1)
            pending.append((i, j))
            i = j
            continue
        if t.kind == "p" and t.text == "#" and i + 2 < len(toks) and toks[i + 1].text == "!":
            i = skip_group(toks, i + 2)  # inner attribute
            pending = []
            continue
        if t.kind == "id" and t.text == "pub":
            if i + 1 < len(toks) and toks[i + 1].text == "(":
                i = skip_group(toks, i + 1)
            else:
                i += 1
            continue
        if t.kind == "id" and t.text in ("struct", "enum", "type") and i + 1 < len(toks) and toks[i + 1].kind == "id":
            # `type` inside impl/trait bodies (associated types) is indexed too but never used
            items.append(RawItem(t.text, toks[i + 1].text, fname, toks, i, list(pending), src))
            pending = []
            i += 2
            continue
        pending = []
        i += 1
    return items


# ------------------------------------------------------------------------------------------------
# parsing of one item
# ------------------------------------------------------------------------------------------------
class Parser:
    def __init__(self, raw):
        self.raw = raw
        self.toks = raw.toks
        self.i = raw.pos
        self.fname = raw.fname
        self.src = raw.src

    def peek(self, k=0):
        j = self.i + k
        return self.toks[j] if j < len(self.toks) else Tok("eof", "", 0, 0, -1)

    def next(self):
        t = self.peek()
        self.i += 1
        return t

    def expect(self, text):
        t = self.next()
        if t.text != text:
            fail("expected `%s`, found `%s` in item %s" % (text, t.text, self.raw.name), t, self.fname)
        return t

    def classify_attrs(self, spans, where):
        """returns (derives, serde attribute strings); rejects cfg-dependent declarations"""
        derives, serde = [], []
        for a, b in spans:
            text = attr_text(self.src, self.toks, a, b)
            inner = self.toks[a + 2:b - 1]
            if not inner:
                fail("empty attribute on %s" % where, self.toks[a], self.fname)
            head = inner[0].text
            mentions_serde = any(t.kind == "id" and t.text == "serde" for t in inner) or \
                any(t.kind == "str" and "serde" in t.text for t in inner)
            if head == "derive":
                # derive(Path, Path, ...): record the last segment of each path
                if len(inner) < 2 or inner[1].text != "(":
                    fail("malformed derive on %s" % where, self.toks[a], self.fname)
                cur = None
                for t in inner[2:-1]:
                    if t.kind == "id":
                        cur = t.text
                    elif t.text == ",":
                        if cur:
                            derives.append(cur)
                        cur = None
                    elif t.text == "::":
                        pass
                    else:
                        fail("derive argument `%s` on %s" % (t.text, where), t, self.fname)
                if cur:
                    derives.append(cur)
            elif mentions_serde:
                serde.append(text)
            elif head in ("cfg", "cfg_attr"):
                fail("conditional compilation `%s` on %s (the declaration depends on cfg)" % (text, where),
                     self.toks[a], self.fname)
            else:
                # doc, default, non_exhaustive, deprecated, allow, storable, ... : no effect on serde
                pass
        return derives, serde

    def parse_generics(self):
        """after the item name; returns list of type parameter names"""
        params = []
        if self.peek().text != "<":
            return params
        self.next()
        while True:
            t = self.next()
            if t.text == ">":
                break
            if t.kind == "lifetime":
                fail("lifetime parameter on %s" % self.raw.name, t, self.fname)
            if t.kind == "id" and t.text == "const":
                fail("const generic on %s" % self.raw.name, t, self.fname)
            if t.kind != "id":
                fail("generic parameter list of %s" % self.raw.name, t, self.fname)
            params.append(t.text)
            # skip bounds / defaults up to `,` or the closing `>` at depth 0
            depth = 0
            while True:
                u = self.peek()
                if u.kind == "eof":
                    fail("unterminated generics of %s" % self.raw.name, t, self.fname)
                if u.text == "=" and depth == 0:
                    fail("default type parameter on %s" % self.raw.name, u, self.fname)
                if u.text in ("(", "[", "{"):
                    self.i = skip_group(self.toks, self.i)
                    continue
                if u.text == "<":
                    depth += 1
                elif u.text == ">":
                    if depth == 0:
                        break
                    depth -= 1
                elif u.text == "," and depth == 0:
                    break
                self.next()
            if self.peek().text == ",":
                self.next()
        return params

    def parse_type(self, params):
        t = self.next()
        if t.kind != "id":
            fail("type syntax starting with `%s` in %s" % (t.text, self.raw.name), t, self.fname)
        if t.text in ("dyn", "impl", "fn", "unsafe", "extern", "for"):
            fail("type syntax `%s ...` in %s" % (t.text, self.raw.name), t, self.fname)
        path = [t.text]
        while self.peek().text == "::":
            self.next()
            u = self.next()
            if u.kind != "id":
                fail("path syntax in a type of %s" % self.raw.name, u, self.fname)
            path.append(u.text)
        name = path[-1]
        args = []
        if self.peek().text == "<":
            self.next()
            while True:
                if self.peek().text == ">":
                    self.next()
                    break
                if self.peek().kind == "lifetime":
                    fail("lifetime argument in a type of %s" % self.raw.name, self.peek(), self.fname)
                args.append(self.parse_type(params))
                u = self.next()
                if u.text == ">":
                    break
                if u.text != ",":
                    fail("type argument list in %s" % self.raw.name, u, self.fname)
        if len(path) == 1 and name in params:
            if args:
                fail("type parameter `%s` applied to arguments" % name, t, self.fname)
            return ("param", name)
        if name in PRIMS and len(path) == 1:
            if args:
                fail("primitive `%s` applied to arguments" % name, t, self.fname)
            return ("prim", name)
        if name == "Option" and path in (["Option"], ["std", "option", "Option"], ["core", "option", "Option"]):
            if len(args) != 1:
                fail("Option with %d arguments" % len(args), t, self.fname)
            return ("opt", args[0])
        if name in KNOWN_UNSUPPORTED or name in ("Self", "self", "crate", "super"):
            fail("type `%s` (no model of its serde representation) in %s" % ("::".join(path), self.raw.name),
                 t, self.fname)
        return ("named", name, args)

    def parse_struct(self):
        raw = self.raw
        self.expect("struct")
        name = self.next().text
        params = self.parse_generics()
        if self.peek().text == "where":
            # skip the where clause (bounds do not affect the representation)
            while self.peek().text not in ("{", ";", "(") and self.peek().kind != "eof":
                if self.peek().text in ("(", "["):
                    self.i = skip_group(self.toks, self.i)
                else:
                    self.next()
        t = self.peek()
        if t.text == "(":
            fail("tuple struct %s" % name, t, self.fname)
        if t.text == ";":
            fail("unit struct %s" % name, t, self.fname)
        self.expect("{")
        fields = []
        while True:
            if self.peek().text == "}":
                self.next()
                break
            spans = []
            while self.peek().text == "#":
                if self.peek(1).text != "[":
                    fail("attribute syntax in %s" % name, self.peek(), self.fname)
                j = skip_group(self.toks, self.i + 1)
                spans.append((self.i, j))
                self.i = j
            if self.peek().text == "pub":
                self.next()
                if self.peek().text == "(":
                    self.i = skip_group(self.toks, self.i)
            ft = self.next()
            if ft.kind != "id":
                fail("field name in %s" % name, ft, self.fname)
            if ft.text.startswith("r#"):
                fail("raw identifier field in %s" % name, ft, self.fname)
            self.expect(":")
            ty = self.parse_type(params)
            _, serde = self.classify_attrs(spans, "%s.%s" % (name, ft.text))
            fields.append({"name": ft.text, "ty": ty, "attrs": serde})
            u = self.next()
            if u.text == "}":
                break
            if u.text != ",":
                fail("after field %s.%s: `%s`" % (name, ft.text, u.text), u, self.fname)
        derives, serde = self.classify_attrs(raw.attrs, name)
        return {"kind": "struct", "name": name, "file": raw.fname, "params": params,
                "derives": derives, "attrs": serde, "fields": fields}

    def parse_enum(self):
        raw = self.raw
        self.expect("enum")
        name = self.next().text
        params = self.parse_generics()
        if self.peek().text == "where":
            while self.peek().text != "{" and self.peek().kind != "eof":
                self.next()
        self.expect("{")
        variants = []
        while True:
            if self.peek().text == "}":
                self.next()
                break
            spans = []
            while self.peek().text == "#":
                if self.peek(1).text != "[":
                    fail("attribute syntax in %s" % name, self.peek(), self.fname)
                j = skip_group(self.toks, self.i + 1)
                spans.append((self.i, j))
                self.i = j
            vt = self.next()
            if vt.kind != "id":
                fail("variant name in %s" % name, vt, self.fname)
            kind = ("unit",)
            u = self.peek()
            if u.text == "(":
                self.next()
                tys = []
                while self.peek().text != ")":
                    if self.peek().text == "#" or self.peek().text == "pub":
                        fail("attribute / visibility inside tuple variant %s::%s" % (name, vt.text), self.peek(), self.fname)
                    tys.append(self.parse_type(params))
                    if self.peek().text == ",":
                        self.next()
                    elif self.peek().text != ")":
                        fail("payload of %s::%s" % (name, vt.text), self.peek(), self.fname)
                self.next()
                if len(tys) != 1:
                    fail("tuple variant %s::%s with %d fields (only unit and newtype variants are modelled)"
                         % (name, vt.text, len(tys)), u, self.fname)
                kind = ("newtype", tys[0])
            elif u.text == "{":
                fail("struct variant %s::%s" % (name, vt.text), u, self.fname)
            elif u.text == "=":
                fail("explicit discriminant on %s::%s" % (name, vt.text), u, self.fname)
            _, serde = self.classify_attrs(spans, "%s::%s" % (name, vt.text))
            variants.append({"name": vt.text, "kind": kind, "attrs": serde})
            u = self.next()
            if u.text == "}":
                break
            if u.text != ",":
                fail("after variant %s::%s: `%s`" % (name, vt.text, u.text), u, self.fname)
        derives, serde = self.classify_attrs(raw.attrs, name)
        return {"kind": "enum", "name": name, "file": raw.fname, "params": params,
                "derives": derives, "attrs": serde, "variants": variants}

    def parse_alias(self):
        raw = self.raw
        self.expect("type")
        name = self.next().text
        if self.peek().text == "<":
            fail("generic type alias %s" % name, self.peek(), self.fname)
        self.expect("=")
        ty = self.parse_type([])
        self.expect(";")
        _, serde = self.classify_attrs(raw.attrs, name)
        if serde:
            fail("serde attribute on type alias %s" % name, self.toks[raw.pos], self.fname)
        return ty


def type_names(ty, out):
    if ty[0] == "named":
        out.append(ty[1])
        for a in ty[2]:
            type_names(a, out)
    elif ty[0] == "opt":
        type_names(ty[1], out)
    return out


def load(repo=None):
    repo = repo or os.environ.get("VERIF_REPO") or DEFAULT_REPO
    index = {}
    for rel in FILES:
        p = os.path.join(repo, rel)
        if not os.path.exists(p):
            raise Unsupported("unsupported construct: source file %s is missing (module layout changed)" % p)
        src = open(p, encoding="utf-8").read()
        for it in index_file(src, rel):
            index.setdefault((it.kind if it.kind == "type" else "item", it.name), []).append(it)
    items = {}
    order = []

    def need(name, why):
        if name in items:
            return
        cands = index.get(("item", name), [])
        if not cands:
            alias = index.get(("type", name), [])
            if alias:
                raise Unsupported("unsupported construct: %s refers to the type alias `%s`" % (why, name))
            raise Unsupported("unsupported construct: type `%s` (%s) is not declared in the scanned files %s"
                              % (name, why, FILES))
        if len(cands) > 1:
            raise Unsupported("unsupported construct: type name `%s` (%s) is declared %d times: %s"
                              % (name, why, len(cands), [c.fname for c in cands]))
        raw = cands[0]
        p = Parser(raw)
        it = p.parse_struct() if raw.kind == "struct" else p.parse_enum()
        if "Serialize" not in it["derives"] or "Deserialize" not in it["derives"]:
            raise Unsupported("unsupported construct: reachable type `%s` (%s) does not derive both Serialize and "
                              "Deserialize (derives: %s) - hand-written impls are not modelled"
                              % (name, raw.fname, it["derives"]))
        items[name] = it
        order.append(name)
        tys = [f["ty"] for f in it.get("fields", [])] + \
              [v["kind"][1] for v in it.get("variants", []) if v["kind"][0] == "newtype"]
        for ty in tys:
            for n in type_names(ty, []):
                need(n, "used in %s" % name)

    presets = []
    for pn in PRESETS:
        al = index.get(("type", pn), [])
        al = [a for a in al if a.fname == "src/sampler.rs"]
        if len(al) != 1:
            raise Unsupported("unsupported construct: preset alias `%s` found %d times in src/sampler.rs" % (pn, len(al)))
        ty = Parser(al[0]).parse_alias()
        if ty[0] != "named" or ty[1] not in ROOTS or len(ty[2]) != 1:
            raise Unsupported("unsupported construct: preset `%s` is not an instance of %s with one argument: %r"
                              % (pn, ROOTS, ty))
        presets.append((pn, ty))
    for r in ROOTS:
        need(r, "settings root")
    for pn, ty in presets:
        for n in type_names(ty, []):
            need(n, "argument of preset %s" % pn)
    return {"repo": repo, "items": [items[n] for n in order], "presets": presets}


# ------------------------------------------------------------------------------------------------
# resolution (Python mirror of Serde.resolve; cross-checked against Coq by the check)
# ------------------------------------------------------------------------------------------------
def resolve(model, ty, env=None, depth=0):
    env = env or {}
    if depth > 30:
        raise Unsupported("unsupported construct: recursive type")
    k = ty[0]
    if k == "prim":
        return ("prim", ty[1])
    if k == "opt":
        return ("opt", resolve(model, ty[1], env, depth + 1))
    if k == "param":
        return env[ty[1]]
    it = [i for i in model["items"] if i["name"] == ty[1]][0]
    args = [resolve(model, a, env, depth + 1) for a in ty[2]]
    if len(args) != len(it["params"]):
        raise Unsupported("unsupported construct: %s applied to %d arguments" % (ty[1], len(args)))
    env2 = dict(zip(it["params"], args))
    if it["kind"] == "struct":
        return ("struct", it["name"], [(f["name"], resolve(model, f["ty"], env2, depth + 1)) for f in it["fields"]])
    return ("enum", it["name"], [(v["name"], None if v["kind"][0] == "unit" else resolve(model, v["kind"][1], env2, depth + 1))
                                 for v in it["variants"]])


def all_attrs(model):
    out = []
    for it in model["items"]:
        for a in it["attrs"]:
            out.append((it["name"], a))
        for f in it.get("fields", []):
            for a in f["attrs"]:
                out.append(("%s.%s" % (it["name"], f["name"]), a))
        for v in it.get("variants", []):
            for a in v["attrs"]:
                out.append(("%s::%s" % (it["name"], v["name"]), a))
    return out


# ------------------------------------------------------------------------------------------------
# Coq output
# ------------------------------------------------------------------------------------------------
def cstr(s):
    return '"' + s.replace('"', '""') + '"'


def clist(xs, indent=""):
    if not xs:
        return "[]"
    return "[" + ("; ").join(xs) + "]"


def crty(ty):
    k = ty[0]
    if k == "prim":
        return "RPrim %s" % cstr(ty[1])
    if k == "opt":
        return "ROpt (%s)" % crty(ty[1])
    if k == "param":
        return "RParam %s" % cstr(ty[1])
    return "RNamed %s %s" % (cstr(ty[1]), clist(["(%s)" % crty(a) for a in ty[2]]))


def render(model):
    L = []
    L.append("(* GENERATED by tools/translate_serde.py from the crate sources (src/sampler.rs and the")
    L.append("   modules it reaches) - do not edit; regenerated on every run of ./check C19. *)")
    L.append("From Coq Require Import String List.")
    L.append("From NutsV Require Import model.Serde.")
    L.append("Import ListNotations.")
    L.append("Local Open Scope string_scope.")
    L.append("")
    names = []
    for it in model["items"]:
        dn = "decl_%s" % it["name"]
        names.append(dn)
        L.append("Definition %s : ritem :=" % dn)
        L.append("  mk_ritem %s %s %s" % (cstr(it["name"]), cstr(it["file"]), clist([cstr(p) for p in it["params"]])))
        L.append("    %s" % clist([cstr(d) for d in it["derives"]]))
        L.append("    %s" % clist([cstr(a) for a in it["attrs"]]))
        if it["kind"] == "struct":
            L.append("    (RStructBody [")
            rows = ["      mk_rfield %s (%s) %s" % (cstr(f["name"]), crty(f["ty"]), clist([cstr(a) for a in f["attrs"]]))
                    for f in it["fields"]]
            L.append(";\n".join(rows))
            L.append("    ]).")
        else:
            L.append("    (REnumBody [")
            rows = []
            for v in it["variants"]:
                kind = "RVUnit" if v["kind"][0] == "unit" else "(RVNewtype (%s))" % crty(v["kind"][1])
                rows.append("      mk_rvariant %s %s %s" % (cstr(v["name"]), kind, clist([cstr(a) for a in v["attrs"]])))
            L.append(";\n".join(rows))
            L.append("    ]).")
        L.append("")
    L.append("Definition decls : list ritem :=\n  %s." % clist(names))
    L.append("")
    L.append("(* the six presets: how each alias instantiates the parameter A of its settings struct *)")
    L.append("Definition presets : list (string * rty) := [")
    L.append(";\n".join("  (%s, %s)" % (cstr(n), crty(t)) for n, t in model["presets"]))
    L.append("].")
    L.append("")
    return "\n".join(L)


def generate(repo=None, out=None):
    model = load(repo)
    text = render(model)
    out = out or os.path.join(VERIF, "coq", "gen", "SerdeDecls.v")
    os.makedirs(os.path.dirname(out), exist_ok=True)
    old = open(out).read() if os.path.exists(out) else None
    if old != text:
        with open(out, "w") as f:
            f.write(text)
    return model, out, old != text


def main():
    ap = argparse.ArgumentParser()
    ap.add_argument("--repo", default=None)
    ap.add_argument("--out", default=None)
    ap.add_argument("--json", action="store_true", help="print the parsed model as JSON")
    a = ap.parse_args()
    try:
        model, out, changed = generate(a.repo, a.out)
    except Unsupported as e:
        print("translate_serde: %s" % e, file=sys.stderr)
        sys.exit(2)
    if a.json:
        print(json.dumps(model, indent=1))
    n_f = sum(len(i.get("fields", [])) for i in model["items"])
    n_v = sum(len(i.get("variants", [])) for i in model["items"])
    print("translate_serde: %s: %d items (%d fields, %d variants), %d presets, %d serde attributes -> %s%s"
          % (model["repo"], len(model["items"]), n_f, n_v, len(model["presets"]), len(all_attrs(model)), out,
             " (changed)" if changed else " (unchanged)"))


if __name__ == "__main__":
    main()
