#!/usr/bin/env python3
"""Regenerates /verif/MANIFEST.json from the table of claims below."""
import json
import os

HERE = os.path.dirname(os.path.dirname(os.path.abspath(__file__)))
LEVEL_NOTE = ("Trusted: Coq 8.16.1 kernel (coqc full .vo build, vm_compute; no native_compute); the 4 standard-library axioms "
              "Flocq/Reals bring for binary64-layer theorems only (sig_forall_dec, sig_not_dec, functional_extensionality_dep, classic); "
              "the hand-written models under coq/model tied to /repo only by the correspondence runs (harness + hook accessors under cfg nuts_rs_verif); python glue in tools/. ")
TECH = "machine-checked proof in Coq (Rocq) over an executable Gallina model + model/implementation correspondence run (vm_compute)"

CLAIMS = {
    "C01": ("Theorem C01_detailed_balance: for all positive weights, all U-turn predicates, all maxdepth and all pairs of states of an orbit, wt a * P(a->b) == wt b * P(b->a) for the exact distribution of the model of nuts::draw (proved in Coq, closed under the global context), plus sub-tree multinomial-sampling theorems and probability well-formedness; the model is tied to nuts::draw by scripted-RNG correspondence. Partial: orbit-wise statement over exact arithmetic; continuous-state invariance is not formalised.", "3 C01"),
    "C02": ("Theorems over a generic-field model of the leapfrog and the diagonal / low-rank affine maps (reversibility, textbook velocity-Verlet form for M^-1 = F F^T, round trips, gradient pull-back, exact conservation for ExactNormal on a standard normal, shear structure); per-step correspondence of the Qc instance with the real integrator. Partial: volume preservation / O(eps^2) proved structurally and for Gaussians.", "3 C02"),
    "C03": ("Theorems for every possible outcome of the model of nuts::draw (all weights, U-turn / divergence / error predicates, options): tree is a 2^depth block containing start and draw, depth <= maxdepth, step-count bounds, |index| bound, draw was reached and no state inside the returned tree diverged, exact characterisation of the maxdepth flag, divergence lies outside the returned tree, dim 0; correspondence with the real tree builder under scripted RNG and faults + implementation-side audit of every draw.", "3 C03"),
    "C06": ("Coq theorems over the executable schedule model (tuning flag exact, transformation frozen from the final window, step-size state frozen after warmup, new() total on num_tune 0..2000) + correspondence of the model with all six presets through the public API and read accessors; two genuine defects were repaired by fix: commits", "3 C06"),
    "C09": ("Coq theorems over the executable schedule model (foreground estimator holds only the last two windows, switch iff full window and next window fits, windows grow, first change re-runs the search, late statistic) + full-state correspondence per draw and a bit-exact binary64 check of which acceptance statistic advanced the adaptation", "3 C09"),
    "C04": ("PARTIAL. Theorems: the post-warmup kernel is frozen (C06), satisfies detailed balance on every orbit (C01) and hence maps target-weighted mixtures of start states to target weights (summed balance), the orbit is the same from any of its states (reversibility, C02), every trajectory starts with a fresh block of dim standard-normal outputs disjoint from all others. Tie: scripted normal vectors are the start velocities bit for bit. The statement 'matches known posteriors within Monte-Carlo error' is statistical and is only SEARCHED (moments of 300+600-draw runs of the four NUTS preset/kinetic combinations on Gaussian targets within 8-sigma bands), not proved.", "3 C04"),
    "C05": ("Theorems for every outcome of the tree-builder model under arbitrary fault predicates: a divergent evaluation ends the transition at once and is reported, an unrecoverable one makes the call return Err, at most one faulty evaluation per transition and it is the last, the returned draw and every state of the returned tree are valid states, no-fault runs raise no flag, random_bool arguments are probabilities; binary64 divergence predicate total on NaN/inf. Tie: scripted-orbit correspondence under injected faults + fault sweep (kind x evaluation index) over presets through the public API. One genuine defect repaired (step-size search discarded unrecoverable errors).", "3 C05"),
    "C07": ("Theorems over the exact-arithmetic model of dual averaging / Adam / the initial search: monotonicity in the acceptance history, upper bound ln(max_step_size) and finite lower bound, averaged step = documented weighted average (weights a distribution), Adam direction = sign of the smoothed acceptance error with its closed form, search brackets the target and evaluates <= 101 steps, acceptance statistics in [0,1]. Tie: bit-exact correspondence of the binary64 recurrences with DualAverage / Adam driven open loop + monotonicity/bound audits on the implementation. Partial: closed-loop acceptance near target is statistical, not a theorem.", "3 C07"),
    "C08": ("Theorems: running mean exact, the variance accumulator is a quadratic form (scaling), zero iff constant, the diagonal update recovers mean and variance of a Gaussian coordinate exactly from any non-constant set of draws and whitens it (gradient = -position); binary64: for every bit pattern the scale-update kernels keep scales finite and strictly positive (clamp limits 1e-20/1e20), invalid estimates keep the previous value; necessity of the magnitude condition refuted for subnormal limits. Tie: bit-exact kernel correspondence on degenerate inputs + closed-loop exactness audit on Gaussians for diag and low-rank adaptation. Partial: the faer pipeline of the low-rank estimator is audited, not modelled.", "3 C08"),
    "C10": ("Theorems over the LTS of the parallel sampler (all interleavings of user, controller and n chains accepted by step): recorded draw numbers of every chain are exactly 0..k-1 in order in every reachable state, frame (a chain event touches no other chain), chain count constant, stream ids injective and non-zero. Tie: event histories of real runs under seeded schedule perturbation replayed through step + bitwise comparison of traces with a sequential reference. Partial: OS scheduling is sampled, channel/mutex semantics assumed.", "3 C10"),
    "C11": ("Theorems over the LTS: traces are prefixes of the full trace in every reachable state, Trace from wait_timeout implies every chain recorded exactly total draws, zero-draw runs record nothing, chains are never stuck outside the documented blocking receive, controller sends and user returns are enabled (calls return). Tie: replay of real event histories with user scripts (pause/resume/progress/flush/inspect/wait/abort), watchdog for hangs, counter audits. Two genuine defects repaired. Partial: liveness is enabledness of the modelled events, not a fairness proof.", "3 C11"),
    "C12": ("Theorems over the LTS: after pause() returns a chain records at most (queued Resume messages + 1) further draws until the next command, at most one with mailbox [Pause]; blocked chains record nothing until a Resume is sent; a chain that finds Pause first does not draw; resume loses nothing (records contiguous). Tie: replay of event histories with a chain parked at a chosen schedule point when pause() is issued.", "3 C12"),
    "C13": ("Theorems over the LTS: one result per finished chain, after any chain failure wait_timeout can never return Trace, abort() returns Ok((None,_)) only if no chain failed, returns answer the pending call, healthy chains unaffected. Tie: replay of event histories with injected faults (unrecoverable logp error at any evaluation, expand failure, model construction failure, all initial points bad). Three genuine defects repaired; one recorded known finding (unrecoverable error during a chain's initialisation is retried).", "3 C13"),
    "C14": ("Theorems over model/Storage.v: for ALL well-formed schemas and recording histories (any lengths incl. 0 and 1, every prefix = aborted runs / inspect, any event pattern, both store_warmup settings) the models of the HashMap, Arrow, CSV, Zarr (sync/async, every chunk size) and ndarray backends succeed and return exactly the expected values in recording order, warmup before sampling, with declared type and list-ness, nulls / absences exactly where no value was recorded; store_warmup=false drops exactly the warmup records; the backends agree with each other (CSV on its numeric columns). Refutation theorems with witnesses for the five recorded known findings (ndarray: matrices, dense event statistics; Zarr: store_warmup ignored, string vectors, event padding across chains) and for the repaired ndarray defects. Tie: correspondence of every backend model with the real backends driven by real chains of all six presets (logging wrapper around the storage traits, complete read-back: HashMap/Arrow/ndarray objects, CSV files re-parsed, Zarr stores re-opened), plus an oracle computed from the recorded history alone. Partial: CSV number formatting, Arrow/zarrs/ndarray internals trusted.", "3 C14"),
    "C15": ("Theorems over model/Zarr.v (chunk buffer, phase transition, write queue with completions at any time and in any order, flush, finalize, event-array resizing): after every flush and after finalize every array of both groups reads back every row recorded so far (C15_flush_complete / _finalize_complete / _final_shape_covers), rows flushed once stay readable whatever follows (every later state is a crash point, C15_flush_stable), queued writes address pairwise distinct chunks so the async store equals the sync store for every completion order (C15_pending_distinct / _async_confluent), buffer invariant (the push assert never fires); refutation witnesses for the two repaired defects. Tie: correspondence with the real ZarrChainStorage / ZarrAsyncChainStorage (memory and filesystem stores, fresh zarrs reader per snapshot, seeded store latencies) plus an implementation-side oracle from the property text. Partial: chunk writes of the store are assumed atomic (FilesystemStore rewrites in place), queue timing over-approximated.", "3 C15"),
    "C16": ("Theorems for ALL struct declarations of the derive(Storable) model (first-matching-arm semantics, names/get_all alignment under NoDup and no flattened Option, refutations for the excluded cases), macro table equal to the one extracted from the current nuts-derive source, the six regenerated preset declarations well formed, presence rules (event-only, identifying fields, all-or-none, update reported once). Tie: translator regenerating the declarations from /repo on every run + schema/rows/presence correspondence over 576 preset x flag x dimension cases. One genuine defect repaired (duplicate tuning statistic).", "3 C16"),
    "C17": ("Theorems over the lane-generic kernel model: index partition for every length and lane count, element-wise kernels equal the plain formula over Q for every lane count, reductions equal the plain sums for every power-of-two lane count (1,2,4,8) fused or not, finiteness tests, NaN propagation on binary64; bit-exact correspondence of the binary64 instance with CpuMath for every length 0..=130 on this host's instruction set. Partial: the floating-point error bound itself is not proved, only the association order is pinned.", "3 C17"),
    "C19": ("Theorems: serde round trip dec(enc v) = Some v for ALL well-formed type descriptions (no duplicate names, no nested Option) and typed values; the six preset type descriptions regenerated from the current source are well formed and carry no serde attribute; congruence (same settings, same chain); necessity of the finiteness / nested-Option hypotheses refuted by witnesses. Tie: translator regenerating the declarations from /repo on every run + correspondence of the model encoding with serde_json (tree and text), round trips through from_value/from_str, bitwise chain comparison, Zarr root attribute read-back.", "3 C19"),
    "C18": ("Theorems over model/Mclmc.v: the ESH update has the closed-form norm and keeps the momentum on the unit sphere, the ln_1p argument is that norm minus one, a draw without divergence takes exactly num_base full-size steps, with retries the integration time is still num_base base steps and extra steps have factor < 1, halving depth bounded, divergence only with the budget exhausted, trajectory switch exactly once at the configured draw; tie: correspondence of the step/halving state machine and of the ESH update with real MCLMC chains (delegating Math backend, density faults).", "3 C18"),
}
ORDER = ["C%02d" % i for i in range(1, 20)]
PENDING_REASON = "check not built yet in this round (work in progress; see DESIGN.md section 6 for the order)"


def main():
    props = [json.loads(l) for l in open(os.path.join(HERE, "properties.jsonl"))]
    checks = []
    for pid in ORDER:
        if pid not in CLAIMS:
            continue
        text, ref = CLAIMS[pid]
        checks.append({
            "property_id": pid,
            "quick_cmd": "./check %s --tier quick" % pid,
            "thorough_cmd": "./check %s --tier thorough" % pid,
            "evidence_file": "/verif/evidence/%s.json" % pid,
            "replay_cmd_template": "./check %s --replay {path}" % pid,
            "engine": "coq+harness",
            "level_claimed": {"category": "proof", "text": text, "design_ref": "DESIGN.md section " + ref},
            "level_note": LEVEL_NOTE,
            "technique": TECH,
        })
    na = [{"property_id": p["id"], "reason": PENDING_REASON} for p in props if p["id"] not in CLAIMS]
    hooks = [l.strip() for l in open(os.path.join(HERE, "tools", "hook_commits.txt")) if l.strip()]
    m = {
        "version": 1,
        "setup_cmd": "./setup.sh",
        "hooks": {"guard": "nuts_rs_verif",
                  "enable": "RUSTFLAGS=\"--cfg nuts_rs_verif\" (set in /verif/harness/.cargo/config.toml; the harness crate depends on /repo by path)",
                  "baseline_off_cmd": "cd /repo && cargo test --workspace --no-fail-fast --offline",
                  "source_commits": hooks, "add_only": True},
        "engines": [{"name": "coq+harness", "path": "/verif/check", "serves_properties": [c["property_id"] for c in checks],
                     "kind_free_text": "Coq 8.16.1 development under /verif/coq (models, lemmas, property theorems) + Rust correspondence harness under /verif/harness driven by /verif/tools"}],
        "checks": checks,
        "not_applicable": na,
        "notes": "Fix commits in /repo are listed in KNOWN_FINDINGS.json.",
    }
    json.dump(m, open(os.path.join(HERE, "MANIFEST.json"), "w"), indent=1)


if __name__ == "__main__":
    main()
