#!/usr/bin/env python3
"""Prints the markdown table of the seeded changes kept under /verif/seeded (from their meta.json)."""
import json
import os

HERE = os.path.dirname(os.path.dirname(os.path.abspath(__file__)))

# what happened the first time the change was run against the checks as they were then
HISTORY = {
    "C01-1": "rare (0.4% of trajectories): missed by one quick run of C01, caught by C03's run of the same correspondence; caught by C01 on the next run",
    "C02-1": "missed at first (the integrator was only driven with step-size factor 1): direct integrator calls with factors + forward/backward oracle added to C02, second momentum half-update compared in C18",
    "C02-2": "missed by C02 at first (caught by C08's bit-exact kernel tie): reciprocal-scale audit of the adaptation kernels added to C02",
    "C03-1": "missed at first (no case set target_integration_time): cases + model of the derived depth limits added; doing so exposed a genuine defect (fix a495ad3)",
    "C03-2": "caught by the tie only at first: accepted-tree oracle added, now reported with a concrete input",
    "C06-2": "missed at first (the final window never started exactly on an update draw): boundary corpus added",
    "C07-1": "caught by the tie only at first: bound on the averaged step size added as an oracle",
    "C10-2": "missed at first (the harness model ignored the random stream of init_position): random starting points added",
    "C11-1": "missed at first (flush never met a chain inside record_sample): slow recorder + command storms added, watchdog reports the hang",
    "C11-2": "missed at first (no divergent draws, counters not compared): divergent chains + progress-vs-trace oracle added",
    "C12-2": "missed at first (pause was never repeated while chains were blocked): scripts added",
    "C13-2": "missed at first (no recoverable fault inside initialisation): cases added",
    "C17-1": "caught by the tie only at first: exact predicate oracle added",
    "C18-2": "missed at first (chains only produce small delta): direct ESH calls over delta up to 400 compared with the closed form",
    "C19-2": "missed at first (every run used a fresh store): second run into the same store added",
    "C04-1": "caught only statistically at first (acceptance far from target): direct audit of the real normal fill added to C04",
    "C04-2": "C04 itself stays silent (its claim is partial / statistical); caught by C02 - by the tie at first, then by the added kinetic-energy oracle",
    "C04-3": "C04 itself stays silent (partial claim); caught by C02 (forward/backward oracle)",
    "C04-4": "C04 itself stays silent (partial claim); caught by C02 (reference-energy oracle) and by the C01 tie",
    "C01-3": "same idea as C01-1 (second agent): caught by the tie",
    "C03-3": "same idea as C03-1 (second agent): caught as built after round 1",
    "C03-4": "same idea as C03-2 (second agent): caught as built after round 1",
    "C05-4": "same idea as C05-1 (second agent): caught as built",
    "C06-3": "same trigger as C06-1; missed in its first run (no random case combined jitter None with an empty final window): fixed corpus added",
    "C13-3": "missed at first (no fault ever arrived after abort() had begun): slow chains failing during the draw in which abort() is called",
    "C13-4": "same idea as C13-2 (second agent): caught as built after round 1",
    "C02-3": "same idea as C02-2 (second agent): caught as built after round 1",
    "C02-4": "missed at first (the orbit harness never changed the transformation): transformation replaced between draws + reference-energy oracle",
    "C07-3": "same idea as C07-2 (second agent): caught as built",
    "C07-4": "missed at first (C07 had no closed loop): acceptance statistics of real chains with first-step divergences audited",
    "C08-3": "caught by the bit-exact kernel tie",
    "C08-4": "missed at first (targets sat near the origin and the tolerance on the squared whitening distance was too wide): far-mean targets, tolerance 1e-21",
    "C09-3": "missed at first (only the window COUNTS were tied): content tie for the diagonal adaptation built (bit-exact estimate over the model's foreground window)",
    "C10-4": "missed at first (only parallel-vs-sequential comparison, Model::math ignored its stream): every chain compared with the chain run alone, randomised math()",
    "C11-3": "same idea as C11-1 (second agent): caught as built after round 1",
    "C12-3": "same idea as C12-1 (second agent): caught as built",
    "C14-3": "same idea as C14-1 (second agent): caught as built",
    "C14-4": "same idea as C15-1 (second agent): caught as built",
    "C15-4": "same idea as C15-1 (second agent): caught as built",
    "C16-4": "same idea as C16-1 (second agent): caught as built",
    "C17-4": "same slip as C17-2 in the other kernel: caught as built",
    "C18-3": "same idea as C18-1 (second agent): caught as built",
    "C18-4": "missed at first (momentum refresh after a divergence was not checked): momentum logged before/after every draw, first-step divergences generated",
    "C19-3": "same idea as C19-1 (second agent): caught as built",
    "C19-4": "same idea as C19-2 (second agent): caught as built after round 1",
    "C01-5": "same idea as C01-4 (third agent): caught with a failing input by the mirror-rebuild oracle",
    "C01-6": "C01 itself stays silent (its harness keeps the transformation fixed and the weights are taken from the logged energies); caught by C02 (logdet / reference-energy oracles), whose statement it breaks directly",
    "C02-5": "missed at first (no low-rank update was ever rejected): full low-rank updates between draws, half of them with a non-finite eigenvalue that must be rejected as a whole; patch re-created after fix c9d2473, see C02-11",
    "C03-6": "caught by C02 (kinetic-energy oracle); the same energy oracles were then added to the returned state in C03",
    "C04-5": "C04 itself stays silent (partial claim); caught by C02 (forward/backward oracle)",
    "C05-5": "caught by the tie in C05 and with a failing input by C07 (NaN acceptance statistic)",
    "C07-5": "missed by C07 at first (its closed loop used dual averaging only; C09's binary64 statistic check caught it): steering audit for both controllers",
    "C07-6": "missed at first (the search had theorems but no tie): search tie built (model/StepSize.v search2 evaluated on the trial acceptances of the real Strategy::init) + last-trial oracle",
    "C08-5": "missed at first (the sum of logarithms behind every log-determinant was covered by no check): audit over dimensions up to 130 and scales at the clamp bounds",
    "C10-6": "missed at first (the low-rank MCLMC preset was not among the protocol cases): preset added",
    "C12-5": "caught by the protocol tie (the first command poll moved before initialisation is not an enabled transition of the model)",
    "C17-6": "caught by the bit-exact kernel tie",
    "C02-7": "same idea as C02-2 in the draw-only kernel (fourth round): caught as built",
    "C02-8": "missed at first (no re-initialisation from a gradient on an adapted low-rank transformation): variant added + self-consistency oracle on what the transformation reports (scales, retained eigenvalues, log-determinant)",
    "C03-7": "caught as built (mindepth above maxdepth is among the generated options)",
    "C05-7": "same idea as C05-3 (fourth round): caught by the tie",
    "C08-7": "C08 itself stays silent (its closed loop never follows a correlated window by an uncorrelated one); caught by C02 (tie and, after the rank-0 update variant was added, the self-consistency oracle)",
    "C09-7": "caught as built (window of the low-rank estimator after a switch)",
    "C11-7": "undoes the repair 60520de (empty runs record forever); reported at first only as a failed model evaluation (ten million events could not be replayed): the audit now runs independently of the replay and runaway histories are judged directly",
    "C12-8": "missed at first (no pause lasted longer than a fraction of a second; the change wakes a paused chain after 5 s): one long pause (6.5 s quick, 13 s thorough) added - a timeout longer than that would still be missed",
    "C13-7": "caught as built",
    "C13-8": "caught as built (recoverable errors during initialisation, added after C13-2)",
    "C14-7": "same slip as C15-1 in the async writer: caught as built",
    "C16-7": "missed at first (the transformation id never moved by more than one between two extractions of the statistics): initialisation attempts that are rejected first",
    "C16-8": "caught as built (all flag combinations on all six presets)",
    "C17-8": "missed before the fourth round's generator change was made (no step of exactly +-0 met a non-finite entry); caught by the bit-exact tie afterwards",
    "C18-8": "missed before the direct ESH audit was widened beyond delta = 709 (exp overflow); caught with a failing input afterwards",
    "C02-9": "fifth round: caught as built (forward/backward oracle; rank-0 updates with a non-zero shift were added after C08-7)",
    "C07-9": "fifth round: caught as built by the last-trial oracle of the search tie",
    "C10-9": "fifth round: missed at first (flow presets were not among the protocol cases, and no case combined several chains, identical starts and a non-random density with enough draws): flow presets and a per-preset corpus with identical starts added",
    "C16-10": "fifth round: caught as built",
    "C18-10": "fifth round: missed at first (step sizes, lengths and subsample frequencies were such that f*round(L/eps) and round(f*L/eps) agreed): non-dyadic values added",
    "C14-8": "missed by C14 at first (its cases never flushed in the middle of a run; C15 caught it): flushes at random steps added to the C14 cases",
    "C08-11": "would have been missed before the sixth round (the low-rank estimator was never fed a degenerate window): caught with a failing input by the direct-drive tie added in that round (const_draw0 window leaves std 0 / inverse inf in use). It needs two sites (the guard in rescale_points and the finite-only gate of update); the repair c9d2473 of a genuine defect found later closed the second site, so on the current tree the change no longer breaks the property and the check reports only the broken rescale_points tie (no-failing-input-found), as it should",
    "C08-12": "caught by C02's logdet oracle as built; C08 reports it through the new model tie of LowRankMassMatrix::update (installed parameters)",
    "C02-11": "same idea as C02-5 (sixth-round agent): caught as built by C02, and by C08's new direct calls of update (id did not move but the parameters did); patch re-created after fix c9d2473 (same function): missed by C02 then, because its rejected updates only used a NaN eigenvalue, which the new positivity gate refuses earlier - rejected updates now carry NaN / +inf / zero / negative eigenvalues and NaN / infinite eigenvector entries",
    "C02-12": "caught as built (forward/backward oracle on a rank-0 low-rank update with a non-zero translation)",
    "C05-11": "caught as built (+inf log-density in the fault sweep)",
    "C05-12": "caught as built (unrecoverable error inside the re-initialisation search)",
    "C16-11": "caught as built (event statistic present although the event did not happen)",
    "C16-12": "missed at first (no case of C16 retained eigenvalues: diagonal targets only): strongly correlated Gaussians added for the low-rank presets with store_mass_matrix, with a coverage obligation that stored eigenvalues with a low-rank part were seen",
    "C09-11": "caught as built (switch although the next window does not fit: schedule oracle), C06 sees the state difference",
    "C09-12": "caught as built by the schedule-state tie (the low-rank estimator keeps its old foreground at a switch with fewer than 3 background draws)",
    "C14-11": "caught as built (CSV columns of a non-square matrix re-parsed against the recorded values)",
    "C14-12": "caught as built (inspect with a chain that has stored nothing: chain missing in the Arrow trace)",
    "C15-11": "caught as built (async flush at a chunk boundary with store latency: flushed row reads as fill value)",
    "C15-12": "caught as built (partial string chunk written at the wrong offset), also by C14's read-back",
    "C19-11": "caught as built (trajectory_kind = Microcanonical does not survive the round trip)",
    "C19-12": "caught as built (seed above 2^53 rounded through f64)",
    "C18-11": "caught as built (halving stack unwound one level only: the crate's own assert fires / steps missing)",
    "C18-12": "caught as built (momentum not refreshed after a draw that diverged at its first step)",
    "C03-11": "re-invention of the defect repaired by a495ad3 (the `at least 1` guard moved from the depth to the step count): caught as built",
    "C03-12": "missed at first (C03 drove nuts::draw directly; NutsChain::draw, which installs the returned state, was only covered through C16's schema view): chain-level audit through the public API added (unconstrained_draw / gradient / logp of the returned position bit for bit, index 0 iff unmoved, under region faults of three kinds)",
    "C07-11": "C07's own check stays silent (its statement does not say WHICH acceptance statistic drives the late phase; with either one its clauses hold); caught with a failing input by C09, whose late-statistic clause it breaks",
    "C07-12": "caught as built (symmetric acceptance statistic NaN after a first-step divergence)",
    "C06-11": "caught as built (flow transformation updated on the first draw of the final step-size window: boundary corpus of the flow presets)",
    "C06-12": "caught as built (empty final window with jitter None: post-warmup step size is not the averaged one)",
}


def main():
    root = os.path.join(HERE, "seeded")
    rows = []
    for d in sorted(os.listdir(root)):
        mp = os.path.join(root, d, "meta.json")
        if not os.path.exists(mp):
            continue
        m = json.load(open(mp))
        det = m.get("detected_by", [])
        runs = m.get("checks_run", {})
        how = []
        for c in det:
            lines = runs.get(c, {}).get("lines", [])
            concrete = any(l.startswith("VIOLATION") and not l.endswith("no-failing-input-found") for l in lines) or c in m.get("concrete_input", [])
            how.append("%s (%s)" % (c, "failing input" if concrete else "tie broken"))
        missed = [c for c in runs if c not in det]
        rows.append((d, m.get("summary", "").replace("|", "/").replace("\n", " "), m.get("needs", "").replace("|", "/").replace("\n", " "),
                     ", ".join(how) or "-", ", ".join(missed) or "-", HISTORY.get(d, "caught as built")))
    print("| id | change | needs | caught by | run but silent | history |")
    print("|---|---|---|---|---|---|")
    for r in rows:
        print("| %s | %s | %s | %s | %s | %s |" % r)


if __name__ == "__main__":
    main()
