#!/usr/bin/env python3
"""Prints the markdown table of the seeded changes kept under /verif/seeded (from their meta.json)."""
import json
import os

HERE = os.path.dirname(os.path.dirname(os.path.abspath(__file__)))

# what happened the first time the change was run against the checks as they were then
HISTORY = {
    "C01-1": "rare (0.4% of trajectories): missed by one quick run of C01, caught by C03's run of the same correspondence; caught by C01 on the next run",
    "C02-1": "missed at first (the integrator was only driven with step-size factor 1): direct integrator calls with factors + forward/backward oracle added to C02, second momentum half-update compared in C18",
    "C02-2": "missed by C02 at first (caught by C08's bit-exact kernel tie): reciprocal-scale audit of the adaptation kernels added to C02",
    "C03-1": "missed at first (no case set target_integration_time): cases + model of the derived depth limits added; doing so exposed a genuine defect (fix a495ad3)",
    "C03-2": "caught by the tie only at first: accepted-tree oracle added, now reported with a concrete input",
    "C06-2": "missed at first (the final window never started exactly on an update draw): boundary corpus added",
    "C07-1": "caught by the tie only at first: bound on the averaged step size added as an oracle",
    "C10-2": "missed at first (the harness model ignored the random stream of init_position): random starting points added",
    "C11-1": "missed at first (flush never met a chain inside record_sample): slow recorder + command storms added, watchdog reports the hang",
    "C11-2": "missed at first (no divergent draws, counters not compared): divergent chains + progress-vs-trace oracle added",
    "C12-2": "missed at first (pause was never repeated while chains were blocked): scripts added",
    "C13-2": "missed at first (no recoverable fault inside initialisation): cases added",
    "C17-1": "caught by the tie only at first: exact predicate oracle added",
    "C18-2": "missed at first (chains only produce small delta): direct ESH calls over delta up to 400 compared with the closed form",
    "C19-2": "missed at first (every run used a fresh store): second run into the same store added",
}


def main():
    root = os.path.join(HERE, "seeded")
    rows = []
    for d in sorted(os.listdir(root)):
        mp = os.path.join(root, d, "meta.json")
        if not os.path.exists(mp):
            continue
        m = json.load(open(mp))
        det = m.get("detected_by", [])
        runs = m.get("checks_run", {})
        how = []
        for c in det:
            lines = runs.get(c, {}).get("lines", [])
            concrete = any(l.startswith("VIOLATION") and not l.endswith("no-failing-input-found") for l in lines) or c in m.get("concrete_input", [])
            how.append("%s (%s)" % (c, "failing input" if concrete else "tie broken"))
        missed = [c for c in runs if c not in det]
        rows.append((d, m.get("summary", "").replace("|", "/").replace("\n", " "), m.get("needs", "").replace("|", "/").replace("\n", " "),
                     ", ".join(how) or "-", ", ".join(missed) or "-", HISTORY.get(d, "caught as built")))
    print("| id | change | needs | caught by | run but silent | history |")
    print("|---|---|---|---|---|---|")
    for r in rows:
        print("| %s | %s | %s | %s | %s | %s |" % r)


if __name__ == "__main__":
    main()
