#!/bin/bash
# Runs every kept seeded change against the check of its own property (plus the neighbouring
# checks listed below), records the verdicts in seeded/<id>/meta.json and rebuilds seeded/INDEX.md.
# /repo is patched and reverted for each change (never committed).
cd /verif
declare -A EXTRA=( ["C04-2"]="C02" ["C04-3"]="C02" ["C04-4"]="C02 C01" ["C14-2"]="C15" ["C14-4"]="C15" ["C15-1"]="C14" ["C10-1"]="C11" ["C10-3"]="C12" ["C02-1"]="C18" ["C06-2"]="C09" ["C09-1"]="C06" ["C01-6"]="C02" ["C03-6"]="C02" ["C04-5"]="C02" ["C04-6"]="C02" ["C07-5"]="C09" ["C05-5"]="C07" ["C14-6"]="C15" ["C10-5"]="C12" ["C08-7"]="C02" ["C05-8"]="C18" ["C14-7"]="C15" ["C14-8"]="C15" ["C08-12"]="C02" ["C02-11"]="C08" ["C09-11"]="C06" ["C15-12"]="C14" ["C07-11"]="C09" )
mkdir -p /tmp/seedres
for d in seeded/C*/; do
  id=$(basename $d); p=${id%-*}; n=${id#*-}
  if [ -n "$1" ] && [[ ! " $* " =~ " $id " ]]; then continue; fi
  python3 tools/seedtest.py detect $p $n $p ${EXTRA[$id]} > /tmp/seedres/detect_${p}_${n}.json 2>/tmp/seedres/detect_${p}_${n}.err
  SEED_OUT=$d python3 tools/seedtest.py keepverdict $p $n > /dev/null
  echo "done $id" >> /tmp/seedres/sweep.log
done
python3 tools/seedtable.py > seeded/INDEX.md
echo ALLDONE >> /tmp/seedres/sweep.log
