#!/usr/bin/env python3
"""Rewrites section 7.5 of DESIGN.md from seeded/INDEX.md (run after tools/seedsweep.sh)."""
import os
HERE = os.path.dirname(os.path.dirname(os.path.abspath(__file__)))
rows = [l for l in open(os.path.join(HERE, "seeded", "INDEX.md")) if l.startswith("| C")]
out = ["| id | change (short) | caught by | history |", "|---|---|---|---|"]
n_first_miss = 0
for l in rows:
    f = [x.strip() for x in l.strip().strip("|").split(" | ")]
    sid, summary, needs, caught, silent, hist = f
    short = summary.split(";")[0].split(" so ")[0]
    if len(short) > 140:
        short = short[:137] + "..."
    if silent != "-":
        caught += " (silent: %s)" % silent
    if any(w in hist for w in ("missed at first", "missed by", "missed before", "missed in its first", "only at first", "only statistically", "reported at first only", "stays silent")):
        n_first_miss += 1
    out.append("| %s | %s | %s | %s |" % (sid, short, caught, hist))
sec = '''
### 7.5 Seeded changes and which checks catch them

Fresh sub-agents, given only one property's text and a scratch git worktree of /repo (nothing from
/verif), each produced two source changes that break the property while the crate still compiles
and its test suite still passes, with a demonstration that fails with the change and passes
without.  This was done three times for every property (ids `Cxx-1/2` = first round, `Cxx-3/4` =
second round, `Cxx-5/6` = third round with a prompt that steers towards the less central code
paths, presets and options) a fourth time (`Cxx-7/8`) and, for six properties, a fifth time (`Cxx-9/10`, prompt asking for the
places a main-path checker is least likely to reach; that round produced mostly re-inventions, so
only its new ideas were kept and the round was not extended; agents of later rounds sometimes re-invented an earlier idea, which is
noted, and exact duplicates of the third round were not kept) and, for twelve properties (C02, C03, C05, C06, C07, C08, C09, C14, C15, C16, C18, C19), a sixth time
(`Cxx-11/12`, each prompt naming the code area the earlier rounds had reached least: the low-rank estimator and transformation,
event-only statistics, unusual fault points, CSV/Arrow corner values, flush points at chunk boundaries, nested settings enums).  Every change below was confirmed by
me in a scratch worktree (`tools/seedtest.py confirm`: baseline suite with the patch 45/45,
demonstration with and without the patch) and is kept under `seeded/<id>/` (patch.diff,
demonstration, howto, meta.json with what it needs to manifest, what I ran, and the checks'
verdicts).  `tools/seedsweep.sh` applies each patch to /repo, runs the check of its property (and
the neighbours listed in the script), reverts with `git checkout -- .` and rebuilds
`seeded/INDEX.md`; nothing of this is ever committed to /repo.

All %d changes are caught by the quick tier as it stands (last sweep after the final
strengthening).  %d of them were NOT caught - or only as a broken tie without a failing input, only
statistically, or only by the check of a neighbouring property - by the checks as they were when the change was first run; every miss was a gap
in a generator or an absent oracle/tie, never in a theorem, and was closed by extending the check
(column "history").  The miss rate fell from round to round (15 of 38, 8 of 38, 5 of 30; the 17 new ideas of the fourth round had 6 misses, the 5 of the fifth round 2, the 24 of the sixth round 2
as the checks stood when the round was run - C16-12 and C03-12 - and one more, C08-11, that the checks of the round before would have missed: the
direct-drive tie of the low-rank estimator that catches it was written while the agents were working).  The
larger extensions that came out of this: the content tie of C09 (installed scales = bit-exact
estimate over the model's foreground window), the chain-alone reference of C10, the mirror-rebuild
oracle of C01, the slow-recorder command storms of C11, the default-feature harness of C19, the
microcanonical / step-factor / re-transformation / rejected-update coverage of C02, the step-size
search tie of C07, the direct-drive tie of the low-rank estimator (C08).  Three extensions exposed genuine defects of /repo (fixes a495ad3, 6823555 and c9d2473),
and the thorough tier and multi-seed sweeps exposed four kinds of false alarm of the machinery
itself, all removed (faults that were a function of the evaluation number rather than of the
point; rounding-level energy ties; reference runs compared although scripted faults land on
different chains; an ill-conditioned backward ESH step judged with a fixed tolerance).  "failing
input" = the VIOLATION line carries a concrete replay on which the implementation breaks the
property's text; "tie broken" = only the model/implementation correspondence failed (reported
with `no-failing-input-found`).  C04's own check stays silent on C04-2/3/4/5, C01's on C01-6,
C08's on C08-7 and C07's on C07-11 (caught by C09, whose late-statistic clause it breaks):
C04's claim is partial (the end-to-end statement is statistical) and those changes are caught by
C02, whose statement they break directly.

''' % (len(rows), n_first_miss) + "\n".join(out) + '''

One further change was written by me only to try the low-rank window tie added last (at a switch the
estimator drops its NEWEST instead of its oldest draws: all counts stay right); `./check C09` reports
it with a failing input ("position 0 of its window is not the state of draw 4").  It is not kept as a
seeded change because it does not come from an independent agent.

Checks that were run against a change of another property and stayed silent, as they should:
C01 on C17-2, C07 on C06-1, C05 on C16-2 and C02-4, C13 on C05-2, C18 on C06-4 / C05-6 / C17-6,
C08 on C09-3.
'''
p = os.path.join(HERE, "DESIGN.md")
s = open(p).read()
s = s[:s.index("\n### 7.5 Seeded changes")].rstrip("\n") + "\n" + sec
open(p, "w").write(s)
print(len(rows), n_first_miss)
