"""C08, low-rank part: the low-rank estimator and LowRankMassMatrix::update driven directly with
synthetic windows (hook H1e, harness bin `lowrank`).

  * model tie (bit-exact, coq/model/LowRank.v): the guard of `adapt`, the finite gate and what
    `update` installs (run_lr_update on what compute_update handed over), the entry-wise part of
    rescale_points (run_lr_row), the eigenvalue filter (run_lr_keep on the eigenvalues of the same
    window with cutoff 1);
  * oracles from the property text, computed from the window alone: scales / log-determinant finite
    and positive whatever the window, unchanged id => bit-identical transformation, sigma and mu of
    the diagonal rescaling, the installed spectral factor S solves the Riccati equation
    S (I + G G^T/gamma) S = I + X X^T/gamma of the SPD geometric mean (cutoff 1), Gaussian windows
    of full rank are whitened exactly (gradient = -position in the adapted space);
  * the assumption the theorems leave to faer: a window that rescale_points made non-finite is
    never turned into an accepted update.
"""
import json
import math
import struct

from vlib import coq_eval_shards, coq_list, run_harness_parallel, violation


def f2b(x):
    return struct.unpack("<Q", struct.pack("<d", x))[0]


def b2f(b):
    return struct.unpack("<d", struct.pack("<Q", int(b)))[0]


def fin(x):
    return x == x and abs(x) != float("inf")


def nanbits(b):
    b = int(b)
    return (b & 0x7FF0000000000000) == 0x7FF0000000000000 and (b & 0x000FFFFFFFFFFFFF) != 0


def same_bits(a, b):
    return len(a) == len(b) and all(int(x) == int(y) or (nanbits(x) and nanbits(y)) for x, y in zip(a, b))


def matmul(A, B):
    n, m, k = len(A), len(B[0]) if B else 0, len(B)
    return [[math.fsum(A[i][t] * B[t][j] for t in range(k)) for j in range(m)] for i in range(n)]


def gen_cases(ctx, n):
    r = ctx.rnd()
    cases = []
    cid = 0
    for _ in range(n):
        dim = r.choice([1, 2, 3, 3, 5, 8])
        kind = r.choice(["gauss"] * 5 + ["random", "random", "const_draw0", "const_draw", "const_grad", "nan", "inf", "huge", "tiny",
                                          "identical", "zero_grad", "few", "underflow", "overflow", "dup_rows"])
        nd = r.choice([3, 4, 5, 8, 12, 20, 30]) if kind != "few" else r.choice([0, 1, 2])
        if kind == "gauss" and r.random() < 0.7:
            nd = max(nd, dim + 2)
        mu = [r.uniform(-3, 3) * r.choice([1, 1, 100]) for _ in range(dim)]
        # precision = A A^T + D
        A = [[r.choice([-1, 0, 0, 0.5, 1]) if dim > 1 and r.random() < 0.6 else 0.0 for _ in range(dim)] for _ in range(dim)]
        D = [10 ** r.uniform(-3, 3) for _ in range(dim)]
        P = [[math.fsum(A[i][k] * A[j][k] for k in range(dim)) * math.sqrt(D[i] * D[j]) + (D[i] if i == j else 0.0) for j in range(dim)] for i in range(dim)]
        xs = [[mu[i] + r.gauss(0, 1) / math.sqrt(D[i]) for i in range(dim)] for _ in range(nd)]

        def score(x):
            return [-math.fsum(P[i][j] * (x[j] - mu[j]) for j in range(dim)) for i in range(dim)]
        gs = [score(x) for x in xs]
        j = r.randrange(dim)
        t = r.randrange(nd) if nd else 0
        if kind == "random":
            gs = [[r.gauss(0, 1) * r.choice([1, 10]) for _ in range(dim)] for _ in xs]
        elif kind == "const_draw0":
            for x in xs:
                x[j] = 0.0
        elif kind == "const_draw":
            c0 = r.choice([0.1, 1.0, -2.5, 1e10])
            for x in xs:
                x[j] = c0
        elif kind == "const_grad":
            c0 = r.choice([0.0, 1.0, -0.3])
            for g in gs:
                g[j] = c0
        elif kind == "nan":
            (xs if r.random() < 0.5 else gs)[t][j] = float("nan")
        elif kind == "inf":
            (xs if r.random() < 0.5 else gs)[t][j] = r.choice([float("inf"), float("-inf")])
        elif kind == "huge":
            e = r.choice([1e150, 1e200, 1e300])
            for x, g in zip(xs, gs):
                x[j] *= e
                if r.random() < 0.5:
                    g[j] /= e
        elif kind == "tiny":
            e = r.choice([1e-150, 1e-200, 1e-300])
            for x, g in zip(xs, gs):
                x[j] = (x[j] - mu[j]) * e
                if r.random() < 0.5:
                    g[j] /= e
        elif kind == "identical":
            xs = [list(xs[0]) for _ in xs]
            gs = [list(gs[0]) for _ in gs]
        elif kind == "zero_grad":
            gs = [[0.0] * dim for _ in gs]
        elif kind == "underflow":
            for x, g in zip(xs, gs):
                x[j] = (x[j] - mu[j]) * 1e-160
                g[j] *= 1e150
        elif kind == "overflow":
            for x, g in zip(xs, gs):
                x[j] *= 1e140
                g[j] *= 1e-160
        elif kind == "dup_rows" and dim > 1:
            k2 = (j + 1) % dim
            for x, g in zip(xs, gs):
                x[k2] = x[j]
                g[k2] = g[j]
        cutoff = r.choice([2.0, 2.0, 1.0, 1.5, 10.0])
        gamma = r.choice([1e-5, 1e-5, 1e-10, 1.0, 0.1])
        if kind == "gauss" and r.random() < 0.6:
            cutoff, gamma = 1.0, r.choice([1e-8, 1e-10])
        px = [mu[i] + r.uniform(-2, 2) / math.sqrt(D[i]) for i in range(dim)]
        base = {"dim": dim, "kind": kind, "gamma": str(f2b(gamma)), "ndraws": nd,
                "prev_stds": [str(f2b(math.exp(r.uniform(-3, 3)))) for _ in range(dim)],
                "prev_mean": [str(f2b(r.uniform(-5, 5))) for _ in range(dim)],
                "draws": [[str(f2b(v)) for v in x] for x in xs], "grads": [[str(f2b(v)) for v in g] for g in gs],
                "probe_x": [str(f2b(v)) for v in px], "probe_g": [str(f2b(v)) for v in score(px)]}
        if kind == "gauss":
            base["prec"] = P
            base["mu_true"] = mu
        c1 = dict(base, id=cid, cutoff=str(f2b(1.0)), pair=None)
        cid += 1
        cases.append(c1)
        if cutoff != 1.0:
            c2 = dict(base, id=cid, cutoff=str(f2b(cutoff)), pair=c1["id"])
            cid += 1
            cases.append(c2)
    return cases


def gen_direct(ctx, n, first_id):
    """direct calls of LowRankMassMatrix::update: the gate and what it installs"""
    r = ctx.rnd()
    cases = []
    special = [float("nan"), float("inf"), float("-inf")]
    for k in range(n):
        dim = r.choice([1, 2, 3, 5])
        ne = r.randint(0, dim)
        stds = [math.exp(r.uniform(-30, 30)) for _ in range(dim)]
        mean = [r.uniform(-1e3, 1e3) for _ in range(dim)]
        vals = [math.exp(r.uniform(-20, 20)) for _ in range(ne)]
        vecs = [[r.uniform(-1, 1) for _ in range(dim)] for _ in range(ne)]
        mu = [r.uniform(-3, 3) for _ in range(dim)]
        where = r.choice(["none", "none", "stds", "mean", "vals", "vecs", "mu", "stds0", "vals0", "vals0"])
        nonpos = [0.0, -0.0, -1.0, 5e-324, 1e-310, -1e-300, 2.3e-308]
        if where == "stds":
            stds[r.randrange(dim)] = r.choice(special)
        elif where == "mean":
            mean[r.randrange(dim)] = r.choice(special)
        elif where == "vals" and ne:
            vals[r.randrange(ne)] = r.choice(special)
        elif where == "vecs" and ne:
            vecs[r.randrange(ne)][r.randrange(dim)] = r.choice(special)
        elif where == "stds0":
            stds[r.randrange(dim)] = r.choice(nonpos)
        elif where == "vals0" and ne:
            vals[r.randrange(ne)] = r.choice(nonpos)
        elif where == "mu":
            mu[r.randrange(dim)] = r.choice(special)     # (not gated by the code: see audit)
        cases.append({"id": first_id + k, "dim": dim, "kind": "direct:" + where,
                      "prev_stds": [str(f2b(math.exp(r.uniform(-3, 3)))) for _ in range(dim)],
                      "prev_mean": [str(f2b(r.uniform(-5, 5))) for _ in range(dim)],
                      "direct": {"stds": [str(f2b(v)) for v in stds], "mean": [str(f2b(v)) for v in mean],
                                 "vals": [str(f2b(v)) for v in vals], "vecs": [[str(f2b(v)) for v in c] for c in vecs],
                                 "mu": [str(f2b(v)) for v in mu]}})
    return cases


def gen_regrad(ctx, n, first_id):
    """update_from_grad (initialisation from one gradient) with every kind of gradient entry"""
    r = ctx.rnd()
    special = [0.0, -0.0, float("inf"), float("-inf"), float("nan"), 5e-324, 1e-310, 1e-300, 1e300, 1e-21, 1e21, 1e-20, 1e20, -1e-25, 3e25]
    cases = []
    for k in range(n):
        dim = r.choice([1, 2, 3, 5, 8])
        grad = [r.choice(special) if r.random() < 0.5 else r.choice([-1, 1]) * math.exp(r.uniform(-50, 50)) for _ in range(dim)]
        pos = [r.uniform(-1e3, 1e3) for _ in range(dim)]
        cases.append({"id": first_id + k, "dim": dim, "kind": "regrad",
                      "prev_stds": [str(f2b(math.exp(r.uniform(-3, 3)))) for _ in range(dim)],
                      "prev_mean": [str(f2b(r.uniform(-5, 5))) for _ in range(dim)],
                      "regrad": {"pos": [str(f2b(v)) for v in pos], "grad": [str(f2b(v)) for v in grad]}})
    return cases


def zl(bits):
    return coq_list(["%d%%Z" % int(b) for b in bits])


def update_expr(o, upd, count):
    b = o["before"]
    has = upd is not None
    u = upd or {"stds": [], "mean": [], "vals": [], "vecs": [], "mu": []}
    return "run_lr_update (%d)%%Z %d%%N %s %s %s %s %s %s %s %s %s" % (
        b["id"], count, "true" if has else "false", zl(u["stds"]), zl(u["mean"]), zl(u["vals"]),
        coq_list([zl(c) for c in u["vecs"]]), zl(u["mu"]), zl(b["stds"]), zl(b["inv_stds"]), zl(b["mean"]))


def state_rows(p):
    rows = [p["stds"], p["inv_stds"], p["mean"]]
    if p["inner"] is not None:
        rows += [p["inner"]["vals_sqrt"], p["inner"]["vals_sqrt_inv"], p["inner"]["mu"]]
    return rows


def scales_audit(p):
    """the property's `never degenerates` clause on a read-back transformation"""
    bad = []
    for key in ("stds", "inv_stds"):
        v = [b2f(x) for x in p[key]]
        if not all(fin(x) and x > 0 for x in v):
            bad.append("%s = %r" % (key, v))
    # (the translation is not a scale: the property does not speak about it; that update() refuses a
    # non-finite translation is part of the model tie)
    if p["inner"] is not None:
        for key in ("vals_sqrt", "vals_sqrt_inv"):
            v = [b2f(x) for x in p["inner"][key]]
            if not all(fin(x) and x > 0 for x in v):
                bad.append("%s = %r" % (key, v))
        if not fin(b2f(p["inner"]["logdet"])):
            bad.append("low-rank log-determinant %r" % b2f(p["inner"]["logdet"]))
    if not fin(b2f(p["logdet"])):
        bad.append("log-determinant %r" % b2f(p["logdet"]))
    return bad


def window_oracles(c, o, stats):
    """oracles computed from the window alone (pure python, tolerances)"""
    bad = []
    dim, nd = c["dim"], c["ndraws"]
    cu = o.get("compute_update")
    changed = o["after"]["id"] != o["before"]["id"]
    if not changed or not cu or "panic" in cu:
        return bad
    xs = [[b2f(v) for v in x] for x in c["draws"]]
    gs = [[b2f(v) for v in g] for g in c["grads"]]
    stds = [b2f(v) for v in o["after"]["stds"]]
    mean = [b2f(v) for v in o["after"]["mean"]]
    X = [[0.0] * nd for _ in range(dim)]
    G = [[0.0] * nd for _ in range(dim)]
    wellcond = True
    for i in range(dim):
        col = [x[i] for x in xs]
        gcol = [g[i] for g in gs]
        mx, mg = math.fsum(col) / nd, math.fsum(gcol) / nd
        vx = math.fsum((v - mx) ** 2 for v in col) / nd
        vg = math.fsum((v - mg) ** 2 for v in gcol) / nd
        # only where the variances are not dominated by cancellation
        sx = max(abs(v) for v in col)
        sg = max(abs(v) for v in gcol)
        if not (vx > 1e-12 * sx * sx and vg > 1e-12 * sg * sg and 1e-100 < vx < 1e100 and 1e-100 < vg < 1e100):
            wellcond = False
            continue
        sig = (vx / vg) ** 0.25
        mu_ = mx + sig * sig * mg
        if abs(stds[i] - sig) > 1e-8 * sig:
            bad.append("coordinate %d: installed scale %r, the window gives (var(x)/var(g))^(1/4) = %r" % (i, stds[i], sig))
        if abs(mean[i] - mu_) > 1e-8 * (abs(mx) + sig * sig * abs(mg) + sig):
            bad.append("coordinate %d: installed translation %r, the window gives mean(x) + sigma^2 mean(g) = %r" % (i, mean[i], mu_))
        X[i] = [(v - mu_) / sig for v in col]
        G[i] = [v * sig for v in gcol]
        dm, gm = math.fsum(X[i]) / nd, math.fsum(G[i]) / nd
        X[i] = [v - dm for v in X[i]]
        G[i] = [v - gm for v in G[i]]
    stats["oracle_rescale"] += 1
    gamma = b2f(c["gamma"])
    cutoff = b2f(c["cutoff"])
    vals = [b2f(v) for v in cu["vals"]]
    vecs = [[b2f(v) for v in col] for col in cu["vecs"]]
    for v in vals:
        if not (v > cutoff or v < 1.0 / cutoff):
            bad.append("eigenvalue %r inside [1/cutoff, cutoff] = [%r, %r] was kept" % (v, 1.0 / cutoff, cutoff))
    # orthonormal eigenvectors
    for a in range(len(vecs)):
        for b_ in range(a, len(vecs)):
            d = math.fsum(x * y for x, y in zip(vecs[a], vecs[b_]))
            if abs(d - (1.0 if a == b_ else 0.0)) > 1e-6:
                bad.append("eigenvectors %d, %d are not orthonormal (inner product %r)" % (a, b_, d))
                break
    # translation of the spectral part: mu = dm + gm + U (Lambda - I) U^T gm (rescaled, pre-centring means)
    rs = o.get("rescale")
    if rs and "panic" not in rs and not bad:
        dm = [b2f(v) for v in rs["draw_mean"]]
        gm = [b2f(v) for v in rs["grad_mean"]]
        mu_i = [b2f(v) for v in cu["mu"]]
        if all(fin(v) for v in dm + gm + mu_i):
            dots = [math.fsum(u * g for u, g in zip(vecs[k], gm)) for k in range(len(vals))]
            for i in range(dim):
                want = dm[i] + gm[i] + math.fsum((vals[k] - 1.0) * vecs[k][i] * dots[k] for k in range(len(vals)))
                sc = abs(dm[i]) + abs(gm[i]) + math.fsum(abs((vals[k] - 1.0) * vecs[k][i] * dots[k]) for k in range(len(vals))) + 1e-300
                if abs(mu_i[i] - want) > 1e-9 * sc:
                    bad.append("coordinate %d: translation of the spectral part %r, the estimate gives dm + gm + U (Lambda - I) U^T gm = %r" % (i, mu_i[i], want))
                    break
            stats["oracle_mu"] = stats.get("oracle_mu", 0) + 1
    if wellcond and cutoff == 1.0 and gamma >= 0.99e-5 and not bad:
        # Riccati equation of the SPD geometric mean: S B S = A
        S = [[(1.0 if i == j else 0.0) + math.fsum((vals[k] - 1.0) * vecs[k][i] * vecs[k][j] for k in range(len(vals))) for j in range(dim)] for i in range(dim)]
        XT = [list(r_) for r_ in zip(*X)] if nd else []
        GT = [list(r_) for r_ in zip(*G)] if nd else []
        A = matmul(X, XT)
        B = matmul(G, GT)
        for i in range(dim):
            for j in range(dim):
                A[i][j] = A[i][j] / gamma + (1.0 if i == j else 0.0)
                B[i][j] = B[i][j] / gamma + (1.0 if i == j else 0.0)
        L = matmul(matmul(S, B), S)
        scale = max(max(abs(v) for v in row) for row in A + L)
        err = max(abs(L[i][j] - A[i][j]) for i in range(dim) for j in range(dim))
        stats["oracle_riccati"] += 1
        if err > 1e-7 * scale:
            bad.append("the installed spectral factor S does not solve S (I + G G^T/gamma) S = I + X X^T/gamma (error %.3g at scale %.3g)" % (err, scale))
    if c["kind"] == "gauss" and cutoff == 1.0 and gamma <= 1e-7 and nd >= dim + 2 and wellcond and o.get("probe"):
        tp = [b2f(v) for v in o["probe"]["tpos"]]
        tg = [b2f(v) for v in o["probe"]["tgrad"]]
        sc = max(1.0, max(abs(v) for v in tp))
        err = max(abs(a + b_) for a, b_ in zip(tp, tg))
        stats["oracle_whitening"] += 1
        if not err <= 1e-4 * sc:
            bad.append("Gaussian window of %d draws in dimension %d: in the adapted space gradient %r is not minus position %r" % (nd, dim, tg, tp))
    return bad


def run_part(ctx, quick):
    prop = ctx.prop
    wc = gen_cases(ctx, 140 if quick else 1400)
    # minimised failures found earlier run first (windows on which the pre-fix gate installed a zero eigenvalue)
    import os
    cp = os.path.join(os.path.dirname(os.path.abspath(__file__)), "lowrank_corpus.json")
    for k, c0 in enumerate(json.load(open(cp))):
        wc.append(dict(c0, id=len(wc)))
    dc = gen_direct(ctx, 80 if quick else 800, first_id=len(wc))
    gc = gen_regrad(ctx, 60 if quick else 600, first_id=len(wc) + len(dc))
    # histories: several steps on ONE transformation (what the lifetime theorem quantifies over):
    # windows, direct updates and re-initialisations of the same dimension in random order
    r = ctx.rnd()
    hc = []
    by_dim = {}
    for c0 in wc + dc + gc:
        by_dim.setdefault(c0["dim"], []).append(c0)
    for k in range(40 if quick else 400):
        dim = r.choice(sorted(by_dim))
        pool = by_dim[dim]
        steps = [dict(r.choice(pool)) for _ in range(r.randint(2, 6))]
        if k % 2 == 0:
            # an accepted update WITH eigenvalues followed (at once or later) by an accepted update
            # of rank 0 or a re-initialisation: nothing of the old low-rank part may survive
            def valid(ne):
                return {"dim": dim, "kind": "direct:none",
                        "direct": {"stds": [str(f2b(math.exp(r.uniform(-3, 3)))) for _ in range(dim)],
                                   "mean": [str(f2b(r.uniform(-3, 3))) for _ in range(dim)],
                                   "vals": [str(f2b(math.exp(r.choice([-1, 1]) * r.uniform(0.8, 5)))) for _ in range(ne)],
                                   "vecs": [[str(f2b(1.0 if i == j else 0.0)) for i in range(dim)] for j in range(ne)],
                                   "mu": [str(f2b(r.uniform(-2, 2))) for _ in range(dim)]}}
            steps = [valid(r.randint(1, dim))] + steps[: r.randint(0, 2)] + [valid(0)] + steps[2:4]
        for st in steps:
            st.pop("pair", None)
        hc.append({"id": len(wc) + len(dc) + len(gc) + k, "dim": dim, "kind": "history", "history": steps,
                   "prev_stds": pool[0]["prev_stds"], "prev_mean": pool[0]["prev_mean"]})
    cases = wc + dc + gc + hc
    outs, errs = run_harness_parallel("lowrank", cases)
    ctx.oblig("harness-run-lowrank", not errs and len(outs) == len(cases), "\n".join(errs)[:1500])
    stats = {"windows": len(wc), "direct": len(dc), "regrad": len(gc), "histories": len(hc), "kinds": {}, "changed": 0, "kept_previous": 0, "gave_up": 0,
             "nonfinite_rescaled": 0, "oracle_rescale": 0, "oracle_riccati": 0, "oracle_whitening": 0, "filter_pairs": 0,
             "row_ties": 0}
    exprs, meta = [], []
    nbad = 0
    ntie = 0

    def impl_bad(what, c, extra=None):
        nonlocal nbad
        nbad += 1
        if nbad <= 3:
            slim = {k: v for k, v in c.items() if k not in ("prec",)}
            violation(ctx, "implementation violates C08 (low-rank): " + what, {"case": slim, "detail": extra}, found_input=True)

    def tie_bad(what, c, extra=None):
        nonlocal ntie
        ntie += 1
        if ntie <= 3:
            violation(ctx, "model/implementation correspondence broken (low-rank %s)" % what,
                      {"case": {k: v for k, v in c.items() if k != "prec"}, "detail": extra,
                       "correspondence": "model/LowRank.v vs LowRankMassMatrixStrategy / LowRankMassMatrix::update"}, found_input=False)

    items = []
    for c in cases:
        o = outs.get(c["id"])
        if not o:
            continue
        if "history" in c and "steps" in o:
            stats["history_steps"] = stats.get("history_steps", 0) + len(o["steps"])
            for k, (st, so) in enumerate(zip(c["history"], o["steps"])):
                items.append((dict(st, id="%s.%d" % (c["id"], k), pair=None, in_history=[c["id"], k]), so))
        else:
            items.append((c, o))
    for c, o in items:
        if "harness_panic" in o:
            impl_bad("%s window: panic %s" % (c["kind"], o["harness_panic"]), c)
            continue
        ctx.evaluations += 1
        stats["kinds"][c["kind"]] = stats["kinds"].get(c["kind"], 0) + 1
        before, after = o["before"], o["after"]
        changed = after["id"] != before["id"]
        stats["changed" if changed else "kept_previous"] += 1
        ctx.nontrivial.add(("lr", c["id"]))
        # --- property text on the read-back transformation ---
        if o.get("panic") or (isinstance(o.get("adapt"), dict) and "panic" in o["adapt"]):
            impl_bad("%s: the estimator panicked: %s" % (c["kind"], o.get("panic") or o["adapt"]["panic"]), c)
            continue
        sb = scales_audit(after)
        if sb:
            impl_bad("%s window of %d draws leaves a degenerate transformation in use: %s" % (c["kind"], c.get("ndraws", 0), "; ".join(sb[:3])), c)
            continue
        if not changed and state_rows(after) != state_rows(before):
            impl_bad("%s: the transformation id did not move but its parameters did" % c["kind"], c)
            continue
        if not changed and (after["logdet"] != before["logdet"]):
            impl_bad("%s: the transformation id did not move but its log-determinant did" % c["kind"], c)
            continue
        if changed:
            # log-determinant = -sum ln(sigma) - 1/2 sum ln(lambda)
            want = -math.fsum(math.log(b2f(s)) for s in after["stds"] if b2f(s) > 0)
            if after["inner"] is not None:
                want += -math.fsum(math.log(b2f(v)) for v in after["inner"]["vals_sqrt"] if b2f(v) > 0)
            got = b2f(after["logdet"])
            if not sb and not abs(got - want) <= 1e-9 * (1 + abs(want)):
                impl_bad("%s: log-determinant %r, the installed scales give %r" % (c["kind"], got, want), c)
                continue
        # --- model: guard, gate, install ---
        if "regrad" in c:
            if after["inner"] is not None or after["id"] != before["id"] + 1:
                impl_bad("update_from_grad left a low-rank part in place or did not advance the id", c)
                continue
            exprs.append("run_lr_from_grad (%d)%%Z %s %s" % (before["id"], zl(c["regrad"]["pos"]), zl(c["regrad"]["grad"])))
            meta.append(("regrad", c, o))
            continue
        if "direct" in c:
            upd, count = c["direct"], 3
        else:
            cu = o.get("compute_update")
            if isinstance(cu, dict) and "panic" in cu:
                impl_bad("%s: compute_update panicked: %s" % (c["kind"], cu["panic"]), c)
                continue
            upd, count = cu, o["count"]
            if cu is None:
                stats["gave_up"] += 1
        exprs.append(update_expr(o, upd, count))
        meta.append(("update", c, o))
        if "direct" in c:
            continue
        # --- faer assumption + rows of rescale_points ---
        rs = o.get("rescale")
        if rs and "panic" not in rs and c["ndraws"] >= 1:
            nonfin = any(not fin(b2f(v)) for col in rs["draws"] + rs["grads"] for v in col)
            if nonfin:
                stats["nonfinite_rescaled"] += 1
                if changed:
                    impl_bad("%s: rescale_points produced a non-finite window and the update was accepted all the same" % c["kind"], c)
                    continue
            if len(ctx.samples) < 4 and changed:
                ctx.samples.append({"kind": c["kind"], "dim": c["dim"], "ndraws": c["ndraws"], "stds": [b2f(v) for v in after["stds"]],
                                    "eigenvalues": [b2f(v) ** 2 for v in (after["inner"] or {"vals_sqrt": []})["vals_sqrt"]]})
            for i in range(c["dim"]):
                vs = [x[i] for x in c["draws"]]
                gsr = [g[i] for g in c["grads"]]
                exprs.append("run_lr_row %s %s %d%%Z %d%%Z %d%%Z %d%%Z" % (
                    zl(vs), zl(gsr), int(rs["mu"][i]), int(rs["stds"][i]), int(rs["draw_mean"][i]), int(rs["grad_mean"][i])))
                meta.append(("row", c, (i, [col[i] for col in rs["draws"]], [col[i] for col in rs["grads"]])))
        # --- filter: the same window with cutoff 1 ---
        if c.get("pair") is not None and outs.get(c["pair"]):
            o1 = outs[c["pair"]]
            cu1, cu = o1.get("compute_update"), o.get("compute_update")
            if cu1 and cu and "panic" not in cu1 and "panic" not in cu:
                exprs.append("run_lr_keep %d%%Z %s" % (int(c["cutoff"]), zl(cu1["vals"])))
                meta.append(("keep", c, (cu1, cu)))
        ob = window_oracles(c, o, stats)
        if ob:
            impl_bad("%s window (%d draws, dimension %d): %s" % (c["kind"], c["ndraws"], c["dim"], ob[0]), c, ob[:4])
    prelude = "From NutsV Require Import lib.Fp model.LowRank.\nFrom Coq Require Import ZArith NArith List.\nImport ListNotations.\n"
    vals, err = coq_eval_shards(prop + "_lr", prelude, exprs, shard_size=max(1, (len(exprs) + 15) // 16))
    ctx.oblig("model-eval-lowrank", err is None, err or "")
    if not err:
        for (kind, c, x), m in zip(meta, vals):
            ctx.evaluations += 1
            if kind == "update":
                o = x
                head, rows = m[0], m[1:]
                ch_impl = 1 if o["after"]["id"] != o["before"]["id"] else 0
                if int(head[0]) != ch_impl or int(head[1]) != o["after"]["id"]:
                    tie_bad("update decision: model changed=%s id=%s, implementation id %s -> %s" % (head[0], head[1], o["before"]["id"], o["after"]["id"]), c)
                elif ch_impl:
                    ir = state_rows(o["after"])
                    if len(ir) != len(rows) or not all(same_bits(a, b_) for a, b_ in zip(ir, rows)):
                        tie_bad("installed parameters: model %s implementation %s" % (rows, ir), c)
            elif kind == "regrad":
                o = x
                ir = [o["after"]["stds"], o["after"]["inv_stds"], o["after"]["mean"]]
                if int(m[0][1]) != o["after"]["id"] or not all(same_bits(a, b_) for a, b_ in zip(ir, m[1:])):
                    tie_bad("update_from_grad: model %s implementation %s" % (m[1:], ir), c)
            elif kind == "row":
                i, dr, gr = x
                stats["row_ties"] += 1
                if not (same_bits(dr, m[0]) and same_bits(gr, m[1])):
                    tie_bad("rescale_points row %d: model %s implementation %s" % (i, m, [dr, gr]), c)
            else:
                cu1, cu = x
                stats["filter_pairs"] += 1
                want = [v for v, k in zip(cu1["vals"], m) if k]
                if [int(v) for v in want] != [int(v) for v in cu["vals"]]:
                    tie_bad("eigenvalue filter: cutoff %r keeps %s of %s, the implementation kept %s" % (
                        b2f(c["cutoff"]), [b2f(v) for v in want], [b2f(v) for v in cu1["vals"]], [b2f(v) for v in cu["vals"]]), c)
    ctx.oblig("correspondence-lowrank", ntie == 0, "%d cases differ" % ntie)
    ctx.oblig("impl-audit-lowrank", nbad == 0, "%d failures" % nbad)
    ctx.notes["lowrank_input_distribution"] = stats
    return nbad, ntie
