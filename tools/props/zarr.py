"""C15: flushed Zarr traces are complete at every flush point.  Theorems over model/Zarr.v
(SampleBuffer, chunk writes, the warmup->sample transition, flush, finalize, the async write
queue); the real ZarrChainStorage / ZarrAsyncChainStorage are driven from real chains, the store
is snapshotted after every record and read back with a fresh zarrs reader; the model is evaluated
on the logged record_sample histories and compared with every read-back, and an oracle taken from
the property text checks every snapshot, every later snapshot and the final store."""
import json
import os

from vlib import *  # noqa

AX = ()

PRESETS = ["diag_nuts", "lowrank_nuts", "flow_nuts", "diag_mclmc", "lowrank_mclmc", "flow_mclmc"]
CHUNKS = [1, 2, 3, 7, 100]
TYPES = ["f64", "f32", "i64", "u64", "bool", "string"]


def around(c, r, cap):
    """draw counts around the multiples of the chunk size (incl. 0 and 1)"""
    cand = {0, 1, 2, c - 1, c, c + 1, 2 * c - 1, 2 * c, 2 * c + 1, 3 * c}
    cand = sorted(x for x in cand if 0 <= x <= cap)
    return r.choice(cand)


def gen_schema(r):
    """draw variables of all item types, scalars and vectors (vectors of strings are not
    generated: SampleBuffer::push panics on Value::Strings, tracked under C14)"""
    if r.random() < 0.35:
        return None, None
    dims = [["d1", 1], ["d2", 2], ["d3", 3]]
    if r.random() < 0.12:
        dims.append(["d0", 0])
    vars_ = []
    n = r.randint(1, 6)
    for i in range(n):
        t = r.choice(TYPES)
        if t == "string" or r.random() < 0.45:
            ds = []
        else:
            ds = [r.choice(dims)[0] for _ in range(r.choice([1, 1, 2]))]
        vars_.append(["x%d_%s" % (i, t), t, ds])
    if not any(v[1] == "string" for v in vars_) and r.random() < 0.5:
        vars_.append(["msg", "string", []])
    return vars_, dims


def gen_cases(ctx, n):
    r = ctx.rnd()
    cases = []
    # boundary corpus first: every chunk size with counts below / equal / above / not dividing
    corpus = []
    for c in CHUNKS:
        for (nt, nd) in [(0, 0), (0, 1), (1, 0), (1, 1), (c, c), (c + 1, c - 1 if c > 1 else 2), (2 * c, 2 * c + 1), (3, 0), (0, 3)]:
            if nt <= 16 and nd <= 16:
                corpus.append((c, nt, nd))
    r.shuffle(corpus)
    for cid in range(n):
        if cid < len(corpus) and cid < n // 2:
            chunk, nt, nd = corpus[cid]
        else:
            chunk = r.choice(CHUNKS)
            cap = 9 if chunk == 100 else (15 if chunk == 7 else 10)
            nt, nd = around(chunk, r, cap), around(chunk, r, cap)
        backend = r.choice(["sync", "async"])
        c = {"id": cid, "backend": backend, "store": "fs" if r.random() < 0.3 else "mem", "chunk": chunk,
             "num_tune": nt, "num_draws": nd, "preset": r.choice(PRESETS), "dim": r.choice([2, 3]),
             "seed": r.randint(1, 10 ** 6), "maxdepth": 3,
             "store_divergences": r.random() < 0.4, "store_extra": r.random() < 0.3}
        schema, dims = gen_schema(r)
        if schema:
            c["schema"], c["dim_sizes"] = schema, dims
        # divergences: scripted faults of the density (event statistics)
        pat = r.choice(["none", "few", "many", "region", "rec"])
        total = nt + nd
        if pat in ("few", "many", "rec") and total:
            k = {"few": 2, "many": 8, "rec": 3}[pat]
            kinds = ["rec"] if pat == "rec" else ["huge_energy", "huge_energy", "rec", "nan_logp", "inf_grad"]
            c["faults"] = sorted([[r.randint(25, 12 * total + 40), r.choice(kinds)] for _ in range(k)])
        elif pat == "region":
            c["region_fault"] = [r.choice([0.3, 0.8, 1.5]), r.choice(["huge_energy", "rec"])]
        if r.random() < 0.25:
            c["num_chains"] = 2
            c["order_seed"] = r.randint(1, 10 ** 6)
        if r.random() < 0.3 and total:
            c["flush_at"] = sorted(set(r.randrange(total * c.get("num_chains", 1)) for _ in range(r.randint(0, 4))))
        if r.random() < 0.15 and total:
            c["stop_after"] = [r.randint(0, total) for _ in range(c.get("num_chains", 1))]
        if backend == "async":
            c["latency_us"] = r.choice([0, 0, 100, 300, 800])
            c["lat_seed"] = r.randint(1, 10 ** 6)
            c["rt_threads"] = r.choice([1, 2, 3])
        cases.append(c)
    return cases


# ------------------------------------------------------------------------------------------------
# the implementation-side oracle, straight from the property text
# ------------------------------------------------------------------------------------------------
def expected_rows(o, upto):
    """per chain, per array index ([warmup vars..., sample vars...]): the values record_sample was
    given for that array in the records 0..upto (inclusive), in order"""
    nv = len(o["vars"])
    exp = [[[] for _ in range(2 * nv)] for _ in range(o["nchains"])]
    for k, h in enumerate(o["history"]):
        if k > upto:
            break
        base = 0 if h["tuning"] else nv
        for i, t in enumerate(h["vals"]):
            if t is not None:
                exp[h["c"]][base + i].append(t)
    return exp


def array_name(o, a):
    nv = len(o["vars"])
    v = o["vars"][a % nv]
    grp = ("warmup_" if a < nv else "") + ("sample_stats" if v["stat"] else "posterior")
    return grp + "/" + v["name"]


def check_prefix(o, arrays, exp, where, bad, limit=3):
    for c in range(o["nchains"]):
        for a, e in enumerate(exp[c]):
            arr = arrays[a]
            if "err" in arr:
                bad.append("%s: array %s cannot be read: %s" % (where, array_name(o, a), arr["err"][:200]))
                if len(bad) >= limit:
                    return
                continue
            if not e:
                continue
            rows = arr["rows"][c] if c < len(arr["rows"]) else []
            if arr["n"] < len(e):
                bad.append("%s: %s of chain %d has %d entries, %d values were recorded and flushed before" % (
                    where, array_name(o, a), c, arr["n"], len(e)))
            elif rows[:len(e)] != e:
                j = next(i for i in range(len(e)) if i >= len(rows) or rows[i] != e[i])
                bad.append("%s: %s of chain %d entry %d reads %s, recorded value was %s" % (
                    where, array_name(o, a), c, j,
                    o["tokens"][rows[j]] if j < len(rows) else "<missing>", o["tokens"][e[j]]))
            if len(bad) >= limit:
                return


def oracle(c, o):
    bad = []
    if "set_position" in o and o.get("new_trace") == "ok":
        return None     # the scripted density rejected the initial point: no run
    if "harness_panic" in o or o.get("new_trace") != "ok" or "set_position" in o or "init_chain" in o:
        bad.append("the trace could not be created: %s" % json.dumps({k: o.get(k) for k in ("harness_panic", "new_trace", "set_position", "init_chain")})[:300])
        return bad
    f = o.get("failure")
    if f and f.get("op") != "draw":
        bad.append("%s failed after record %s: %s" % (f.get("op"), f.get("k"), (f.get("err") or f.get("panic") or "")[:300]))
    for h in o["history"]:
        if h["unknown"]:
            bad.append("record_sample was given values for unknown variables %s" % h["unknown"])
            break
    last_flush = -1
    for s in o["snaps"]:
        if s["flushed"]:
            last_flush = s["k"]
        if last_flush < 0:
            # nothing is promised before the first flush, but the arrays must be readable
            check_prefix(o, s["arrays"], expected_rows(o, -1), "snapshot after record %d" % s["k"], bad)
        else:
            check_prefix(o, s["arrays"], expected_rows(o, last_flush),
                         "snapshot after record %d (last flush after record %d)" % (s["k"], last_flush), bad)
        if bad:
            return bad
    if f:
        return bad
    everything = expected_rows(o, len(o["history"]))
    if "pre_final" in o:
        check_prefix(o, o["pre_final"], everything, "after ChainStorage::finalize", bad)
    if "final" in o:
        check_prefix(o, o["final"], everything, "after TraceStorage::finalize", bad)
    else:
        bad.append("the finalized store could not be read")
    return bad


# ------------------------------------------------------------------------------------------------
# the model on the logged history
# ------------------------------------------------------------------------------------------------
def nat(n):
    return "%d%%nat" % n


def dims_of(o):
    names = []
    for v in o["vars"]:
        d = v["event_dim"]
        if d is not None and d not in names:
            names.append(d)
    return names


def model_expr(c, o, asyn, ord_):
    nv = len(o["vars"])
    dn = dims_of(o)
    metas = coq_list(["Build_vmeta %s %d%%N %s" % (
        coq_bool(v["type"] == "string"), v["fill"],
        "None" if v["event_dim"] is None else "(Some %s)" % nat(dn.index(v["event_dim"]))) for v in o["vars"]])
    flush_all = c.get("flush_at") is None
    flush_at = set(c.get("flush_at") or [])
    chains = []
    nop = "OComplete %s %s" % (nat(nv + 1), nat(0))
    for ch in range(o["nchains"]):
        ops = []
        for k, h in enumerate(o["history"]):
            fl = flush_all or k in flush_at
            if h["c"] == ch:
                vals = coq_list(["None" if t is None else "Some %d%%N" % t for t in h["vals"]])
                ops.append("(ORec %s %s, %s)" % (coq_bool(h["tuning"]), vals, coq_bool(not fl)))
            elif not fl:
                ops.append("(%s, true)" % nop)
            if fl:
                ops.append("(OFlush, true)")
        chains.append(coq_list(ops))
    return "run_case %s %s %s %s %s %s %s %s" % (
        coq_bool(asyn), nat(c["chunk"]), nat(o["n_tune"]), nat(o["n_draws"]), metas,
        coq_list([nat(i) for i in range(len(dn))]), ord_, coq_list(chains))


def compare(c, o, m, asyn):
    """model rows vs read-back rows; returns list of differences"""
    diffs = []
    nv = len(o["vars"])
    dn = dims_of(o)
    if len(m) != o["nchains"]:
        return ["model returned %d chains" % len(m)]
    for ch, (snaps, counts, pre, fin) in enumerate(m):
        if len(snaps) != len(o["snaps"]):
            diffs.append("chain %d: %d model snapshots, %d real ones" % (ch, len(snaps), len(o["snaps"])))
            continue
        for ms, rs in zip(snaps, o["snaps"]):
            if asyn and not rs["flushed"]:
                continue        # queued writes may or may not have completed: see the oracle
            for a in range(2 * nv):
                ra = rs["arrays"][a]
                if "err" in ra:
                    diffs.append("snapshot %d array %s unreadable" % (rs["k"], array_name(o, a)))
                    break
                hint = o["n_tune"] if a < nv else o["n_draws"]
                if ra["n"] != hint or ra["rows"][ch] != ms[a]:
                    diffs.append("snapshot after record %d, chain %d, %s: model %s (n=%d), store %s (n=%d)" % (
                        rs["k"], ch, array_name(o, a), ms[a], hint, ra["rows"][ch], ra["n"]))
                    break
            if len(diffs) > 3:
                return diffs
        if "failure" in o:
            continue
        real_counts = dict((d, tuple(v)) for d, v in o["chain_counts"][ch])
        for (d, (w, s)) in counts:
            if real_counts.get(dn[d]) != (w, s):
                diffs.append("chain %d finalize counts of %s: model %s, implementation %s" % (ch, dn[d], (w, s), real_counts.get(dn[d])))
        for label, mm, rr in (("after ChainStorage::finalize", pre, o.get("pre_final")), ("final store", fin, o.get("final"))):
            if rr is None:
                continue
            for a in range(2 * nv):
                ra = rr[a]
                if "err" in ra or ra["n"] != len(mm[a]) or ra["rows"][ch] != mm[a]:
                    diffs.append("%s, chain %d, %s: model %s, store %s" % (label, ch, array_name(o, a), mm[a], json.dumps(ra)[:200]))
                    break
    return diffs


PRELUDE = ("From NutsV Require Import model.Zarr.\nFrom Coq Require Import NArith List.\nImport ListNotations.\n")


def run(ctx):
    quick = ctx.tier == "quick"
    audit_forbidden(ctx)
    check_property_file(ctx, "C15", allow_axioms=AX)
    ok, out = build_harness(["zarr"])
    ctx.oblig("harness-build", ok, out[-3000:])
    if not ok:
        return
    ctx.checker_cmds.append("build/target/debug/zarr < cases.jsonl (real Zarr backends, fresh zarrs reader per snapshot)")
    if getattr(ctx, "replay", None):
        rp = json.load(open(ctx.replay))
        cases = [rp["case"]] if "case" in rp else []
    else:
        cases = gen_cases(ctx, 150 if quick else 1400)
    tmp = os.path.join(BUILD, "zarr_tmp")
    os.makedirs(tmp, exist_ok=True)
    outs, errs = run_harness_parallel("zarr", cases, workers=16, timeout=3000, env={"VERIF_ZARR_TMP": tmp})
    missing = [c["id"] for c in cases if c["id"] not in outs]
    ctx.oblig("harness-run", not errs and not missing, ("missing %s " % missing[:5]) + "\n".join(errs)[:2000])
    todo = [c for c in cases if c["id"] in outs]
    # 1. the property, checked on the implementation alone
    nbad = 0
    usable = []
    stats = {"backend": {}, "store": {}, "chunk": {}, "preset": {}, "records": 0, "snapshots": 0, "flush_points": 0,
             "events_recorded": 0, "two_chains": 0, "finalized_in_warmup": 0, "partial_flush_pattern": 0,
             "with_string_values": 0, "arrays_read": 0}
    for c in todo:
        o = outs[c["id"]]
        bad = oracle(c, o)
        if bad is None:
            stats["skipped_no_init"] = stats.get("skipped_no_init", 0) + 1
            continue
        ctx.evaluations += 1
        for key in ("backend", "store", "chunk", "preset"):
            stats[key][str(c[key])] = stats[key].get(str(c[key]), 0) + 1
        if "history" in o:
            stats["records"] += len(o["history"])
            stats["snapshots"] += len(o["snaps"])
            stats["flush_points"] += sum(1 for s in o["snaps"] if s["flushed"])
            stats["arrays_read"] += sum(len(s["arrays"]) for s in o["snaps"])
            nv = len(o["vars"])
            ev = [i for i, v in enumerate(o["vars"]) if v["event_dim"] is not None]
            stats["events_recorded"] += sum(1 for h in o["history"] for i in ev if h["vals"][i] is not None)
            if any(v["type"] == "string" and any(h["vals"][i] is not None for h in o["history"]) for i, v in enumerate(o["vars"])):
                stats["with_string_values"] += 1
            if o["nchains"] > 1:
                stats["two_chains"] += 1
            if o["history"] and all(h["tuning"] for h in o["history"] if h["c"] == 0):
                stats["finalized_in_warmup"] += 1
            if c.get("flush_at") is not None:
                stats["partial_flush_pattern"] += 1
            if len(o["history"]) >= 2:
                ctx.nontrivial.add((c["backend"], c["store"], c["chunk"], c["num_tune"], c["num_draws"], c["preset"],
                                    tuple(h["tuning"] for h in o["history"]), json.dumps(c.get("flush_at")),
                                    json.dumps(c.get("schema"))))
        if bad:
            nbad += 1
            if nbad <= 4:
                violation(ctx, "implementation violates C15: %s" % bad[0],
                          {"case": c, "failures": bad[:6],
                           "failing_input": {"backend": c["backend"], "store": c["store"], "chunk_size": c["chunk"],
                                             "num_tune": c["num_tune"], "num_draws": c["num_draws"], "preset": c["preset"]},
                           "replay": "./check C15 --replay <this file>   (or: echo '<case json>' | build/target/debug/zarr)"},
                          found_input=True)
        elif "history" in o:
            usable.append(c)
        if len(ctx.samples) < 2 and "history" in o and len(o["history"]) >= 3 and not bad:
            s_last = o["snaps"][-1]
            ctx.samples.append({"case": c, "history_head": [{"chain": h["c"], "tuning": h["tuning"], "tokens": h["vals"][:8]} for h in o["history"][:4]],
                                "last_snapshot_head": [{"array": array_name(o, a), "n": s_last["arrays"][a].get("n"), "rows": s_last["arrays"][a].get("rows")} for a in range(4)],
                                "token_table_head": o["tokens"][:12]})
    ctx.oblig("impl-oracle-C15", nbad == 0, "%d of %d cases" % (nbad, len(todo)))
    # 2. the model on the same histories: every flush-point snapshot, finalize counts, final store
    exprs, meta = [], []
    for c in usable:
        o = outs[c["id"]]
        asyn = c["backend"] == "async"
        exprs.append(model_expr(c, o, asyn, "ord_rev" if asyn else "ord_id"))
        meta.append((c, asyn))
    vals, err = coq_eval_shards("C15_zarr", PRELUDE, exprs, shard_size=max(1, (len(exprs) + 15) // 16), timeout=1500)
    ctx.oblig("model-eval", err is None, err or "")
    if err:
        return
    ndiff = 0
    for (c, asyn), m in zip(meta, vals):
        o = outs[c["id"]]
        ctx.evaluations += 1
        diffs = compare(c, o, m, asyn)
        if diffs:
            ndiff += 1
            if ndiff <= 4:
                violation(ctx, "model/implementation correspondence broken (zarr): %s" % diffs[0],
                          {"case": c, "differences": diffs[:6],
                           "correspondence": "model/Zarr.v run_case vs snapshots of the real store (harness zarr)",
                           "theorems_no_longer_tied": ctx.notes.get("theorems", {}).get("C15", [])}, found_input=False)
    ctx.oblig("correspondence-zarr", ndiff == 0, "%d of %d histories differ" % (ndiff, len(meta)))
    # 3. executable confluence: the async model with the reversed completion order against the
    #    sync model, on the real histories (a sample)
    sub = [(c, a) for (c, a) in meta][: (40 if quick else 200)]
    ex2 = []
    for c, a in sub:
        o = outs[c["id"]]
        ex2.append("run_case true %s" % model_expr(c, o, True, "ord_rev").split(" ", 2)[2])
        ex2.append("run_case false %s" % model_expr(c, o, False, "ord_id").split(" ", 2)[2])
    vals2, err2 = coq_eval_shards("C15_confl", PRELUDE, ex2, shard_size=max(2, 2 * ((len(sub) + 15) // 16)), timeout=1500)
    ctx.oblig("model-eval-confluence", err2 is None, err2 or "")
    if not err2:
        nd2 = 0
        for j, (c, a) in enumerate(sub):
            ma, ms = vals2[2 * j], vals2[2 * j + 1]
            o = outs[c["id"]]
            ctx.evaluations += 1
            fl = [i for i, s in enumerate(o["snaps"]) if s["flushed"]]
            for (sa, ca, pa, fa), (ss, cs_, ps, fs) in zip(ma, ms):
                if [sa[i] for i in fl] != [ss[i] for i in fl] or ca != cs_ or pa != ps or fa != fs:
                    nd2 += 1
                    break
        ctx.oblig("model-async-equals-sync-on-histories", nd2 == 0, "%d of %d" % (nd2, len(sub)))
    ctx.notes["input_distribution"] = stats


TRUSTED = {"C15": [
    "Coq 8.16.1 kernel: coqc full .vo build of Properties/C15.v, Print Assumptions: all theorems closed under the global context; vm_compute for model evaluation",
    "hand-written model coq/model/Zarr.v (SampleBuffer, store_zarr_chunk with the store_chunk / store_chunk_subset / store_array_subset paths, record_sample incl. the warmup->sample transition, flush, chain finalize with the event counts, the resize in TraceStorage::finalize, the write queue) - tied to /repo only by the correspondence run",
    "zarrs 0.23 (chunk grid, codecs incl. blosc and vlen strings, metadata, read-modify-write of store_chunk_subset / store_array_subset) and its MemoryStore / FilesystemStore are exercised by the tie but not modelled; a chunk write is an atomic event (on a real filesystem: assumption)",
    "the store is modelled as a product over (array, chain): zarr chunk keys contain the array path, the chain index (chunk extent 1 on the chain axis) and the chunk index; the per-chain JoinSet is represented as one pending list per array, completion in any order at any time (OComplete), the queue bound is over-approximated",
    "harness/src/bin/zarr.rs (drives ZarrChainStorage / ZarrAsyncChainStorage from real chains through nuts_rs::verif::{StorageConfig,TraceStorage,ChainStorage}, snapshots = key->bytes copy or directory copy, fresh zarrs Array::open reader, sync->async adapter with seeded delays), harness/src/lib.rs TestLogp, tools/vlib.py, tools/props/zarr.py",
]}
ASSUMPTIONS = {"C15": [
    "histories have the form warmup^a sample^b per chain (Progress.tuning of real chains, see C06) with a <= num_tune, b <= num_draws (the hinted array sizes); every record carries one optional value per statistic and one value per draw variable",
    "store_warmup(false) is not generated (ignored by both configs: known finding C14-zarr-store-warmup-ignored); draw variables of item type String with dimensions are not generated (SampleBuffer::push panics on Value::Strings: known finding C14-zarr-string-vector-panics)",
    "max_queued_writes is not configurable through the public API (number of arrays); the queue is varied through the number of arrays, the tokio worker count and seeded delays (0-800 us) in front of every store operation",
    "async snapshots taken between flushes are checked by the oracle only (every row recorded up to the last flush), not against the model: which queued writes have completed is not observable",
    "a crash is modelled as an inspection of a copy of the store taken between two backend calls; a process killed inside a chunk write relies on the atomicity of that write",
]}
RULE = {"C15": "boundary corpus (chunk size in {1,2,3,7,100} x tune/draw counts 0, 1, below / equal / above / not dividing the chunk size) then seeded cases: backend sync|async, memory|filesystem store, 6 presets, draw schemas over all item types (scalars, vectors, zero-length dimension), scripted divergences (energy, recoverable errors, NaN) incl. warmup-only, 1-2 chains interleaved, flush after every record or at a seeded subset, chains stopped early (finalize during warmup), async: worker threads and seeded store latencies; after EVERY record the store is copied and read back by a fresh reader; non-trivial = at least 2 records, distinct by (backend, store, chunk, counts, preset, phase history, flush pattern, schema)"}
