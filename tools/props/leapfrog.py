"""C02: integrator and affine transformations.  Theorems over model/Leapfrog.v (generic field),
correspondence of the Qc instance with every leapfrog the real integrator performs (harness
`orbit`), per step, from the logged start state."""
import json
import math
import struct
from fractions import Fraction

from vlib import *  # noqa

AX = STDLIB_AXIOMS


def b2f(b):
    return struct.unpack("<d", struct.pack("<Q", int(b)))[0]


def qlit(fr):
    fr = Fraction(fr)
    return "(%d # %d)" % (fr.numerator, fr.denominator)


def qlist(xs):
    return coq_list([qlit(x) for x in xs])


def hadamard(n):
    h = [[1.0]]
    while len(h) < n:
        h = [r + r for r in h] + [r + [-x for x in r] for r in h]
    s = 1.0 / math.sqrt(n)  # exact for n = 4, 16, 64
    return [[x * s for x in r] for r in h]


def gen_cases(ctx, n, maxdim):
    r = ctx.rnd()
    cases = []
    dims = [1, 2, 3, 4, 5, 7, 8, 16, 33, 64]
    dims = [d for d in dims if d <= maxdim]
    for cid in range(n):
        dim = r.choice(dims)
        kind = r.choice(["euclidean", "exact_normal"])
        c = {"id": cid, "dim": dim, "kind": kind,
             "prec": [r.choice([0.25, 0.5, 1.0, 2.0, 4.0]) for _ in range(dim)],
             "mu": [r.randint(-8, 8) / 8 for _ in range(dim)],
             "stds": [r.choice([0.5, 1.0, 2.0, 1.5, 0.25]) for _ in range(dim)],
             "mean": [r.randint(-8, 8) / 8 for _ in range(dim)],
             "init": [r.randint(-64, 64) / 32 for _ in range(dim)],
             "momentum": [(r.randint(-64, 64) or 3) / 32 for _ in range(dim)],
             "step_size": r.choice([0.125, 0.25, 0.5, 0.3, 0.7]),
             "maxdepth": r.choice([1, 2, 3]),
             "seed": r.randint(0, 2 ** 32),
             "words": [str(r.getrandbits(64)) for _ in range(40)],
             "ndraws": 1, "max_energy_error": 1e9}
        if r.random() < 0.3:
            c["quartic"] = r.choice([0.25, 1.0])
        if r.random() < 0.5 and dim >= 2:
            rank = r.randint(0, min(dim, 6))
            if dim in (4, 16, 64) and r.random() < 0.5:
                H = hadamard(dim)
                vecs = [H[j] for j in r.sample(range(dim), rank)]
            else:
                vecs = []
                for j in r.sample(range(dim), rank):
                    v = [0.0] * dim
                    v[j] = r.choice([1.0, -1.0])
                    vecs.append(v)
            c["lowrank"] = {"vals": [r.choice([0.25, 4.0, 9.0, 0.0625, 2.25]) for _ in range(rank)], "vecs": vecs,
                            "mu": [r.randint(-8, 8) / 8 for _ in range(dim)]}
        if "lowrank" in c and r.random() < 0.15:
            # re-initialisation from a single gradient on a transformation that already has a
            # low-rank part (Chain::set_position on an adapted chain)
            c["ndraws"] = 2
            c["retransform"] = {"regrad": True, "stds": [r.choice([-4.0, -1.0, 0.25, 0.5, 2.0, 9.0]) for _ in range(dim)],
                                "mean": [r.randint(-8, 8) / 8 for _ in range(dim)]}
        elif "lowrank" in c and r.random() < 0.4:
            # a full low-rank update between two trajectories; half of them carry a non-finite
            # eigenvalue and have to be rejected as a whole
            lr0 = c["lowrank"]
            vals2 = [r.choice([0.25, 4.0, 9.0, 0.0625, 2.25]) for _ in lr0["vals"]]
            vecs2 = lr0["vecs"]
            if vals2 and r.random() < 0.25:
                # a window without any eigenvalue outside the cutoff: the update has rank 0 and the
                # previous low-rank part must be gone afterwards
                vals2, vecs2 = [], []
            elif vals2 and r.random() < 0.5:
                # invalid spectral data of every kind the update has to refuse: NaN / +inf / zero /
                # negative eigenvalue, NaN / infinite eigenvector entry
                how = r.choice(["nan", "inf", "zero", "neg", "vec_nan", "vec_inf"])
                if how.startswith("vec"):
                    vecs2 = [list(v) for v in vecs2]
                    vecs2[r.randrange(len(vecs2))][r.randrange(dim)] = None if how == "vec_nan" else "inf"
                else:
                    vals2[r.randrange(len(vals2))] = {"nan": None, "inf": "inf", "zero": 0.0, "neg": -1.0}[how]
            c["ndraws"] = 2
            c["retransform"] = {"stds": [r.choice([0.5, 1.0, 2.0, 1.5, 0.25, 3.0]) for _ in range(dim)],
                                "mean": [r.randint(-8, 8) / 8 for _ in range(dim)],
                                "lowrank": {"vals": vals2, "vecs": vecs2, "mu": [r.randint(-8, 8) / 8 for _ in range(dim)]}}
        elif "lowrank" not in c and r.random() < 0.35 and dim >= 1:
            # the adaptation replaces the transformation between two trajectories: the second draw
            # starts from a state that was computed under the old one
            c["ndraws"] = 2
            c["retransform"] = {"stds": [r.choice([0.5, 1.0, 2.0, 1.5, 0.25, 3.0]) for _ in range(dim)],
                                "mean": [r.randint(-8, 8) / 8 for _ in range(dim)]}
        elif r.random() < 0.3:
            # direct integrator calls with step-size factors (MCLMC's retry halves the step): a path
            # forward and the same path backward
            fs = [r.choice([1.0, 0.5, 0.25, 0.75, 0.125]) for _ in range(r.randint(1, 3))]
            c["single_steps"] = [[1, f] for f in fs] + [[-1, f] for f in reversed(fs)]
            if r.random() < 0.5:
                c["single_steps"] = [[-d, f] for d, f in c["single_steps"]]
            if dim >= 2 and r.random() < 0.4:
                # the third kinetic-energy kind (MCLMC's ESH dynamics) is only driven step by step
                c["kind"] = "microcanonical"
                c["step_size"] = r.choice([0.03125, 0.0625, 0.125, 0.25])
        cases.append(c)
    return cases


def lr_invalid(lr):
    """spectral data that LowRankMassMatrix::update must refuse as a whole"""
    return (any(v is None or isinstance(v, str) or v <= 0 for v in lr["vals"])
            or any(x is None or isinstance(x, str) for col in lr["vecs"] for x in col))


def transform3(c, k):
    """(stds, mean, low-rank part) in force during draw k.  A low-rank update whose spectral data is
    not finite must be rejected as a whole: the old transformation stays in force."""
    rt = c.get("retransform")
    if k >= 1 and rt:
        if "lowrank" in rt:
            if lr_invalid(rt["lowrank"]):
                return c["stds"], c["mean"], c.get("lowrank")
            return rt["stds"], rt["mean"], rt["lowrank"]
        return rt["stds"], rt["mean"], c.get("lowrank")
    return c["stds"], c["mean"], c.get("lowrank")


def transform_of(c, k):
    return transform3(c, k)[:2]


def lowrank_expr(c, k=0):
    dim = c["dim"]
    sig, mean, lr = transform3(c, k)
    if lr:
        r_ = [math.sqrt(v) for v in lr["vals"]]
        return "(mk_lowrank %s %s %s %s %s %s true)" % (
            qlist(sig), qlist(mean), coq_list([qlist(v) for v in lr["vecs"]]), qlist(r_),
            qlist([1 / Fraction(x) for x in r_]), qlist(lr["mu"]))
    return "(mk_lowrank %s %s [] [] [] [] false)" % (qlist(sig), qlist(mean))


def step_exprs(c, o, max_steps):
    exprs, meta = [], []
    pot = "(mk_pot %s %s %s)" % (qlist(c["prec"]), qlist(c["mu"]), qlit(c.get("quartic", 0.0)))
    kind = 1 if c["kind"] == "exact_normal" else 0
    if c["kind"] == "microcanonical":
        # the model's microcanonical step (model/Mclmc.v micro_step_inputs: the step the
        # reversibility theorem is about) on the logged inputs: unit gradient directions and
        # z = exp(-delta) at both ends (libm values, inputs), drift length h*sqrt(n)
        nd = c["dim"]
        if nd > 3:
            # exact evaluation with 53-bit inputs is expensive: the model tie takes the small
            # dimensions, the binary64 recomputation (oracle_micro) covers all of them
            return exprs, meta
        for d in o["draws"]:
            if not d.get("init"):
                continue
            pts = {0: d["init"]}
            n = 0
            max_steps = 1
            for lf in d["leapfrogs"]:
                st_ = pts.get(lf["start_idx"])
                pts[lf["idx"]] = lf
                if lf["diverged"] or st_ is None or n >= max_steps:
                    continue
                h = c["step_size"] * (lf["idx"] - lf["start_idx"]) * lf.get("factor", 1.0)
                g0 = [b2f(b) for b in st_["tg"]]
                g1 = [b2f(b) for b in lf["tg"]]
                gn0, gn1 = math.sqrt(sum(x * x for x in g0)), math.sqrt(sum(x * x for x in g1))
                d0 = math.sqrt(nd) * h / 2 * gn0 / (nd - 1)
                d1 = math.sqrt(nd) * h / 2 * gn1 / (nd - 1)
                if max(abs(d0), abs(d1)) > 12.0 or gn0 == 0 or gn1 == 0:
                    continue
                exprs.append("eval_micro %s %s %s %s %s %s %s" % (
                    qlist([x / gn0 for x in g0]), qlist([x / gn1 for x in g1]), qlit(math.exp(-d0)), qlit(math.exp(-d1)),
                    qlit(h * math.sqrt(nd)), qlist([b2f(b) for b in st_["q"]]), qlist([b2f(b) for b in st_["v"]])))
                meta.append((c, lf, st_))
                n += 1
        return exprs, meta
    for kdraw, d in enumerate(o["draws"]):
        if not d.get("init"):
            continue
        if kdraw >= 1 and (c.get("retransform") or {}).get("regrad"):
            continue
        lr = lowrank_expr(c, kdraw)
        pts = {0: d["init"]}
        n = 0
        for lf in d["leapfrogs"]:
            if lf["diverged"]:
                continue
            st_ = pts.get(lf["start_idx"])
            pts[lf["idx"]] = lf
            if st_ is None or n >= max_steps:
                continue
            sign = lf["idx"] - lf["start_idx"]
            eps = Fraction(c["step_size"]) * sign * Fraction(lf.get("factor", 1.0))
            ce, se = math.cos(float(eps)), math.sin(float(eps))
            q = [Fraction(b2f(b)) for b in st_["q"]]
            v = [Fraction(b2f(b)) for b in st_["v"]]
            exprs.append("eval_step %s %s %d%%N (Q2Qc %s) (Q2Qc %s) (Q2Qc %s) (map Q2Qc %s) (map Q2Qc %s)" % (
                pot, lr, kind, qlit(eps), qlit(ce), qlit(se), qlist(q), qlist(v)))
            meta.append((c, lf, st_))
            n += 1
    return exprs, meta


def close(model_pair, fbits, tol=1e-9):
    m = Fraction(model_pair[0], model_pair[1])
    x = b2f(fbits)
    if x != x or x in (float("inf"), float("-inf")):
        return False
    return abs(m - Fraction(x)) <= Fraction(tol) * (1 + abs(m))


def compare_step(c, lf, m):
    if c["kind"] == "microcanonical":
        q1, p2 = m
        nd = c["dim"]
        gmax = max(math.sqrt(sum(b2f(x) ** 2 for x in lf["tg"])), 1e-300)
        tol = 1e-9 * max(1.0, math.exp(2 * abs(c["step_size"] * lf.get("factor", 1.0)) * math.sqrt(nd) / 2 * gmax / (nd - 1)))
        diffs = []
        for name, mod, imp in (("whitened position", q1, lf["q"]), ("momentum", p2, lf["v"])):
            for i, (a, b) in enumerate(zip(mod, imp)):
                if not close(a, b, tol):
                    diffs.append("%s[%d]: model (microcanonical step) %.12g implementation %.12g" % (name, i, a[0] / a[1], b2f(b)))
                    break
        return diffs
    q1, v2, x1, tg1, lp, kin = m
    diffs = []
    for name, mod, imp in (("whitened position", q1, lf["q"]), ("velocity", v2, lf["v"]),
                           ("position", x1, lf["x"]), ("whitened gradient", tg1, lf["tg"])):
        if len(mod) != len(imp):
            diffs.append("%s: length %d vs %d" % (name, len(mod), len(imp)))
            continue
        for i, (a, b) in enumerate(zip(mod, imp)):
            if not close(a, b):
                diffs.append("%s[%d]: model %.12g implementation %.12g" % (name, i, a[0] / a[1], b2f(b)))
                break
    if not close(lp[0], lf["logp"]):
        diffs.append("logp: model %.12g implementation %.12g" % (lp[0][0] / lp[0][1], b2f(lf["logp"])))
    if not close(kin[0], lf["kinetic"]):
        diffs.append("kinetic energy: model %.12g implementation %.12g" % (kin[0][0] / kin[0][1], b2f(lf["kinetic"])))
    return diffs


def oracle_reversible(c, d):
    """a path of integrator steps followed by the same steps backward returns to the start"""
    bad = []
    if not d.get("single_steps") or len(d["leapfrogs"]) != len(c["single_steps"]) or any(lf["diverged"] for lf in d["leapfrogs"]):
        return bad
    a, b = d["init"], d["final"]
    tol = 1e-9
    if c["kind"] == "microcanonical":
        # the ESH update with exp(+delta) undoes the one with exp(-delta) exactly, but it amplifies
        # rounding errors by about exp(2 delta): judge with a tolerance that follows the
        # conditioning of the path and not at all when it is hopeless
        n = c["dim"]
        amp = 0.0
        for lf in d["leapfrogs"]:
            h = abs(c["step_size"] * lf.get("factor", 1.0))
            gn = math.sqrt(sum(b2f(x) ** 2 for x in lf["tg"]))
            amp += 2.0 * h * math.sqrt(n) / 2 * gn / max(n - 1, 1)
        gn0 = math.sqrt(sum(b2f(x) ** 2 for x in a["tg"]))
        amp += 2.0 * abs(c["step_size"]) * math.sqrt(n) / 2 * gn0 / max(n - 1, 1)
        if amp > 12.0:
            return bad
        tol = 1e-9 * math.exp(amp)
    for key in ("q", "v", "x"):
        for i, (u, w) in enumerate(zip(a[key], b[key])):
            if abs(b2f(u) - b2f(w)) > tol * (1 + abs(b2f(u))):
                bad.append("steps %s then back: %s[%d] returns to %r instead of %r" % (c["single_steps"][:len(c["single_steps"]) // 2], key, i, b2f(w), b2f(u)))
                return bad
    return bad


def esh_ref(g, p, s_):
    n = len(g)
    gn = math.sqrt(sum(x * x for x in g))
    gh = [x / gn for x in g]
    alpha = sum(a * b for a, b in zip(p, gh))
    z = math.exp(-s_ * gn / (n - 1))
    raw = [(1 - z) * (1 + z + alpha * (1 - z)) * a + 2 * z * b for a, b in zip(gh, p)]
    rn = math.sqrt(sum(x * x for x in raw))
    return [x / rn for x in raw]


def oracle_micro(c, d):
    """microcanonical kind: one step = ESH momentum half-update, drift by eps*sqrt(d), ESH half-update
    (with the gradient at the new position) - recomputed in binary64 from the logged start state"""
    bad = []
    n = c["dim"]
    pts = {0: d["init"]}
    for lf in d["leapfrogs"]:
        st_ = pts.get(lf["start_idx"])
        pts[lf["idx"]] = lf
        if st_ is None or lf["diverged"]:
            continue
        h = c["step_size"] * (lf["idx"] - lf["start_idx"]) * lf.get("factor", 1.0)
        q0, p0, g0 = ([b2f(b) for b in st_[k]] for k in ("q", "v", "tg"))
        g1 = [b2f(b) for b in lf["tg"]]
        p1 = esh_ref(g0, p0, math.sqrt(n) * h / 2)
        q1 = [a + h * math.sqrt(n) * b for a, b in zip(q0, p1)]
        p2 = esh_ref(g1, p1, math.sqrt(n) * h / 2)
        gmax = max(math.sqrt(sum(x * x for x in g0)), math.sqrt(sum(x * x for x in g1)))
        dl = abs(h) * math.sqrt(n) / 2 * gmax / max(n - 1, 1)
        if dl > 12.0:
            continue
        tolm = 1e-9 * max(1.0, math.exp(2 * dl))
        for name, want, got in (("whitened position", q1, lf["q"]), ("momentum", p2, lf["v"])):
            for i, (a, b) in enumerate(zip(want, got)):
                if abs(a - b2f(b)) > tolm * (1 + abs(a)):
                    bad.append("microcanonical step %d -> %d (factor %s): %s[%d] is %r, the ESH leapfrog gives %r" % (
                        lf["start_idx"], lf["idx"], lf.get("factor", 1.0), name, i, b2f(b), a))
                    return bad
    return bad


def oracle_energy_only(c, p):
    e = b2f(p["kinetic"]) - (b2f(p["logp"]) + b2f(p["logdet"]))
    if abs(b2f(p["energy"]) - e) > 1e-9 * (1 + abs(e)):
        return ["energy %r is not kinetic - (logp + logdet) = %r" % (b2f(p["energy"]), e)]
    return []


def oracle_params(c, d, kdraw):
    """what the transformation reports about itself is consistent: reciprocal scales, the
    log-determinant is that of the reported diagonal and low-rank parts, and it is the one the
    trajectory's points carry"""
    tp = d.get("transform_params")
    if not tp:
        return []
    bad = []
    stds = [b2f(x) for x in tp["stds"]]
    inv = [b2f(x) for x in tp["inv_stds"]]
    for i, (a, b) in enumerate(zip(stds, inv)):
        if abs(a * b - 1.0) > 1e-12:
            bad.append("draw %d: scale %r and inverse scale %r of coordinate %d are not reciprocal" % (kdraw, a, b, i))
            return bad
    want = -sum(math.log(s_) for s_ in stds)
    if tp.get("sqrt_eigs"):
        want -= sum(math.log(b2f(x)) for x in tp["sqrt_eigs"])
    got = b2f(tp["logdet"])
    if abs(got - want) > 1e-9 * (1 + abs(want)):
        bad.append("draw %d: the transformation reports log-determinant %r; its diagonal scales and %d retained eigenvalues give %r" % (
            kdraw, got, len(tp.get("sqrt_eigs") or []), want))
    for p in [d.get("init")] + [lf for lf in d["leapfrogs"] if not lf["diverged"]][:4]:
        if p and abs(b2f(p["logdet"]) - got) > 1e-9 * (1 + abs(got)):
            bad.append("draw %d: a trajectory state carries log-determinant %r, the transformation in force reports %r" % (kdraw, b2f(p["logdet"]), got))
            break
    return bad


def oracle_point(c, p, kdraw=0, init=None):
    """implementation-side consistency of one logged point: logdet, energy, index"""
    bad = []
    if kdraw >= 1 and (c.get("retransform") or {}).get("regrad"):
        return bad + oracle_energy_only(c, p)
    sig_, _, lr_ = transform3(c, kdraw)
    logdet = -sum(math.log(s) for s in sig_)
    if init is not None and p.get("initial_energy") is not None:
        # energy errors of a trajectory are measured from the energy of its start
        if abs(b2f(p["initial_energy"]) - b2f(init["energy"])) > 1e-9 * (1 + abs(b2f(init["energy"]))):
            bad.append("the reference energy %r of the trajectory is not the energy %r of its start (draw %d)" % (
                b2f(p["initial_energy"]), b2f(init["energy"]), kdraw))
    if lr_:
        logdet -= 0.5 * sum(math.log(v) for v in lr_["vals"])
    if abs(b2f(p["logdet"]) - logdet) > 1e-9 * (1 + abs(logdet)):
        bad.append("logdet %r differs from sum ln(1/sigma) - 1/2 sum ln(lambda) = %r" % (b2f(p["logdet"]), logdet))
    if c["kind"] != "microcanonical":
        kin = 0.5 * sum(b2f(b) ** 2 for b in p["v"])
        if abs(b2f(p["kinetic"]) - kin) > 1e-9 * (1 + kin):
            bad.append("stored kinetic energy %r is not 1/2 |v|^2 = %r of the stored velocity (%s)" % (b2f(p["kinetic"]), kin, c["kind"]))
    e = b2f(p["kinetic"]) - (b2f(p["logp"]) + b2f(p["logdet"]))
    if abs(b2f(p["energy"]) - e) > 1e-9 * (1 + abs(e)):
        bad.append("energy %r is not kinetic - (logp + logdet) = %r" % (b2f(p["energy"]), e))
    return bad


PRELUDE = ("From NutsV Require Import model.Leapfrog model.LeapfrogQc.\nFrom NutsV Require Import model.Mclmc.\nFrom Coq Require Import ZArith QArith Qcanon List.\n"
           "Import ListNotations.\n")


def run(ctx):
    prop = ctx.prop
    quick = ctx.tier == "quick"
    audit_forbidden(ctx)
    check_property_file(ctx, prop, allow_axioms=AX)
    ok, out = build_harness(["orbit"])
    ctx.oblig("harness-build", ok, out[-3000:])
    if not ok:
        return
    cases = gen_cases(ctx, 90 if quick else 800, 16 if quick else 64)
    outs, errs = run_harness_parallel("orbit", cases)
    ctx.oblig("harness-run", not errs and len(outs) == len(cases), "\n".join(errs)[:2000])
    exprs, meta = [], []
    nb = 0
    for c in cases:
        o = outs.get(c["id"])
        if not o or o.get("init_state") != "ok":
            continue
        e, m = step_exprs(c, o, 6 if c.get("single_steps") else (2 if quick else 4))
        exprs += e
        meta += m
        for kdraw, d in enumerate(o["draws"]):
            rb = oracle_reversible(c, d) + oracle_params(c, d, kdraw)
            if c["kind"] == "microcanonical":
                rb = rb + oracle_micro(c, d)
            if rb and nb < 3:
                nb += 1
                violation(ctx, "implementation violates C02: %s" % rb[0],
                          {"case": {k: v for k, v in c.items() if k != "words"}, "failures": rb}, found_input=True)
            for p in [d.get("init")] + [lf for lf in d["leapfrogs"] if not lf["diverged"]]:
                if p:
                    bad = oracle_point(c, p, kdraw, d.get("init"))
                    if bad and nb < 3:
                        nb += 1
                        violation(ctx, "implementation violates C02: %s" % bad[0],
                                  {"case": {k: v for k, v in c.items() if k != "words"}, "point_index": p["idx"], "failures": bad},
                                  found_input=True)
    ctx.oblig("impl-audit-logdet-energy", nb == 0, "%d points" % nb)
    # the diagonal transformation is written by the adaptation kernels as a pair (scale, inverse
    # scale): forward map / gradient pull-back use one, inverse map / log-determinant the other.
    # They must stay reciprocal for every update, including clamped and rejected estimates.
    import estimator as est
    ok2, out2 = build_harness(["kernels"])
    ctx.oblig("harness-build-kernels", ok2, out2[-2000:])
    nrec = 0
    if ok2:
        kc = [c for c in est.gen_kernel_cases(ctx, 400 if quick else 4000) if c["op"] != "update_variance"]
        # ratios beyond the clamp range
        r = ctx.rnd()
        for c in kc[: len(kc) // 4]:
            if c["op"] == "var_inv_std_draw_grad":
                c["z"] = [str(est.f2b(10.0 ** r.randint(-60, 60))) for _ in range(c["n"])]
                c["w"] = [str(est.f2b(10.0 ** r.randint(-60, 60))) for _ in range(c["n"])]
        kouts, kerrs = run_harness_parallel("kernels", kc)
        ctx.oblig("harness-run-kernels", not kerrs and len(kouts) == len(kc), "\n".join(kerrs)[:1500])
        for c in kc:
            o = kouts.get(c["id"])
            if not o or "panic" in o:
                continue
            for i in range(c["n"]):
                ctx.evaluations += 1
                s_, is_ = b2f(o["v2"][i]), b2f(o["v"][i])
                if 0 < s_ < float("inf") and 0 < is_ < float("inf") and abs(s_ * is_ - 1.0) > 1e-12:
                    nrec += 1
                    if nrec <= 3:
                        violation(ctx, "implementation violates C02: %s leaves scale %r and inverse scale %r that are not reciprocal (inputs draw variance %r, gradient variance %r): the inverse map and log-determinant disagree with the forward map" % (
                            c["op"], s_, is_, b2f(c["z"][i]), b2f(c["w"][i]) if c.get("w") else None), {"case": c, "element": i}, found_input=True)
    ctx.oblig("impl-audit-scale-reciprocal", nrec == 0, "%d elements" % nrec)
    order = sorted(range(len(exprs)), key=lambda i: -meta[i][0]["dim"])
    shards = [[] for _ in range(16)]
    for k, i in enumerate(order):
        shards[k % 16].append(i)
    flat = [i for s_ in shards for i in s_]
    vals, err = coq_eval_shards(prop + "_lf", PRELUDE, [exprs[i] for i in flat], shard_size=max(1, (len(flat) + 15) // 16), timeout=1500)
    ctx.oblig("model-eval", err is None, err or "")
    if err:
        return
    ndiff = 0
    stats = {"steps": 0, "dims": {}, "kinds": {}, "lowrank_rank": {}, "backward_steps": 0, "quartic": 0}
    for i, m in zip(flat, vals):
        c, lf, st_ = meta[i]
        ctx.evaluations += 1
        stats["steps"] += 1
        stats["dims"][str(c["dim"])] = stats["dims"].get(str(c["dim"]), 0) + 1
        stats["kinds"][c["kind"]] = stats["kinds"].get(c["kind"], 0) + 1
        rk = len(c["lowrank"]["vals"]) if c.get("lowrank") else -1
        stats["lowrank_rank"][str(rk)] = stats["lowrank_rank"].get(str(rk), 0) + 1
        stats["backward_steps"] += int(lf["idx"] < lf["start_idx"])
        stats["quartic"] += int(c.get("quartic", 0) != 0)
        ctx.nontrivial.add((c["id"], lf["idx"]))
        diffs = compare_step(c, lf, m)
        if len(ctx.samples) < 2 and c["dim"] <= 2:
            ctx.samples.append({"case": {k: v for k, v in c.items() if k != "words"}, "step_from": lf["start_idx"], "to": lf["idx"],
                                "model": [[p[0] / p[1] for p in row] for row in m[:2]],
                                "implementation": [[b2f(b) for b in lf["q"]], [b2f(b) for b in lf["v"]]]})
        if diffs:
            ndiff += 1
            if ndiff <= 4:
                violation(ctx, "model/implementation correspondence broken (leapfrog, %s, dim %d): %s" % (c["kind"], c["dim"], diffs[0]),
                          {"case": {k: v for k, v in c.items() if k != "words"}, "step": [lf["start_idx"], lf["idx"]], "differences": diffs,
                           "correspondence": "model/LeapfrogQc.v eval_step vs TransformedHamiltonian::leapfrog"},
                          found_input=False)
    ctx.oblig("correspondence-leapfrog", ndiff == 0, "%d steps differ" % ndiff)
    ctx.notes["input_distribution"] = stats


_TB = [
    "Coq 8.16.1 kernel, vm_compute; Qcanon (canonical rationals) for exact evaluation",
    "hand-written model coq/model/Leapfrog.v (generic field) instantiated in model/LeapfrogQc.v; tied per integrator step by the correspondence with tolerance 1e-9 relative (f64 rounding only)",
    "cos/sin of the ExactNormal rotation and square roots of eigenvalues are inputs (libm / exact dyadic squares)",
    "harness/src/bin/orbit.rs + hook accessors (verif_data), tools/props/leapfrog.py",
]
TRUSTED = {"C02": _TB}
ASSUMPTIONS = {"C02": ["test potentials are separable polynomials (Gaussian + quartic) so that the model gradient is exact",
                       "low-rank columns are signed permutations or scaled Hadamard columns (orthonormal, exactly representable)"]}
RULE = {"C02": "seeded random cases over dimension, kinetic-energy kind, diagonal scales/means, low-rank factors of any rank, step sign; every compared item is one real leapfrog step re-computed by the Qc model from the logged start state; distinct = (case, trajectory index)"}
