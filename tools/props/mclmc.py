"""C18: structural invariants of the microcanonical sampler.  Theorems over model/Mclmc.v;
correspondence of the step/halving state machine and of the ESH momentum update with real MCLMC
chains (harness `mclmc`: delegating Math backend logging every ESH update, density faults)."""
import json
import math
import struct
from fractions import Fraction

from vlib import *  # noqa

AX = STDLIB_AXIOMS


def b2f(b):
    return struct.unpack("<d", struct.pack("<Q", int(b)))[0]


def qlit(x):
    fr = Fraction(x)
    return "(%d # %d)" % (fr.numerator, fr.denominator)


def gen_cases(ctx, n):
    r = ctx.rnd()
    cases = []
    for cid in range(n):
        dim = r.choice([2, 3, 5, 8])
        kind = r.choice(["micro", "micro", "early", "euclid"])
        c = {"id": cid, "dim": dim, "kind": kind, "num_tune": r.choice([0, 2, 5, 10]), "num_draws": r.choice([2, 4]),
             "step_size": r.choice([0.125, 0.25, 0.5, 0.3, 0.3, 0.37, 0.429, 0.21]), "L": r.choice([0.5, 1.0, 2.0, 3.0, 1.3, 2.7]),
             "subsample_frequency": r.choice([1.0, 1.0, 0.5, 0.0, 0.26, 0.5, 0.3, 0.7]), "dynamic_step_size": r.random() < 0.7,
             "seed": r.randint(1, 10 ** 6), "prec": [r.choice([0.5, 1.0, 2.0]) for _ in range(dim)],
             "switch_fraction": r.choice([0.3, 0.5, 0.0, 1.0])}
        if r.random() < 0.25:
            # without the retry a fault at the first evaluations of a draw is a divergence before
            # any step was taken
            c["dynamic_step_size"] = False
            c["faults"] = [[i, "rec"] for i in range(r.randint(4, 12), 60, r.choice([1, 2, 3]))]
        elif r.random() < 0.6:
            k = sorted(set(r.randint(2, 40) for _ in range(r.choice([1, 1, 2, 3, 12]))))
            c["faults"] = [[i, r.choice(["rec", "nan_logp", "inf_logp"])] for i in k]
        cases.append(c)
    return cases


def num_base(c):
    v = c["subsample_frequency"] * c["L"] / c["step_size"]
    v = float(round(v)) if abs(v - round(v)) != 0.5 else (math.floor(v) + 1.0 if v > 0 else math.ceil(v) - 1.0)  # round half away
    return int(min(max(v, 1.0), 1e6))


def kernel_expr(c, d):
    codes = [1 if e is not None else 0 for e in d["evals"]]
    return "run_kernel_model %d%%nat %d%%nat %s" % (num_base(c), 10 if c["dynamic_step_size"] else 0,
                                                   coq_list(["%d%%Z" % x for x in codes]))


def esh_check(c, call):
    """returns (coq expr, python-side data) for one logged ESH call"""
    g = [b2f(x) for x in call["g"]]
    p = [b2f(x) for x in call["p_in"]]
    n = len(g)
    gn = math.sqrt(sum(x * x for x in g))
    inv = 1.0 / gn
    ghat = [x * inv for x in g]
    delta = b2f(call["step"]) * gn / (n - 1)
    z = math.exp(-delta)
    return ("eval_esh %s %s %s" % (coq_list([qlit(x) for x in ghat]), coq_list([qlit(x) for x in p]), qlit(z)),
            {"delta": delta, "z": z, "n": n})


def run(ctx):
    prop = ctx.prop
    quick = ctx.tier == "quick"
    audit_forbidden(ctx)
    check_property_file(ctx, prop, allow_axioms=AX)
    ok, out = build_harness(["mclmc"])
    ctx.oblig("harness-build", ok, out[-3000:])
    if not ok:
        return
    cases = gen_cases(ctx, 80 if quick else 600)
    outs, errs = run_harness_parallel("mclmc", cases)
    ctx.oblig("harness-run", not errs and len(outs) == len(cases), "\n".join(errs)[:2000])
    kexprs, kmeta, eexprs, emeta = [], [], [], []
    nbad = 0
    stats = {"draws": 0, "divergent_draws": 0, "retried_draws": 0, "esh_calls": 0, "kinds": {}, "switches": 0}

    def bad(c, what, extra=None):
        nonlocal nbad
        nbad += 1
        if nbad <= 4:
            payload = {"case": c}
            payload.update(extra or {})
            violation(ctx, "implementation violates C18: %s" % what, payload, found_input=True)

    for c in cases:
        o = outs.get(c["id"])
        if not o or o.get("set_position") != "ok":
            continue
        stats["kinds"][c["kind"]] = stats["kinds"].get(c["kind"], 0) + 1
        micro_from = 0 if c["kind"] == "micro" else (o["switch_draw"] if c["kind"] == "early" else 10 ** 9)
        seen_switch = False
        for d in o["draws"]:
            if "draw" not in d:
                if "panic" in d:
                    bad(c, "draw panicked: %s" % d["panic"][:200])
                break
            stats["draws"] += 1
            k = d["draw"]
            is_micro = k >= micro_from
            kexprs.append(kernel_expr(c, d))
            kmeta.append((c, d, is_micro))
            # momentum on the unit sphere after every ESH update and normalisation
            for call in d["esh"]:
                pn = math.sqrt(sum(b2f(x) ** 2 for x in call["p_out"]))
                if abs(pn - 1.0) > 1e-12:
                    bad(c, "momentum norm %r after an ESH update at draw %d" % (pn, k))
                    break
            for nm in d["normalize"]:
                pn = math.sqrt(sum(b2f(x) ** 2 for x in nm["out"]))
                if abs(pn - 1.0) > 1e-12:
                    bad(c, "momentum norm %r after normalisation at draw %d" % (pn, k))
                    break
            if (len(d["esh"]) > 0) != is_micro and len(d["evals"]) > 0:
                bad(c, "draw %d uses the %s integrator but the configured trajectory (%s, switch at %s) requires %s" % (
                    k, "microcanonical" if d["esh"] else "euclidean", c["kind"], o.get("switch_draw"), "microcanonical" if is_micro else "euclidean"))
            if c["kind"] == "early" and k == micro_from and not seen_switch:
                seen_switch = True
                stats["switches"] += 1
                if not d["normalize"]:
                    bad(c, "no fresh unit momentum at the switch draw %d" % k)
            if not d["diverging"] and d.get("average_step_size") is not None and d["num_steps"] > 0:
                # a draw without divergence integrates for exactly num_base * eps, with or without retries
                eps_ = b2f(d["step_size"])
                t_impl = b2f(d["average_step_size"]) * d["num_steps"] / eps_
                if abs(t_impl - num_base(c)) > 1e-9 * max(1.0, num_base(c)):
                    bad(c, "draw %d is not divergent but integrated for %r step sizes in %d steps; max(1, round(f*L/eps)) = %d" % (
                        k, t_impl, d["num_steps"], num_base(c)), {"draw": k, "evals": d["evals"]})
            if d["diverging"]:
                stats["divergent_draws"] += 1
                if d["pos"] != d["prev_pos"]:
                    bad(c, "divergent draw %d moved the position" % k)
                # ... and refreshes the momentum: every coordinate is drawn anew, wherever in the
                # draw the divergence happened (also at its very first step)
                if d.get("mom") is not None and d.get("prev_mom") is not None:
                    stats["divergent_first_step"] = stats.get("divergent_first_step", 0) + int(d["num_steps"] == 0)
                    if any(a == b_ for a, b_ in zip(d["mom"], d["prev_mom"])):
                        bad(c, "divergent draw %d (%d steps taken) did not refresh the momentum: %s before, %s after" % (
                            k, d["num_steps"], [b2f(x) for x in d["prev_mom"]][:3], [b2f(x) for x in d["mom"]][:3]))
                    elif is_micro and abs(math.sqrt(sum(b2f(x) ** 2 for x in d["mom"])) - 1.0) > 1e-12:
                        bad(c, "momentum after the divergent draw %d has norm %r" % (k, math.sqrt(sum(b2f(x) ** 2 for x in d["mom"]))))
            if (quick and len(eexprs) < 160) or (not quick and len(eexprs) < 4000):
                for call in d["esh"][:2]:
                    e, meta = esh_check(c, call)
                    eexprs.append(e)
                    emeta.append((c, d, call, meta))
    prelude = "From NutsV Require Import model.Mclmc.\nFrom Coq Require Import ZArith QArith List.\nImport ListNotations.\n"
    kv, err = coq_eval_shards(prop + "_kern", prelude, kexprs, shard_size=max(1, (len(kexprs) + 15) // 16))
    ctx.oblig("model-eval-kernel", err is None, err or "")
    ndiff = 0
    if not err:
        for (c, d, is_micro), m in zip(kmeta, kv):
            ctx.evaluations += 1
            head, hlog = m
            kind, steps, tnum, tden, remaining = head
            ctx.nontrivial.add((c["id"], d["draw"]))
            diffs = []
            if kind == 3:
                diffs.append("model wants more leapfrog attempts than the implementation made (%d evaluations)" % len(d["evals"]))
            else:
                if len(hlog) != len(d["evals"]):
                    diffs.append("attempts: model %d implementation %d" % (len(hlog), len(d["evals"])))
                if steps != d["num_steps"]:
                    diffs.append("steps taken: model %d implementation %d" % (steps, d["num_steps"]))
                if (kind == 1) != d["diverging"]:
                    diffs.append("divergent: model %s implementation %s" % (kind == 1, d["diverging"]))
                if steps > 0 and d.get("average_step_size") is not None:
                    eps = b2f(d["step_size"])
                    t_impl = b2f(d["average_step_size"]) * steps / eps
                    if abs(t_impl - tnum / tden) > 1e-9 * max(1.0, tnum / tden):
                        diffs.append("integration time / eps: model %s implementation %r" % (Fraction(tnum, tden), t_impl))
                if is_micro and d["esh"]:
                    # factor of every attempt from the first-half ESH call
                    i = 0
                    eps = b2f(d["step_size"])
                    for a, h in enumerate(hlog):
                        if i >= len(d["esh"]):
                            diffs.append("missing ESH call for attempt %d" % a)
                            break
                        f_impl = b2f(d["esh"][i]["step"]) / (math.sqrt(c["dim"]) * eps / 2)
                        if abs(f_impl - 2.0 ** (-h)) > 1e-12:
                            diffs.append("attempt %d: step factor model 2^-%d implementation %r" % (a, h, f_impl))
                            break
                        faulty = d["evals"][a] is not None
                        # a logp failure aborts the step before the second half; an energy fault does not
                        two = not (faulty and d["evals"][a] in ("rec",))
                        if two and i + 1 < len(d["esh"]):
                            # both momentum half-updates of one step use the same (halved) step size
                            f2 = b2f(d["esh"][i + 1]["step"]) / (math.sqrt(c["dim"]) * eps / 2)
                            if abs(abs(f2) - 2.0 ** (-h)) > 1e-12:
                                diffs.append("attempt %d: second momentum half-update uses step factor %r, the first 2^-%d" % (a, f2, h))
                                break
                        i += 2 if two else 1
                if kind == 0 and len(hlog) == steps and steps != num_base(c):
                    diffs.append("draw without retry took %d steps, max(1, round(f*L/eps)) = %d" % (steps, num_base(c)))
            if len(hlog) > d["num_steps"]:
                stats["retried_draws"] += 1
            if len(ctx.samples) < 3 and len(hlog) > d["num_steps"]:
                ctx.samples.append({"case": c, "draw": d["draw"], "evals": d["evals"], "model": m, "implementation": {"num_steps": d["num_steps"], "diverging": d["diverging"]}})
            if diffs:
                ndiff += 1
                if ndiff <= 3:
                    violation(ctx, "model/implementation correspondence broken (mclmc kernel): %s" % diffs[0],
                              {"case": c, "draw": d["draw"], "evals": d["evals"], "differences": diffs,
                               "correspondence": "model/Mclmc.v kernel vs MclmcChain::mclmc_kernel"}, found_input=False)
    ev, err2 = coq_eval_shards(prop + "_esh", prelude, eexprs, shard_size=max(1, (len(eexprs) + 15) // 16))
    ctx.oblig("model-eval-esh", err2 is None, err2 or "")
    if not err2:
        for (c, d, call, meta), m in zip(emeta, ev):
            ctx.evaluations += 1
            stats["esh_calls"] += 1
            n = meta["n"]
            pm = [Fraction(a, b_) for a, b_ in m[:n]]
            alpha = Fraction(m[n][0], m[n][1])
            pout = [b2f(x) for x in call["p_out"]]
            diffs = []
            for i in range(n):
                if abs(float(pm[i]) - pout[i]) > 1e-11:
                    diffs.append("component %d: closed-form ESH update %.15g, implementation %.15g" % (i, float(pm[i]), pout[i]))
                    break
            z = meta["z"]
            dke = (meta["delta"] - math.log(2.0) + math.log1p(float(alpha) + (1 - float(alpha)) * z * z)) * (n - 1)
            if abs(dke - b2f(call["dke"])) > 1e-9 * max(1.0, abs(dke)):
                diffs.append("kinetic energy change: formula %.15g, implementation %.15g" % (dke, b2f(call["dke"])))
            if diffs:
                ndiff += 1
                if ndiff <= 5:
                    violation(ctx, "model/implementation correspondence broken (ESH update): %s" % diffs[0],
                              {"case": c, "draw": d["draw"], "call": call, "differences": diffs,
                               "correspondence": "model/Mclmc.v esh_update vs CpuMath::esh_momentum_update"}, found_input=False)
    # the ESH update over the whole range of delta = step * |g| / (n - 1) (chains only produce small
    # ones): direct calls of CpuMath::esh_momentum_update, compared with the closed form
    ok3, out3 = build_harness(["kernels"])
    ctx.oblig("harness-build-kernels", ok3, out3[-2000:])
    if ok3:
        import struct as _st
        f2b = lambda x: str(_st.unpack("<Q", _st.pack("<d", float(x)))[0])
        r = ctx.rnd()
        ecases = []
        for cid in range(200 if quick else 3000):
            n = r.choice([2, 2, 3, 5, 10, 50])
            g = [r.gauss(0, 1) for _ in range(n)]
            gn = math.sqrt(sum(x * x for x in g))
            p = [r.gauss(0, 1) for _ in range(n)]
            pn = math.sqrt(sum(x * x for x in p))
            p = [x / pn for x in p]
            delta = 10.0 ** r.uniform(-6, 3.3)   # beyond exp overflow (delta > 709) as well
            scale = r.choice([1e-3, 1.0, 1e3])
            g = [x * scale for x in g]
            step = delta * (n - 1) / (gn * scale)
            ecases.append({"id": cid, "op": "esh", "n": n, "x": [f2b(v) for v in g], "y": [f2b(v) for v in p], "a": f2b(step)})
        eouts, eerrs = run_harness_parallel("kernels", ecases)
        ctx.oblig("harness-run-esh", not eerrs and len(eouts) == len(ecases), "\n".join(eerrs)[:1500])
        nesh = 0
        dmax = 0.0
        for c in ecases:
            o = eouts.get(c["id"])
            if not o or "panic" in o:
                if o:
                    bad(c, "esh_momentum_update panicked: %s" % o["panic"])
                continue
            ctx.evaluations += 1
            n = c["n"]
            g = [b2f(v) for v in c["x"]]
            p = [b2f(v) for v in c["y"]]
            step = b2f(c["a"])
            gn = math.sqrt(sum(x * x for x in g))
            gh = [x / gn for x in g]
            alpha = sum(a * b_ for a, b_ in zip(p, gh))
            delta = step * gn / (n - 1)
            dmax = max(dmax, delta)
            z = math.exp(-delta)
            raw = [(1 - z) * (1 + z + alpha * (1 - z)) * a + 2 * z * b_ for a, b_ in zip(gh, p)]
            rn = math.sqrt(sum(x * x for x in raw))
            want = [x / rn for x in raw]
            got = [b2f(v) for v in o["v"]]
            dke = (delta - math.log(2.0) + math.log1p(alpha + (1 - alpha) * z * z)) * (n - 1)
            got_dke = b2f(o["s"][0])
            if any(abs(a - b_) > 1e-9 for a, b_ in zip(want, got)):
                nesh += 1
                bad(c, "ESH momentum update differs from the closed form for delta = %r (dimension %d)" % (delta, n))
            elif abs(sum(x * x for x in got) - 1.0) > 1e-9:
                nesh += 1
                bad(c, "momentum norm^2 %r after the ESH update for delta = %r" % (sum(x * x for x in got), delta))
            elif abs(dke - got_dke) > 1e-7 * max(1.0, abs(dke)):
                nesh += 1
                bad(c, "ESH update reports kinetic energy change %r, the closed form gives %r (delta = %r, dimension %d)" % (got_dke, dke, delta, n))
        stats["direct_esh_calls"] = len(ecases)
        stats["direct_esh_max_delta"] = dmax
    ctx.oblig("correspondence-mclmc", ndiff == 0, "%d differences" % ndiff)
    ctx.oblig("impl-audit-C18", nbad == 0, "%d failures" % nbad)
    ctx.notes["input_distribution"] = stats


_TB = [
    "Coq 8.16.1 kernel, vm_compute; all C18 theorems are over exact rationals / naturals",
    "hand-written model coq/model/Mclmc.v: ESH update (zeta = exp(-delta) is an input), step/halving loop over a scripted outcome list, trajectory switch; tied to MclmcChain by the correspondence (outcome script = which density evaluations were faulty; step factors read from the logged ESH calls; ESH outputs within 1e-11 of the closed form)",
    "exp, ln, ln_1p, sqrt are not modelled; MCLMC's sampling correctness is not claimed",
    "harness/src/bin/mclmc.rs with the delegating Math backend (harness/src/wrapmath.rs)",
]
TRUSTED = {"C18": _TB}
ASSUMPTIONS = {"C18": ["jitter is disabled in the runs so that the step size in force is the configured one",
                       "a leapfrog attempt is one density evaluation; faulty evaluations are the divergent attempts (max_energy_error is set huge)"]}
RULE = {"C18": "seeded chains: dimension 2-8, three trajectory kinds, step sizes, decoherence lengths, subsample frequencies incl. 0, dynamic retry on/off, 0-12 density faults at random evaluations; per draw the step/halving model is replayed on the outcome script; up to 400 ESH calls are recomputed in exact arithmetic"}
