"""C07: step-size adaptation.  Theorems over model/StepSize.v (exact arithmetic); bit-exact
correspondence of the binary64 recurrences (model/DualAvg.v) with DualAverage / Adam driven open
loop; implementation-side monotonicity and bound audits."""
import json
import math
from fractions import Fraction
import struct

from vlib import *  # noqa

AX = STDLIB_AXIOMS


def f2b(x):
    return struct.unpack("<Q", struct.pack("<d", float(x)))[0]


def b2f(b):
    return struct.unpack("<d", struct.pack("<Q", int(b)))[0]


def gen_cases(ctx, n):
    r = ctx.rnd()
    cases = []
    cid = 0
    for _ in range(n):
        length = r.choice([1, 2, 5, 20, 60]) if r.random() < 0.8 else r.randint(100, 400)
        pat = r.choice(["zeros", "ones", "alt", "rand", "rand", "near"])
        target = r.choice([0.8, 0.8, 0.65, 0.95, 0.5])
        if pat == "zeros":
            accs = [0.0] * length
        elif pat == "ones":
            accs = [1.0] * length
        elif pat == "alt":
            accs = [float(i % 2) for i in range(length)]
        elif pat == "near":
            accs = [min(1.0, max(0.0, target + (r.random() - 0.5) * 0.2)) for _ in range(length)]
        else:
            accs = [r.random() for _ in range(length)]
        c = {"id": cid, "accs": [str(f2b(a)) for a in accs], "target": str(f2b(target)),
             "initial": str(f2b(r.choice([0.1, 1.0, 0.001, 3.0, 1e-6]))), "pattern": pat}
        if r.random() < 0.7:
            c.update({"method": "dual", "k": str(f2b(r.choice([0.75, 0.5, 1.0]))), "t0": str(f2b(r.choice([10.0, 1.0, 100.0]))),
                      "gamma": str(f2b(r.choice([0.05, 0.5, 0.01]))), "max_step": str(f2b(r.choice([math.pi, 0.5, 100.0])))})
        else:
            c.update({"method": "adam", "beta1": str(f2b(0.9)), "beta2": str(f2b(r.choice([0.999, 0.9]))),
                      "eps": str(f2b(1e-8)), "lr": str(f2b(r.choice([0.05, 0.5])))})
        cases.append(c)
        cid += 1
        # a dominated companion history (same options, every acceptance >= the original)
        if c["method"] == "dual" and r.random() < 0.5:
            d = dict(c)
            d["id"] = cid
            d["accs"] = [str(f2b(min(1.0, b2f(a) + r.random() * 0.3))) for a in c["accs"]]
            d["dominates"] = c["id"]
            cases.append(d)
            cid += 1
    return cases


def model_expr(c, o):
    if c["method"] == "dual":
        rows = coq_list(["(%s, %s)%%Z" % (row["mk"], a) for row, a in zip(o["rows"], c["accs"])])
        return "run_da %s %s %s %s %s %s %s %s" % tuple(
            ["%s%%Z" % x for x in (c["k"], c["t0"], c["gamma"], o["ln_max"], o["ln_init"], o["ln_10init"], c["target"])] + [rows])
    rows = coq_list(["(%s, %s, %s)%%Z" % (row["b1t"], row["b2t"], a) for row, a in zip(o["rows"], c["accs"])])
    return "run_adam %s %s %s %s %s %s %s" % tuple(
        ["%s%%Z" % x for x in (c["beta1"], c["beta2"], c["eps"], c["lr"], o["ln_init"], c["target"])] + [rows])


def nanbits(b):
    return (b & 0x7FF0000000000000) == 0x7FF0000000000000 and (b & 0x000FFFFFFFFFFFFF) != 0


# ------------------------------------------------------------------------------------------------
# the initial step-size search (Strategy::init) against model/StepSize.v `search`
# ------------------------------------------------------------------------------------------------
def _pot(c, x):
    u, g = 0.0, []
    for xi, p, m in zip(x, c["prec"], c["mu"]):
        d = xi - m
        u += p * d * d / 2 + c.get("quartic", 0.0) * d ** 4 / 4
        g.append(-p * d - c.get("quartic", 0.0) * d ** 3)
    return u, g


def _trial(c, x0, v0, e):
    """one Euclidean leapfrog of signed size e under the diagonal transformation of the case:
    (end position, acceptance statistic or None for a divergence)"""
    sd, mean = c["stds"], c["mean"]
    u0, g0 = _pot(c, x0)
    q0 = [(a - m) / s_ for a, m, s_ in zip(x0, mean, sd)]
    tg0 = [s_ * g for s_, g in zip(sd, g0)]
    vh = [v + e / 2 * t for v, t in zip(v0, tg0)]
    q1 = [q + e * v for q, v in zip(q0, vh)]
    x1 = [m + s_ * q for m, s_, q in zip(mean, sd, q1)]
    u1, g1 = _pot(c, x1)
    v1 = [v + e / 2 * s_ * g for v, s_, g in zip(vh, sd, g1)]
    err = (u1 + 0.5 * sum(v * v for v in v1)) - (u0 + 0.5 * sum(v * v for v in v0))
    if err != err or err > 1000.0 or abs(err) == float("inf"):
        return x1, None
    return x1, min(1.0, math.exp(-err))


def search_tie(ctx, quick, stats):
    ok, out = build_harness(["orbit"])
    ctx.oblig("harness-build-orbit", ok, out[-2000:])
    if not ok:
        return 0
    r = ctx.rnd()
    cases = []
    for cid in range(120 if quick else 1500):
        dim = r.choice([1, 2, 3, 5])
        cases.append({"id": cid, "dim": dim, "kind": "euclidean",
                      "prec": [r.choice([0.25, 1.0, 4.0, 100.0]) for _ in range(dim)], "mu": [r.randint(-8, 8) / 8 for _ in range(dim)],
                      "stds": [r.choice([0.5, 1.0, 2.0]) for _ in range(dim)], "mean": [r.randint(-8, 8) / 8 for _ in range(dim)],
                      "init": [r.randint(-48, 48) / 32 for _ in range(dim)], "momentum": [(r.randint(-64, 64) or 5) / 32 for _ in range(dim)],
                      "quartic": r.choice([0.0, 0.0, 0.25]), "seed": 1, "words": [],
                      "search": {"initial_step": r.choice([0.001, 0.02, 0.1, 0.5, 1.0, 2.2, 3.0, 8.0]),
                                 "target": r.choice([0.6, 0.8, 0.9, 0.95]), "method": r.choice(["dual", "adam"])}})
    outs, errs = run_harness_parallel("orbit", cases)
    ctx.oblig("harness-run-search", not errs and len(outs) == len(cases), "\n".join(errs)[:1500])
    exprs, meta = [], []
    nb = 0
    went = {"up": 0, "down": 0, "keep": 0}
    for c in cases:
        o = outs.get(c["id"])
        if not o or "search" not in o:
            continue
        sr = o["search"]
        if sr["result"] != "ok" or len(sr["evals"]) < 2:
            continue
        ini, tgt = c["search"]["initial_step"], c["search"]["target"]
        x0, v0 = c["init"], c["momentum"]
        _, a0 = _trial(c, x0, v0, ini)
        fwd = a0 is not None and a0 > tgt
        sign = 1.0 if fwd else -1.0
        table = []
        for k in range(0, 45):
            st = ini * (2.0 ** k if fwd else 2.0 ** (-k))
            _, a = _trial(c, x0, v0, sign * st)
            table.append((st, a))
        # near ties between an acceptance and the target cannot be decided in floating point
        if any(a is not None and abs(a - tgt) < 1e-9 for _, a in table[:len(sr["evals"])]) or (a0 is not None and abs(a0 - tgt) < 1e-9):
            continue
        ql = lambda x: "(%d # %d)" % (Fraction(x).numerator, Fraction(x).denominator)
        tcoq = coq_list(["(%s, %s)" % (ql(st), ("Some %s" % ql(a)) if a is not None else "None") for st, a in table])
        exprs.append("eval_search %s %s %s %s" % (tcoq, ql(ini), ql(tgt), ("(Some %s)" % ql(a0)) if a0 is not None else "None"))
        meta.append((c, sr, fwd, table))
        # implementation-side: the step size installed by the search is the one of its LAST trial
        step_after = b2f(sr["step_after"])
        last_x = [b2f(b) for b in sr["evals"][-1]["x"]]
        if len(sr["evals"]) >= 3 and step_after != ini:
            want_x, _ = _trial(c, x0, v0, sign * step_after)
            if any(abs(a - b_) > 1e-9 * (1 + abs(a)) for a, b_ in zip(want_x, last_x)):
                nb += 1
                if nb <= 3:
                    violation(ctx, "implementation violates C07: the initial search installed step size %r, but its last trial step was a different one (the installed step was never tried, so it does not bracket the target %r)" % (step_after, tgt),
                              {"case": c, "evaluations": len(sr["evals"])}, found_input=True)
    vals, err = coq_eval_shards("C07_search", "From NutsV Require Import model.StepSize.\nFrom Coq Require Import QArith ZArith List.\nImport ListNotations.\n",
                                exprs, shard_size=max(1, (len(exprs) + 15) // 16))
    ctx.oblig("model-eval-search", err is None, err or "")
    nd = 0
    if not err:
        for (c, sr, fwd, table), m in zip(meta, vals):
            ctx.evaluations += 1
            ctx.nontrivial.add(("search", c["id"]))
            step_after = b2f(sr["step_after"])
            diffs = []
            if m[0] == 0:
                went["keep"] += 1
                if step_after != c["search"]["initial_step"]:
                    diffs.append("model keeps the initial step %r, implementation installed %r" % (c["search"]["initial_step"], step_after))
            else:
                went["up" if fwd else "down"] += 1
                ms = Fraction(m[1], m[2])
                if Fraction(step_after) != ms:
                    diffs.append("step size found: model %r implementation %r" % (float(ms), step_after))
                if len(sr["evals"]) != m[3] + 3:
                    diffs.append("density evaluations: model %d implementation %d" % (m[3] + 3, len(sr["evals"])))
                if sr.get("adapt") and abs(b2f(sr["adapt"]["v"][0]) - math.log(float(ms))) > 1e-12:
                    diffs.append("the estimator was not re-created at the found step size (log step %r)" % b2f(sr["adapt"]["v"][0]))
            if diffs:
                nd += 1
                if nd <= 3:
                    violation(ctx, "model/implementation correspondence broken (step-size search): %s" % diffs[0],
                              {"case": c, "differences": diffs, "correspondence": "model/StepSize.v search2 vs stepsize::Strategy::init"}, found_input=False)
    ctx.oblig("correspondence-search", nd == 0, "%d cases differ" % nd)
    stats["search_cases"] = len(meta)
    stats["search_direction"] = went
    return nb


def run(ctx):
    prop = ctx.prop
    quick = ctx.tier == "quick"
    audit_forbidden(ctx)
    check_property_file(ctx, prop, allow_axioms=AX)
    ok, out = build_harness(["stepsize"])
    ctx.oblig("harness-build", ok, out[-3000:])
    if not ok:
        return
    cases = gen_cases(ctx, 100 if quick else 800)
    outs, errs = run_harness_parallel("stepsize", cases)
    ctx.oblig("harness-run", not errs and len(outs) == len(cases), "\n".join(errs)[:2000])
    todo = [c for c in cases if c["id"] in outs and "panic" not in outs[c["id"]]]
    prelude = "From NutsV Require Import lib.Fp model.DualAvg.\nFrom Coq Require Import ZArith NArith List.\nImport ListNotations.\n"
    order = sorted(todo, key=lambda c: -len(c["accs"]))
    shards = [[] for _ in range(16)]
    for i, c in enumerate(order):
        shards[i % 16].append(c)
    flat = [c for s_ in shards for c in s_]
    vals, err = coq_eval_shards(prop + "_da", prelude, [model_expr(c, outs[c["id"]]) for c in flat],
                                shard_size=max(1, (len(flat) + 15) // 16), timeout=1500)
    ctx.oblig("model-eval", err is None, err or "")
    if err:
        return
    ndiff = 0
    nbad = 0
    stats = {"dual": 0, "adam": 0, "advances": 0, "patterns": {}, "dominated_pairs": 0}
    byid = {c["id"]: c for c in cases}
    for c, m in zip(flat, vals):
        o = outs[c["id"]]
        ctx.evaluations += 1
        stats[c["method"]] += 1
        stats["advances"] += len(c["accs"])
        stats["patterns"][c["pattern"]] = stats["patterns"].get(c["pattern"], 0) + 1
        if len(c["accs"]) >= 2:
            ctx.nontrivial.add(c["id"])
        impl = [[int(x) for x in o["init"]] + [o["init_count"]]] + [[int(x) for x in r_["state"]] + [r_["count"]] for r_ in o["rows"]]
        if c["method"] == "adam":
            impl = [[row[0], row[1], row[2], row[4]] for row in impl]
        same = len(impl) == len(m) and all(len(a) == len(b_) and all(x == y or (nanbits(x) and nanbits(y)) for x, y in zip(a, b_)) for a, b_ in zip(impl, m))
        if len(ctx.samples) < 2 and len(c["accs"]) <= 5:
            ctx.samples.append({"case": {k: v for k, v in c.items()}, "implementation": impl, "model": m})
        # implementation-side audit from the statement
        bad = []
        steps = [b2f(r_["step"]) for r_ in o["rows"]]
        if c["method"] == "dual":
            mx = b2f(c["max_step"])
            for i, s_ in enumerate(steps):
                ls = b2f(o["rows"][i]["state"][0])
                if s_ == 0.0 and ls < -700.0 and ls == ls:
                    continue  # exp underflow of a finite log step size (below 1e-304): not judged
                if not (s_ > 0 and s_ <= mx * (1 + 1e-12) and s_ == s_ and s_ != float("inf")):
                    bad.append("step size %r after update %d is not in (0, max_step_size=%r]" % (s_, i, mx))
                    break
            # the averaged step size is a weighted average of the emitted (capped) step sizes
            for i, r_ in enumerate(o["rows"]):
                sa = b2f(r_["step_adapted"])
                if sa == sa and sa > mx * (1 + 1e-9):
                    bad.append("averaged step size %r after update %d exceeds max_step_size=%r (it must average the emitted step sizes)" % (sa, i, mx))
                    break
            if "dominates" in c and c["dominates"] in outs:
                stats["dominated_pairs"] += 1
                lo = [b2f(r_["step"]) for r_ in outs[c["dominates"]]["rows"]]
                lob = [b2f(r_["step_adapted"]) for r_ in outs[c["dominates"]]["rows"]]
                hib = [b2f(r_["step_adapted"]) for r_ in o["rows"]]
                for i, (a, b_) in enumerate(zip(lo, steps)):
                    if b_ < a * (1 - 1e-12):
                        bad.append("raising the acceptance statistics lowered the step size at update %d (%r -> %r)" % (i, a, b_))
                        break
                for i, (a, b_) in enumerate(zip(lob, hib)):
                    if b_ < a * (1 - 1e-12):
                        bad.append("raising the acceptance statistics lowered the averaged step size at update %d" % i)
                        break
        else:
            tgt = b2f(c["target"])
            prev = math.log(b2f(c["initial"]))
            for i, r_ in enumerate(o["rows"]):
                ls, mm = b2f(r_["state"][0]), b2f(r_["state"][1])
                if (ls > prev) != (mm > 0) and ls != prev and mm != 0:
                    bad.append("Adam update %d moved the step size %s although the smoothed acceptance error is %r" % (i, "up" if ls > prev else "down", mm))
                    break
                prev = ls
        if bad:
            nbad += 1
            if nbad <= 3:
                violation(ctx, "implementation violates C07: %s" % bad[0], {"case": c, "failures": bad}, found_input=True)
        elif not same:
            ndiff += 1
            if ndiff <= 3:
                k = next((i for i, (a, b_) in enumerate(zip(impl, m)) if a != b_), None)
                violation(ctx, "model/implementation correspondence broken (%s recurrence): first difference after update %s" % (c["method"], k),
                          {"case": c, "implementation": impl[:k + 2] if k is not None else impl[:3], "model": m[:k + 2] if k is not None else m[:3],
                           "correspondence": "model/DualAvg.v vs stepsize::{DualAverage, Adam}"}, found_input=False)
    ctx.oblig("correspondence-stepsize", ndiff == 0, "%d cases differ" % ndiff)
    # closed loop through real chains: the acceptance statistics fed to the adaptation are
    # probabilities on every draw - also when the very first leapfrog step of a trajectory diverges
    # (short warmups: the whole warmup then uses the symmetric statistic) - and the step size stays a
    # positive finite number within the configured cap
    ok2, out2 = build_harness(["schedule"])
    ctx.oblig("harness-build-schedule", ok2, out2[-2000:])
    if ok2:
        r = ctx.rnd()
        cl = []
        for cid in range(40 if quick else 300):
            dim = r.choice([1, 2, 3])
            c = {"id": cid, "preset": r.choice(["diag_nuts", "diag_nuts", "lowrank_nuts"]), "num_tune": r.choice([5, 10, 10, 20, 60]),
                 "num_draws": 20, "dim": dim, "seed": r.getrandbits(32), "maxdepth": r.choice([3, 5]), "method": "dual",
                 "jitter": r.choice([None, 0.1]),
                 # a narrow target makes the first step of many trajectories diverge at the initial step size
                 "prec": [r.choice([1.0, 1e4, 1e6]) for _ in range(dim)]}
            if r.random() < 0.5:
                c["region_fault"] = [r.choice([0.05, 0.5]), r.choice(["rec", "nan_logp", "huge_energy"])]
            cl.append(c)
        # both controllers steer an easy target to the acceptance target (the dual-averaging and
        # the Adam arm of the early AND the late estimator update)
        for k in range(8 if quick else 40):
            cl.append({"id": len(cl), "preset": "diag_nuts", "num_tune": 300, "num_draws": 100, "dim": r.choice([5, 8, 10]),
                       "seed": r.getrandbits(32), "maxdepth": 6, "method": ["dual", "adam"][k % 2], "jitter": None, "steer": True})
        couts, cerrs = run_harness_parallel("schedule", cl, timeout=1500)
        ctx.oblig("harness-run-closed-loop", not cerrs and len(couts) == len(cl), "\n".join(cerrs)[:1500])
        first_step_div = 0
        for c in cl:
            o = couts.get(c["id"])
            if not o or "draws" not in o:
                continue
            for d in o["draws"]:
                if "draw" not in d:
                    continue
                ctx.evaluations += 1
                if d.get("diverging") and d.get("n_steps") in (1, 0):
                    first_step_div += 1
                badv = None
                for key in ("mean_tree_accept", "mean_tree_accept_sym"):
                    if d.get(key) is not None:
                        v = b2f(d[key])
                        if not (0.0 <= v <= 1.0):
                            badv = "%s = %r at draw %d (diverging=%s, %s leapfrog steps) is not a probability" % (key, v, d["draw"], d.get("diverging"), d.get("n_steps"))
                st = b2f(d["step_size"])
                if not (st > 0 and st < float("inf")) and badv is None:
                    badv = "step size %r at draw %d is not a positive finite number" % (st, d["draw"])
                if d.get("step_size_bar") is not None and badv is None:
                    sb = b2f(d["step_size_bar"])
                    if sb != sb:
                        badv = "averaged step size is NaN at draw %d" % d["draw"]
                if badv:
                    nbad += 1
                    if nbad <= 3:
                        violation(ctx, "implementation violates C07: %s" % badv, {"case": c, "draw": d["draw"]}, found_input=True)
                    break
        for c in cl:
            o = couts.get(c["id"])
            if not c.get("steer") or not o or "draws" not in o:
                continue
            post = [d for d in o["draws"] if "draw" in d and d["draw"] >= c["num_tune"] and d.get("mean_tree_accept") is not None]
            if len(post) >= 50:
                acc = sum(b2f(d["mean_tree_accept"]) for d in post) / len(post)
                stats.setdefault("steered_acceptance", []).append(round(acc, 3))
                if not (0.6 <= acc <= 0.95):
                    nbad += 1
                    violation(ctx, "implementation violates C07: after 300 warmup draws on a %d-dimensional standard normal the %s controller runs at mean acceptance %.3f (target 0.8), step size %r" % (
                        c["dim"], c["method"], acc, b2f(post[-1]["step_size"])), {"case": c}, found_input=True)
        stats["closed_loop_cases"] = len(cl)
        stats["closed_loop_first_step_divergences"] = first_step_div
    nbad += search_tie(ctx, quick, stats)
    ctx.oblig("impl-audit-C07", nbad == 0, "%d cases" % nbad)
    ctx.notes["input_distribution"] = stats


_TB = [
    "Coq 8.16.1 kernel, vm_compute; Flocq binary64 (+ its 4 standard-library axioms) for model/DualAvg.v",
    "hand-written models: coq/model/StepSize.v (exact arithmetic, theorems) and coq/model/DualAvg.v (binary64, evaluated); the latter is tied bit-exactly to DualAverage / Adam driven open loop through hook re-exports; libm results (ln, powf, powi) are passed from the implementation run into the model as inputs",
    "closed-loop statements (post-warmup mean acceptance close to target) are statistical and not theorems",
]
TRUSTED = {"C07": _TB}
ASSUMPTIONS = {"C07": ["a step size that underflows to 0.0 because its finite logarithm is below -700 (hundreds of consecutive zero acceptances with a small gamma) is not judged",
                       "exp is increasing (step sizes are compared through their logarithms in the theorems)",
                       "coefficient sequences w, c, m are within their documented ranges (0 <= w,m <= 1, c >= 0)"]}
RULE = {"C07": "synthetic acceptance sequences (all-0, all-1, alternating, random, near target; length 1-400) x option sets x both methods, plus dominated companion histories for the monotonicity audit; distinct = case with >= 2 updates"}
