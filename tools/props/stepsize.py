"""C07: step-size adaptation.  Theorems over model/StepSize.v (exact arithmetic); bit-exact
correspondence of the binary64 recurrences (model/DualAvg.v) with DualAverage / Adam driven open
loop; implementation-side monotonicity and bound audits."""
import json
import math
import struct

from vlib import *  # noqa

AX = STDLIB_AXIOMS


def f2b(x):
    return struct.unpack("<Q", struct.pack("<d", float(x)))[0]


def b2f(b):
    return struct.unpack("<d", struct.pack("<Q", int(b)))[0]


def gen_cases(ctx, n):
    r = ctx.rnd()
    cases = []
    cid = 0
    for _ in range(n):
        length = r.choice([1, 2, 5, 20, 60]) if r.random() < 0.8 else r.randint(100, 400)
        pat = r.choice(["zeros", "ones", "alt", "rand", "rand", "near"])
        target = r.choice([0.8, 0.8, 0.65, 0.95, 0.5])
        if pat == "zeros":
            accs = [0.0] * length
        elif pat == "ones":
            accs = [1.0] * length
        elif pat == "alt":
            accs = [float(i % 2) for i in range(length)]
        elif pat == "near":
            accs = [min(1.0, max(0.0, target + (r.random() - 0.5) * 0.2)) for _ in range(length)]
        else:
            accs = [r.random() for _ in range(length)]
        c = {"id": cid, "accs": [str(f2b(a)) for a in accs], "target": str(f2b(target)),
             "initial": str(f2b(r.choice([0.1, 1.0, 0.001, 3.0, 1e-6]))), "pattern": pat}
        if r.random() < 0.7:
            c.update({"method": "dual", "k": str(f2b(r.choice([0.75, 0.5, 1.0]))), "t0": str(f2b(r.choice([10.0, 1.0, 100.0]))),
                      "gamma": str(f2b(r.choice([0.05, 0.5, 0.01]))), "max_step": str(f2b(r.choice([math.pi, 0.5, 100.0])))})
        else:
            c.update({"method": "adam", "beta1": str(f2b(0.9)), "beta2": str(f2b(r.choice([0.999, 0.9]))),
                      "eps": str(f2b(1e-8)), "lr": str(f2b(r.choice([0.05, 0.5])))})
        cases.append(c)
        cid += 1
        # a dominated companion history (same options, every acceptance >= the original)
        if c["method"] == "dual" and r.random() < 0.5:
            d = dict(c)
            d["id"] = cid
            d["accs"] = [str(f2b(min(1.0, b2f(a) + r.random() * 0.3))) for a in c["accs"]]
            d["dominates"] = c["id"]
            cases.append(d)
            cid += 1
    return cases


def model_expr(c, o):
    if c["method"] == "dual":
        rows = coq_list(["(%s, %s)%%Z" % (row["mk"], a) for row, a in zip(o["rows"], c["accs"])])
        return "run_da %s %s %s %s %s %s %s %s" % tuple(
            ["%s%%Z" % x for x in (c["k"], c["t0"], c["gamma"], o["ln_max"], o["ln_init"], o["ln_10init"], c["target"])] + [rows])
    rows = coq_list(["(%s, %s, %s)%%Z" % (row["b1t"], row["b2t"], a) for row, a in zip(o["rows"], c["accs"])])
    return "run_adam %s %s %s %s %s %s %s" % tuple(
        ["%s%%Z" % x for x in (c["beta1"], c["beta2"], c["eps"], c["lr"], o["ln_init"], c["target"])] + [rows])


def nanbits(b):
    return (b & 0x7FF0000000000000) == 0x7FF0000000000000 and (b & 0x000FFFFFFFFFFFFF) != 0


def run(ctx):
    prop = ctx.prop
    quick = ctx.tier == "quick"
    audit_forbidden(ctx)
    check_property_file(ctx, prop, allow_axioms=AX)
    ok, out = build_harness(["stepsize"])
    ctx.oblig("harness-build", ok, out[-3000:])
    if not ok:
        return
    cases = gen_cases(ctx, 100 if quick else 800)
    outs, errs = run_harness_parallel("stepsize", cases)
    ctx.oblig("harness-run", not errs and len(outs) == len(cases), "\n".join(errs)[:2000])
    todo = [c for c in cases if c["id"] in outs and "panic" not in outs[c["id"]]]
    prelude = "From NutsV Require Import lib.Fp model.DualAvg.\nFrom Coq Require Import ZArith NArith List.\nImport ListNotations.\n"
    order = sorted(todo, key=lambda c: -len(c["accs"]))
    shards = [[] for _ in range(16)]
    for i, c in enumerate(order):
        shards[i % 16].append(c)
    flat = [c for s_ in shards for c in s_]
    vals, err = coq_eval_shards(prop + "_da", prelude, [model_expr(c, outs[c["id"]]) for c in flat],
                                shard_size=max(1, (len(flat) + 15) // 16), timeout=1500)
    ctx.oblig("model-eval", err is None, err or "")
    if err:
        return
    ndiff = 0
    nbad = 0
    stats = {"dual": 0, "adam": 0, "advances": 0, "patterns": {}, "dominated_pairs": 0}
    byid = {c["id"]: c for c in cases}
    for c, m in zip(flat, vals):
        o = outs[c["id"]]
        ctx.evaluations += 1
        stats[c["method"]] += 1
        stats["advances"] += len(c["accs"])
        stats["patterns"][c["pattern"]] = stats["patterns"].get(c["pattern"], 0) + 1
        if len(c["accs"]) >= 2:
            ctx.nontrivial.add(c["id"])
        impl = [[int(x) for x in o["init"]] + [o["init_count"]]] + [[int(x) for x in r_["state"]] + [r_["count"]] for r_ in o["rows"]]
        if c["method"] == "adam":
            impl = [[row[0], row[1], row[2], row[4]] for row in impl]
        same = len(impl) == len(m) and all(len(a) == len(b_) and all(x == y or (nanbits(x) and nanbits(y)) for x, y in zip(a, b_)) for a, b_ in zip(impl, m))
        if len(ctx.samples) < 2 and len(c["accs"]) <= 5:
            ctx.samples.append({"case": {k: v for k, v in c.items()}, "implementation": impl, "model": m})
        # implementation-side audit from the statement
        bad = []
        steps = [b2f(r_["step"]) for r_ in o["rows"]]
        if c["method"] == "dual":
            mx = b2f(c["max_step"])
            for i, s_ in enumerate(steps):
                ls = b2f(o["rows"][i]["state"][0])
                if s_ == 0.0 and ls < -700.0 and ls == ls:
                    continue  # exp underflow of a finite log step size (below 1e-304): not judged
                if not (s_ > 0 and s_ <= mx * (1 + 1e-12) and s_ == s_ and s_ != float("inf")):
                    bad.append("step size %r after update %d is not in (0, max_step_size=%r]" % (s_, i, mx))
                    break
            # the averaged step size is a weighted average of the emitted (capped) step sizes
            for i, r_ in enumerate(o["rows"]):
                sa = b2f(r_["step_adapted"])
                if sa == sa and sa > mx * (1 + 1e-9):
                    bad.append("averaged step size %r after update %d exceeds max_step_size=%r (it must average the emitted step sizes)" % (sa, i, mx))
                    break
            if "dominates" in c and c["dominates"] in outs:
                stats["dominated_pairs"] += 1
                lo = [b2f(r_["step"]) for r_ in outs[c["dominates"]]["rows"]]
                lob = [b2f(r_["step_adapted"]) for r_ in outs[c["dominates"]]["rows"]]
                hib = [b2f(r_["step_adapted"]) for r_ in o["rows"]]
                for i, (a, b_) in enumerate(zip(lo, steps)):
                    if b_ < a * (1 - 1e-12):
                        bad.append("raising the acceptance statistics lowered the step size at update %d (%r -> %r)" % (i, a, b_))
                        break
                for i, (a, b_) in enumerate(zip(lob, hib)):
                    if b_ < a * (1 - 1e-12):
                        bad.append("raising the acceptance statistics lowered the averaged step size at update %d" % i)
                        break
        else:
            tgt = b2f(c["target"])
            prev = math.log(b2f(c["initial"]))
            for i, r_ in enumerate(o["rows"]):
                ls, mm = b2f(r_["state"][0]), b2f(r_["state"][1])
                if (ls > prev) != (mm > 0) and ls != prev and mm != 0:
                    bad.append("Adam update %d moved the step size %s although the smoothed acceptance error is %r" % (i, "up" if ls > prev else "down", mm))
                    break
                prev = ls
        if bad:
            nbad += 1
            if nbad <= 3:
                violation(ctx, "implementation violates C07: %s" % bad[0], {"case": c, "failures": bad}, found_input=True)
        elif not same:
            ndiff += 1
            if ndiff <= 3:
                k = next((i for i, (a, b_) in enumerate(zip(impl, m)) if a != b_), None)
                violation(ctx, "model/implementation correspondence broken (%s recurrence): first difference after update %s" % (c["method"], k),
                          {"case": c, "implementation": impl[:k + 2] if k is not None else impl[:3], "model": m[:k + 2] if k is not None else m[:3],
                           "correspondence": "model/DualAvg.v vs stepsize::{DualAverage, Adam}"}, found_input=False)
    ctx.oblig("correspondence-stepsize", ndiff == 0, "%d cases differ" % ndiff)
    # closed loop through real chains: the acceptance statistics fed to the adaptation are
    # probabilities on every draw - also when the very first leapfrog step of a trajectory diverges
    # (short warmups: the whole warmup then uses the symmetric statistic) - and the step size stays a
    # positive finite number within the configured cap
    ok2, out2 = build_harness(["schedule"])
    ctx.oblig("harness-build-schedule", ok2, out2[-2000:])
    if ok2:
        r = ctx.rnd()
        cl = []
        for cid in range(40 if quick else 300):
            dim = r.choice([1, 2, 3])
            c = {"id": cid, "preset": r.choice(["diag_nuts", "diag_nuts", "lowrank_nuts"]), "num_tune": r.choice([5, 10, 10, 20, 60]),
                 "num_draws": 20, "dim": dim, "seed": r.getrandbits(32), "maxdepth": r.choice([3, 5]), "method": "dual",
                 "jitter": r.choice([None, 0.1]),
                 # a narrow target makes the first step of many trajectories diverge at the initial step size
                 "prec": [r.choice([1.0, 1e4, 1e6]) for _ in range(dim)]}
            if r.random() < 0.5:
                c["region_fault"] = [r.choice([0.05, 0.5]), r.choice(["rec", "nan_logp", "huge_energy"])]
            cl.append(c)
        couts, cerrs = run_harness_parallel("schedule", cl, timeout=1500)
        ctx.oblig("harness-run-closed-loop", not cerrs and len(couts) == len(cl), "\n".join(cerrs)[:1500])
        first_step_div = 0
        for c in cl:
            o = couts.get(c["id"])
            if not o or "draws" not in o:
                continue
            for d in o["draws"]:
                if "draw" not in d:
                    continue
                ctx.evaluations += 1
                if d.get("diverging") and d.get("n_steps") in (1, 0):
                    first_step_div += 1
                badv = None
                for key in ("mean_tree_accept", "mean_tree_accept_sym"):
                    if d.get(key) is not None:
                        v = b2f(d[key])
                        if not (0.0 <= v <= 1.0):
                            badv = "%s = %r at draw %d (diverging=%s, %s leapfrog steps) is not a probability" % (key, v, d["draw"], d.get("diverging"), d.get("n_steps"))
                st = b2f(d["step_size"])
                if not (st > 0 and st < float("inf")) and badv is None:
                    badv = "step size %r at draw %d is not a positive finite number" % (st, d["draw"])
                if d.get("step_size_bar") is not None and badv is None:
                    sb = b2f(d["step_size_bar"])
                    if sb != sb:
                        badv = "averaged step size is NaN at draw %d" % d["draw"]
                if badv:
                    nbad += 1
                    if nbad <= 3:
                        violation(ctx, "implementation violates C07: %s" % badv, {"case": c, "draw": d["draw"]}, found_input=True)
                    break
        stats["closed_loop_cases"] = len(cl)
        stats["closed_loop_first_step_divergences"] = first_step_div
    ctx.oblig("impl-audit-C07", nbad == 0, "%d cases" % nbad)
    ctx.notes["input_distribution"] = stats


_TB = [
    "Coq 8.16.1 kernel, vm_compute; Flocq binary64 (+ its 4 standard-library axioms) for model/DualAvg.v",
    "hand-written models: coq/model/StepSize.v (exact arithmetic, theorems) and coq/model/DualAvg.v (binary64, evaluated); the latter is tied bit-exactly to DualAverage / Adam driven open loop through hook re-exports; libm results (ln, powf, powi) are passed from the implementation run into the model as inputs",
    "closed-loop statements (post-warmup mean acceptance close to target) are statistical and not theorems",
]
TRUSTED = {"C07": _TB}
ASSUMPTIONS = {"C07": ["a step size that underflows to 0.0 because its finite logarithm is below -700 (hundreds of consecutive zero acceptances with a small gamma) is not judged",
                       "exp is increasing (step sizes are compared through their logarithms in the theorems)",
                       "coefficient sequences w, c, m are within their documented ranges (0 <= w,m <= 1, c >= 0)"]}
RULE = {"C07": "synthetic acceptance sequences (all-0, all-1, alternating, random, near target; length 1-400) x option sets x both methods, plus dominated companion histories for the monotonicity audit; distinct = case with >= 2 updates"}
