"""C04 (partial): end-to-end posteriors.  Theorems: composition of C01/C02/C06 plus momentum
freshness (Properties/C04.v).  Tie: scripted momenta are the trajectory start velocities bitwise
(harness `orbit`).  Search (not a proof): fixed-length runs of the NUTS presets on Gaussian
targets with known moments, compared within generous Monte-Carlo bands; no divergences on
well-conditioned targets."""
import json
import math
import struct

from vlib import *  # noqa
import tree as treemod

AX = STDLIB_AXIOMS


def b2f(b):
    return struct.unpack("<d", struct.pack("<Q", int(b)))[0]


def f2b(x):
    return struct.unpack("<Q", struct.pack("<d", float(x)))[0]


def stat_cases(ctx, quick):
    r = ctx.rnd()
    cases = []
    cid = 0
    combos = [("diag_nuts", "euclidean"), ("diag_nuts", "exact_normal"), ("lowrank_nuts", "euclidean"), ("lowrank_nuts", "exact_normal")]
    dims = [1, 3, 10] if quick else [1, 3, 10, 30, 100]
    for preset, kind in combos:
        for dim in dims:
            for target in (["iso", "scaled"] if quick else ["iso", "scaled", "scaled6", "corr"]):
                for method in (["dual"] if quick else ["dual", "adam"]):
                    c = {"id": cid, "preset": preset, "kind": kind, "dim": dim, "seed": r.randint(1, 10 ** 6), "maxdepth": 8,
                         "num_tune": 300, "num_draws": 600 if quick else 1500, "method": method, "target": target,
                         "mu": [r.randint(-8, 8) / 4 for _ in range(dim)], "init": [0.3] * dim}
                    if target == "iso":
                        c["prec"] = [1.0] * dim
                    elif target == "scaled":
                        c["prec"] = [10.0 ** (2 * (r.random() - 0.5)) for _ in range(dim)]
                    elif target == "scaled6":
                        c["prec"] = [10.0 ** (6 * (r.random() - 0.5)) for _ in range(dim)]
                    else:
                        if dim > 10:
                            continue
                        A = [[r.choice([-0.5, 0, 0.5, 1]) for _ in range(dim)] for _ in range(dim)]
                        P = [[sum(A[i][k] * A[j][k] for k in range(dim)) + (1.0 if i == j else 0.0) for j in range(dim)] for i in range(dim)]
                        c["dense_prec"] = [P[i][j] for i in range(dim) for j in range(dim)]
                        c["prec"] = [1.0] * dim
                    cases.append(c)
                    cid += 1
    return cases


def inv_diag(P, d):
    # covariance diagonal of a dense precision matrix (Gauss-Jordan)
    a = [P[i * d:(i + 1) * d] + [1.0 if i == j else 0.0 for j in range(d)] for i in range(d)]
    for i in range(d):
        piv = a[i][i]
        a[i] = [x / piv for x in a[i]]
        for j in range(d):
            if j != i:
                f = a[j][i]
                a[j] = [x - f * y for x, y in zip(a[j], a[i])]
    return [a[i][d + i] for i in range(d)]


def stat_audit(c, o):
    bad = []
    if o.get("set_position") != "ok":
        return ["chain did not start: %s" % json.dumps(o)[:200]]
    draws = [d for d in o["draws"] if "draw" in d]
    if len(draws) != c["num_tune"] + c["num_draws"]:
        return ["run stopped early: %s" % json.dumps(o["draws"][-1])[:200]]
    post = draws[c["num_tune"]:]
    n = len(post)
    dim = c["dim"]
    var_true = inv_diag(c["dense_prec"], dim) if "dense_prec" in c else [1.0 / p for p in c["prec"]]
    ndiv = sum(1 for d in post if d["diverging"])
    if ndiv > 0 and c["target"] in ("iso", "scaled"):
        bad.append("%d divergences after warmup on a well-conditioned Gaussian" % ndiv)
    xs = [[b2f(b) for b in d["pos_bits"]] for d in post]
    n_eff = n / 6.0   # conservative effective sample size
    for i in range(dim):
        col = [x[i] for x in xs]
        m = sum(col) / n
        v = sum((x - m) ** 2 for x in col) / (n - 1)
        sd = math.sqrt(var_true[i])
        if abs(m - c["mu"][i]) > 8 * sd / math.sqrt(n_eff):
            bad.append("coordinate %d: posterior mean %.4g, true %.4g (sd %.3g, n=%d)" % (i, m, c["mu"][i], sd, n))
            break
        ratio = v / var_true[i]
        tol = 8 * math.sqrt(2.0 / n_eff)
        if not (1 - tol < ratio < 1 + tol + tol * tol):
            bad.append("coordinate %d: posterior variance ratio %.3f outside [%.2f, %.2f]" % (i, ratio, 1 - tol, 1 + tol + tol * tol))
            break
    acc = [b2f(d["mean_tree_accept"]) for d in post if d.get("mean_tree_accept")]
    if acc and c.get("method") == "dual" and c["kind"] == "euclidean":
        ma = sum(acc) / len(acc)
        if not (0.55 <= ma <= 0.99):
            bad.append("post-warmup mean acceptance %.3f far from target 0.8" % ma)
    return bad


def run(ctx):
    prop = ctx.prop
    quick = ctx.tier == "quick"
    audit_forbidden(ctx)
    check_property_file(ctx, prop, allow_axioms=AX)
    ok, out = build_harness(["orbit", "schedule"])
    ctx.oblig("harness-build", ok, out[-3000:])
    if not ok:
        return
    stats = {"momentum_draws": 0, "stat_runs": 0, "stat_draws": 0}
    # (1) momentum freshness: scripted normal vectors are the start velocities, bit for bit
    cases = treemod.gen_cases(ctx, 60 if quick else 400, faults=False)
    for c in cases:
        c["ndraws"] = 3
    outs, errs = run_harness_parallel("orbit", cases)
    ctx.oblig("harness-run-orbit", not errs and len(outs) == len(cases), "\n".join(errs)[:1500])
    nbad = 0
    for c in cases:
        o = outs.get(c["id"])
        if not o or o.get("init_state") != "ok":
            continue
        for k, d in enumerate(o["draws"]):
            if not d.get("init"):
                continue
            ctx.evaluations += 1
            stats["momentum_draws"] += 1
            dim = c["dim"]
            expect = [f2b(c["momentum"][(i + k) % max(dim, 1)]) for i in range(dim)]
            got = [int(b) for b in d["init"]["v"]]
            ctx.nontrivial.add(("m", c["id"], k))
            kin = 0.5 * sum(b2f(b) ** 2 for b in got)
            if got != expect:
                nbad += 1
                if nbad <= 3:
                    violation(ctx, "implementation violates C04: the velocity at the start of trajectory %d is not the freshly drawn standard-normal vector" % k,
                              {"case": {kk: vv for kk, vv in c.items() if kk != "words"}, "draw": k, "expected_bits": expect, "got_bits": got}, found_input=True)
            elif abs(b2f(d["init"]["kinetic"]) - kin) > 1e-12 * max(1.0, kin):
                nbad += 1
                if nbad <= 3:
                    violation(ctx, "implementation violates C04: kinetic energy %r of the fresh momentum is not 1/2 |v|^2 = %r" % (b2f(d["init"]["kinetic"]), kin),
                              {"case": {kk: vv for kk, vv in c.items() if kk != "words"}, "draw": k}, found_input=True)
    ctx.oblig("correspondence-momentum-fresh", nbad == 0, "%d draws" % nbad)
    # (1b) the real normal fill (CpuMath::array_gaussian with a real ChaCha8 stream) behind the
    # delegating backend: every coordinate of every dimension 1..=33 is written by every fill, two
    # successive fills differ in every coordinate, and each coordinate has mean 0 / variance std^2
    ok_k, out_k = build_harness(["kernels"])
    ctx.oblig("harness-build-kernels", ok_k, out_k[-2000:])
    if ok_k:
        r = ctx.rnd()
        dims_g = list(range(1, 12)) + [16, 17, 32, 33]
        nseed = 120 if quick else 1000
        gc = []
        for n in dims_g:
            stds = [r.choice([0.5, 1.0, 2.0, 3.0]) for _ in range(n)]
            for k in range(nseed):
                gc.append({"id": len(gc), "op": "gaussian", "n": n, "seed": r.getrandbits(48), "x": [str(f2b(v)) for v in stds], "stds": stds})
        gouts, gerrs = run_harness_parallel("kernels", gc)
        ctx.oblig("harness-run-gaussian", not gerrs and len(gouts) == len(gc), "\n".join(gerrs)[:1500])
        acc = {}
        ng = 0
        for c in gc:
            o = gouts.get(c["id"])
            if not o or "panic" in o:
                continue
            ctx.evaluations += 1
            a, b_ = [b2f(v) for v in o["v"]], [b2f(v) for v in o["v2"]]
            for i in range(c["n"]):
                if a[i] != a[i] or b_[i] != b_[i] or a[i] == b_[i]:
                    ng += 1
                    if ng <= 3:
                        violation(ctx, "implementation violates C04: coordinate %d of a %d-dimensional momentum is not freshly drawn by array_gaussian (first fill %r, second fill %r; NaN = never written)" % (i, c["n"], a[i], b_[i]),
                                  {"case": {k: v for k, v in c.items() if k != "x"}}, found_input=True)
                    break
                acc.setdefault((c["n"], i), []).extend([a[i] / c["stds"][i], b_[i] / c["stds"][i]])
        for (n, i), xs in sorted(acc.items()):
            m_ = sum(xs) / len(xs)
            v_ = sum((x - m_) ** 2 for x in xs) / len(xs)
            tol = 6.0 / math.sqrt(len(xs))
            if ng == 0 and (abs(m_) > tol or abs(v_ - 1.0) > 1.5 * tol):
                ng += 1
                violation(ctx, "implementation violates C04: coordinate %d of %d-dimensional momenta has mean %.3f and variance %.3f (in units of its scale) over %d fills, not 0 / 1" % (i, n, m_, v_, len(xs)),
                          {"dimension": n, "coordinate": i, "fills": len(xs)}, found_input=True)
        stats["gaussian_fills"] = 2 * len(gc)
        ctx.oblig("impl-audit-momentum-fill", ng == 0, "%d failures" % ng)
    # (2) search: moments of real runs
    sc = stat_cases(ctx, quick)
    souts, serrs = run_harness_parallel("schedule", sc, timeout=3000)
    ctx.oblig("harness-run-stat", not serrs and len(souts) == len(sc), "\n".join(serrs)[:1500])
    nb2 = 0
    for c in sc:
        o = souts.get(c["id"])
        if not o:
            continue
        ctx.evaluations += 1
        stats["stat_runs"] += 1
        stats["stat_draws"] += len(o.get("draws", []))
        ctx.nontrivial.add(("s", c["id"]))
        bad = stat_audit(c, o)
        if len(ctx.samples) < 2:
            ctx.samples.append({"case": {k: v for k, v in c.items() if k not in ("dense_prec",)}, "failures": bad})
        if bad:
            nb2 += 1
            if nb2 <= 3:
                violation(ctx, "implementation violates C04 (statistical search): %s" % bad[0], {"case": c, "failures": bad}, found_input=True)
    ctx.oblig("search-posterior-moments", nb2 == 0, "%d runs outside the Monte-Carlo bands" % nb2)
    ctx.notes["input_distribution"] = stats


_TB = [
    "Coq 8.16.1 kernel; the composition theorems reuse C01 (detailed balance, closed), C02 (reversibility, closed), C06 (frozen kernel); the C06 part mentions binary64 through model/Schedule.v (Flocq's 4 standard-library axioms)",
    "momentum freshness is tied through the delegating Math backend: the scripted standard-normal vector must be the start velocity bit for bit",
    "the statistical part is a search with 8-sigma bands on a conservative effective sample size (N/6); it is not a theorem and cannot certify correctness, only expose gross errors",
]
TRUSTED = {"C04": _TB}
ASSUMPTIONS = {"C04": ["PARTIAL claim: 'matches within Monte-Carlo error' is not formalised; continuous-state invariance needs measure theory on top of the orbit-wise theorem",
                       "rand_distr::StandardNormal and ChaCha8 are trusted to deliver i.i.d. N(0,1) variates"]}
RULE = {"C04": "momentum: scripted-orbit cases with 3 consecutive draws; search: 4 NUTS preset/kinetic combinations x dimensions x Gaussian targets (isotropic, badly scaled, correlated) x step-size methods, 300 warmup + 600..1500 draws each"}
