"""C05: density faults.  Theorems over model/Tree.v (fault propagation in the tree builder) and a
binary64 model of the divergence predicate; correspondence through the scripted-orbit runs (same
as C03, with faults) and a fault sweep over every preset through the public API: a fault of every
kind at every evaluation index of a short run."""
import json
import struct

from vlib import *  # noqa
import tree as treemod

AX = STDLIB_AXIOMS

KINDS = ["rec", "unrec", "nan_logp", "inf_logp", "neginf_logp", "nan_grad", "inf_grad", "huge_energy"]
PRESETS = ["diag_nuts", "lowrank_nuts", "flow_nuts", "diag_mclmc"]


def b2f(b):
    return struct.unpack("<d", struct.pack("<Q", int(b)))[0]


def sweep_cases(ctx, quick):
    r = ctx.rnd()
    cases = []
    cid = 0
    maxk = 70 if quick else 200
    ks = list(range(0, maxk, 1))
    for preset in PRESETS:
        for kind in KINDS:
            sel = ks if not quick else sorted(set(r.sample(ks, 14) + [0, 1, 2, 3]))
            for k in sel:
                c = {"id": cid, "preset": preset, "num_tune": 6, "num_draws": 3, "dim": 2, "seed": 7 + (cid % 5),
                     "maxdepth": 3, "faults": [[k, kind]], "fault_k": k, "fault_kind": kind, "max_energy_error": 1000.0}
                if r.random() < 0.25:
                    k2 = r.choice(ks)
                    c["faults"].append([k2, r.choice(KINDS)])
                if preset.endswith("mclmc"):
                    c["dynamic_step_size"] = r.random() < 0.5
                    c["jitter"] = None
                cases.append(c)
                cid += 1
    return cases


def sweep_audit(c, o):
    """Implementation-side oracle from the statement of C05."""
    bad = []
    faults = {k: kind for k, kind in c["faults"]}
    unrec_ks = sorted(k for k, kind in faults.items() if kind == "unrec")
    if str(o.get("new_chain", "")).startswith("panic"):
        return ["new_chain panicked: %s" % o["new_chain"]]
    sp = o.get("set_position")
    if sp is None:
        return ["no result"]
    if sp.startswith("panic"):
        return ["set_position panicked: %s" % sp[:200]]
    if sp != "ok":
        # an error from set_position is legitimate only if a fault hit the initialisation
        init_evals = o.get("evals_init", 0)
        if not any(k < max(init_evals, 1) for k in faults):
            bad.append("set_position failed although no fault was scheduled during initialisation: %s" % sp[:150])
        return bad
    e_prev = o.get("evals_init", 0)
    # an unrecoverable error during initialisation must have been reported
    if any(k < e_prev for k in unrec_ks) and o.get("fatal_hits", 0) > 0:
        bad.append("an unrecoverable error was returned during set_position (evaluations 0..%d) but set_position returned Ok" % e_prev)
    mclmc = c["preset"].endswith("mclmc")
    for i, d in enumerate(o["draws"]):
        if "panic" in d:
            bad.append("draw %d panicked: %s" % (i, d["panic"][:200]))
            break
        if "err" in d:
            # legitimate iff an unrecoverable fault lies in this draw's evaluations
            window = range(e_prev, e_prev + 5000)
            transient_init = ("Invalid initial point" in d["err"] or "Recoverable" in d["err"]) and any(k >= e_prev for k in faults)
            if not any(k >= e_prev for k in unrec_ks) and not transient_init:
                bad.append("draw %d returned Err without an unrecoverable fault: %s" % (i, d["err"][:150]))
            break
        e_now = d["evals"]
        # evaluations of the trajectory itself: the first n_steps of the window; the rest of the
        # window (only at the first transformation change) belongs to the re-run step-size search,
        # where a fault only discards the trial step
        e_traj = e_now if mclmc else min(e_now, e_prev + (d.get("n_steps") or 0))
        in_call = {k: kind for k, kind in faults.items() if e_prev <= k < e_now}
        in_draw = {k: kind for k, kind in faults.items() if e_prev <= k < e_traj}
        if any(kind == "unrec" for kind in in_call.values()):
            bad.append("draw %d performed the evaluation with the unrecoverable error but returned Ok" % i)
        if any(kind == "unrec" for kind in in_draw.values()):
            bad.append("draw %d performed the evaluation with the unrecoverable error but returned Ok" % i)
        if not d["pos_finite"]:
            bad.append("draw %d returned a non-finite position" % i)
        div_kinds = {"rec", "nan_logp", "inf_logp", "neginf_logp", "nan_grad", "inf_grad", "huge_energy"}
        hit = [kind for kind in in_draw.values() if kind in div_kinds]
        if hit and not d["diverging"]:
            if mclmc and c.get("dynamic_step_size", True):
                pass  # retried with a smaller step
            elif "huge_energy" in hit and len(hit) == 1 and mclmc:
                pass  # MCLMC normalises the energy limit by the number of steps; not judged
            else:
                bad.append("draw %d performed a faulty evaluation (%s) but is not reported as divergent" % (i, hit))
        e_prev = e_now
    return bad


def run(ctx):
    prop = ctx.prop
    quick = ctx.tier == "quick"
    audit_forbidden(ctx)
    check_property_file(ctx, prop, allow_axioms=AX)
    ok, out = build_harness(["orbit", "schedule"])
    ctx.oblig("harness-build", ok, out[-3000:])
    if not ok:
        return
    # (1) tree builder under faults: model correspondence (shared with C03)
    cases = treemod.gen_cases(ctx, 120 if quick else 1200, faults=True)
    outs, errs = run_harness_parallel("orbit", cases)
    ctx.oblig("harness-run-orbit", not errs and len(outs) == len(cases), "\n".join(errs)[:1500])
    exprs, meta = [], []
    for c in cases:
        o = outs.get(c["id"])
        if not o or o.get("init_state") != "ok":
            continue
        unrec = any(f[1] == "unrec" for f in c.get("faults", []))
        for k, d in enumerate(o["draws"]):
            if d.get("init") is None:
                continue
            exprs.append(treemod.build_model_call(c, d, unrec))
            meta.append((c, k, d))
    vals, err = coq_eval_shards(prop + "_tree", treemod.PRELUDE, exprs, shard_size=max(1, len(exprs) // 16 + 1))
    ctx.oblig("model-eval", err is None, err or "")
    ndiff = 0
    stats = {"orbit_draws": 0, "orbit_divergent": 0, "orbit_errors": 0, "sweep_cases": 0, "sweep_by_kind": {}, "sweep_divergent_draws": 0,
             "sweep_errors": 0, "sweep_init_errors": 0}
    if not err:
        for (c, k, d), m in zip(meta, vals):
            ctx.evaluations += 1
            stats["orbit_draws"] += 1
            s_ = treemod.impl_summary(d)
            stats["orbit_divergent"] += int(bool(s_.get("div")))
            stats["orbit_errors"] += int(bool(s_.get("err")))
            # from the statement alone: a transition during which an evaluation was faulty (the
            # integrator reported a divergence for that step) is reported as divergent, whatever
            # part of the tree building performed it (regular doubling, extra doubling)
            res = d.get("result", {})
            if "state" in res and any(lf["diverged"] for lf in d["leapfrogs"]) and not res.get("diverging"):
                k_bad = next(i for i, lf in enumerate(d["leapfrogs"]) if lf["diverged"])
                violation(ctx, "implementation violates C05: draw %d: leapfrog %d of the trajectory hit a faulty evaluation (divergence) but the draw is not reported as divergent" % (k, k_bad),
                          {"case": {kk: vv for kk, vv in c.items() if kk != "words"}, "draw": k}, found_input=True)
                ndiff += 1
                continue
            if treemod.ambiguous(m, d):
                continue
            diffs = treemod.compare_draw(c, d, m)
            if "panic" in s_:
                violation(ctx, "implementation violates C05: nuts::draw panicked: %s" % s_["panic"][:200],
                          {"case": {kk: vv for kk, vv in c.items() if kk != "words"}}, found_input=True)
            elif diffs:
                ndiff += 1
                if ndiff <= 3:
                    cc = dict(c)
                    cc["words"] = cc["words"][:30]
                    violation(ctx, "model/implementation correspondence broken (tree under faults): %s" % diffs[0],
                              {"case": cc, "draw": k, "differences": diffs}, found_input=False)
    ctx.oblig("correspondence-tree-faults", ndiff == 0, "%d draws differ" % ndiff)
    # (2) fault sweep through the public API
    sc = sweep_cases(ctx, quick)
    souts, serrs = run_harness_parallel("schedule", sc)
    ctx.oblig("harness-run-sweep", not serrs and len(souts) == len(sc), "\n".join(serrs)[:1500])
    nbad = 0
    for c in sc:
        o = souts.get(c["id"])
        if not o:
            continue
        ctx.evaluations += 1
        stats["sweep_cases"] += 1
        stats["sweep_by_kind"][c["fault_kind"]] = stats["sweep_by_kind"].get(c["fault_kind"], 0) + 1
        if o.get("set_position") != "ok":
            stats["sweep_init_errors"] += 1
        for d in o.get("draws", []):
            stats["sweep_divergent_draws"] += int(bool(d.get("diverging")))
            stats["sweep_errors"] += int("err" in d)
        ctx.nontrivial.add((c["preset"], c["fault_kind"], c["fault_k"]))
        bad = sweep_audit(c, o)
        if len(ctx.samples) < 3 and any(d.get("diverging") for d in o.get("draws", [])):
            ctx.samples.append({"case": c, "diverging": [d.get("diverging") for d in o["draws"]], "evals": [d.get("evals") for d in o["draws"]]})
        if bad:
            nbad += 1
            if nbad <= 4:
                violation(ctx, "implementation violates C05: %s" % bad[0], {"case": c, "failures": bad}, found_input=True)
    ctx.oblig("impl-audit-C05", nbad == 0, "%d cases" % nbad)
    ctx.notes["input_distribution"] = stats


_TB = [
    "Coq 8.16.1 kernel, vm_compute; tree theorems closed under the global context; the binary64 divergence predicate uses Flocq (4 standard-library axioms)",
    "model/Tree.v with its `bad` / `fatal` predicates (tied by the scripted-orbit correspondence under injected faults) and model/Faults.v (divergence predicate, bit-exact)",
    "the fault sweep drives every preset through the public API with the scriptable density (harness TestLogp): fault kind x evaluation index; panics are caught and reported",
    "panics inside dependencies (faer on non-finite input) are exercised by the sweep but not covered by a theorem",
]
TRUSTED = {"C05": _TB}
ASSUMPTIONS = {"C05": ["a transient fault injected at the re-evaluation of the current (already accepted) position when the step-size search is re-run after the first transformation change makes that draw return Err(BadInitGrad / LogpFailure); a deterministic density cannot fail there, so this is accepted and not judged",
                       "an unrecoverable error returned inside set_position of a chain run by the parallel sampler is retried by that sampler (known finding of C13); the chain-level call itself returns Err, which is what C05 audits",
                       "MCLMC with dynamic step size retries instead of reporting a divergence; MCLMC's per-step energy limit (max_energy_error * factor / steps) makes the 1e6 energy fault kind-dependent and it is not judged there"]}
RULE = {"C05": "orbit runs: as C03 with a fault of a random kind at a random evaluation; sweep: 4 presets x 8 fault kinds x evaluation index k (every k in thorough, 18 sampled k in quick) plus random second faults; distinct = (preset, kind, k)"}
