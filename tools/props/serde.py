"""C19: settings survive serialisation and reproduce the same chain.

Proof (Properties/C19.v over model/Serde.v, proofs/Serde_facts.v and the declarations regenerated
into gen/SerdeDecls.v by tools/translate_serde.py on every run) plus correspondence of the model's
`enc` / `dec` with serde + serde_json on the real settings types (harness binary `serde`), plus the
implementation-side oracle of the property text: JSON round trip field by field (bitwise), chains
built from original and round-tripped settings compared bitwise, Zarr root attributes read back.

The sources are read from /repo, or from the directory named by the environment variable
VERIF_REPO (used for mutation experiments; the harness is then built from a copy of
/verif/harness whose path dependencies point there, in its own target directory)."""
import json
import os
import re
import shutil
import struct

import vlib
from vlib import *  # noqa

import translate_serde as T

AX = ()  # C19's theorems must be closed under the global context

PRESETS = T.PRESETS


def f2bits(x):
    return struct.unpack("<Q", struct.pack("<d", float(x)))[0]


# ------------------------------------------------------------------------------------------------
# alternative repository (mutation experiments)
# ------------------------------------------------------------------------------------------------
def setup_repo():
    """Returns (repo path, note).  Re-targets the harness build when VERIF_REPO is set."""
    repo = os.environ.get("VERIF_REPO") or T.DEFAULT_REPO
    repo = os.path.abspath(repo)
    if repo == T.DEFAULT_REPO:
        return repo, None
    alt = os.path.join(BUILD, "harness_alt")
    if os.path.exists(alt):
        shutil.rmtree(alt)
    shutil.copytree(HARNESS, alt, ignore=shutil.ignore_patterns("target"))
    ct = os.path.join(alt, "Cargo.toml")
    s = open(ct).read()
    s = s.replace('path = "/repo/', 'path = "%s/' % repo).replace('path = "/repo"', 'path = "%s"' % repo)
    open(ct, "w").write(s)
    vlib.HARNESS = alt
    vlib.TARGET = os.path.join(BUILD, "target_alt")
    return repo, "sources and harness dependency taken from VERIF_REPO=%s" % repo


# ------------------------------------------------------------------------------------------------
# cases
# ------------------------------------------------------------------------------------------------
def gen_cases(ctx, tier):
    r = ctx.rnd()
    n_wild, n_run, n_zarr = (24, 12, 3) if tier == "quick" else (300, 150, 10)
    cases = []
    cid = 0
    for preset in PRESETS:
        # the Default value; only the first draws of its (long) run are compared
        cases.append({"id": cid, "preset": preset, "mode": "default", "chain": True, "chain_seed": 5,
                      "zarr": False, "max_draws": 5})
        cid += 1
        # every variant of the two enums of the preset and both states of both Options at least once
        for k in range(n_wild):
            c = {"id": cid, "preset": preset, "mode": "wild", "vseed": r.getrandbits(63)}
            if k < 3:
                c["hints"] = {"method": k, "kind": k, "jitter": k, "tit": (k + 1) % 3}
            cases.append(c)
            cid += 1
        for k in range(n_run):
            c = {"id": cid, "preset": preset, "mode": "run", "vseed": r.getrandbits(63),
                 "chain_seed": r.getrandbits(32), "zarr": k < n_zarr, "control": k == 0}
            if k < n_zarr and k % 2 == 1:
                # an earlier run with the preset's default settings has written to the same store
                c["zarr_reuse"] = True
            if k < 3:
                c["hints"] = {"method": k, "kind": (k + 1) % 3, "jitter": (k + 1) % 3, "tit": k}
            cases.append(c)
            cid += 1
        # out of the property's range (non-finite float): informational, ties the null convention
        cases.append({"id": cid, "preset": preset, "mode": "run", "vseed": r.getrandbits(63),
                      "hints": {"nonfinite": 1}, "nonfinite": True, "norun": True})
        cid += 1
    return cases


# ------------------------------------------------------------------------------------------------
# Python view of values: from the harness's direct field dump and the translator's type
# ------------------------------------------------------------------------------------------------
class Coverage(Exception):
    pass


def walk_value(ty, path, dump, used):
    """Returns (coq term of sval, vflat token list) for the value at `path` of type `ty`."""
    k = ty[0]
    if k == "struct":
        terms, toks = [], [(0, "", 0)]
        for fname, fty in ty[2]:
            p = (path + "." if path else "") + fname
            t, tk = walk_value(fty, p, dump, used)
            terms.append('(%s, %s)' % (T.cstr(fname), t))
            toks.append((2, fname, 0))
            toks += tk
        toks.append((1, "", 0))
        return "VStruct [%s]" % "; ".join(terms), toks
    if path not in dump:
        raise Coverage("field `%s` of the current sources is not covered by the harness dump" % path)
    e = dump[path]
    used.add(path)
    kind = e[1]
    if k == "prim":
        want = {"f64": "f64", "u64": "u64", "usize": "usize", "bool": "bool"}[ty[1]]
        if kind != want:
            raise Coverage("field `%s` has type %s in the sources but the harness dumps it as %s" % (path, ty[1], kind))
        if want == "f64":
            return "VF64 (%d)%%Z" % int(e[2]), [(5, "", int(e[2]))]
        if want == "u64":
            return "VU64 %d%%N" % int(e[2]), [(4, "", int(e[2]))]
        if want == "usize":
            return "VUsize %d%%N" % int(e[2]), [(11, "", int(e[2]))]
        return "VBool %s" % coq_bool(e[2]), [(6, "", 1 if e[2] else 0)]
    if k == "opt":
        if ty[1] != ("prim", "f64") or kind != "opt_f64":
            raise Coverage("Option field `%s` of shape %r / dump kind %s is not covered" % (path, ty[1], kind))
        if e[2] is None:
            return "VNone", [(9, "", 0)]
        return "VSome (VF64 (%d)%%Z)" % int(e[2]), [(10, "", 0), (5, "", int(e[2]))]
    if k == "enum":
        if kind != "enum":
            raise Coverage("enum field `%s` dumped as %s" % (path, kind))
        name, payload = e[2], e[3]
        if payload is None:
            return "VEnum %s None" % T.cstr(name), [(3, name, 0)]
        return ("VEnum %s (Some (VF64 (%d)%%Z))" % (T.cstr(name), int(payload)),
                [(8, name, 0), (5, "", int(payload))])
    raise Coverage("type shape %r at `%s`" % (ty, path))


def value_of(ty, fields):
    dump = {e[0]: e for e in fields}
    used = set()
    term, toks = walk_value(ty, "", dump, used)
    extra = sorted(set(dump) - used)
    if extra:
        raise Coverage("the harness dumps fields the sources no longer declare: %s" % extra[:5])
    return term, toks


def tflat_py(ty):
    k = ty[0]
    if k == "struct":
        out = [(0, "", 0)]
        for n, t in ty[2]:
            out.append((2, n, 0))
            out += tflat_py(t)
        return out + [(1, "", 0)]
    if k == "enum":
        out = [(12, "", 0)]
        for n, t in ty[2]:
            if t is None:
                out.append((13, n, 0))
            else:
                out.append((14, n, 0))
                out += tflat_py(t)
        return out + [(1, "", 0)]
    if k == "opt":
        return [(15, "", 0)] + tflat_py(ty[1])
    return [({"f64": 16, "u64": 17, "usize": 18, "bool": 19}[ty[1]], "", 0)]


# ------------------------------------------------------------------------------------------------
# JSON views
# ------------------------------------------------------------------------------------------------
def canon_tokens(c):
    """token list of the harness's canonical tree (same scheme as Serde.jflat)"""
    if c is None:
        return [(7, "", 0)]
    if "o" in c:
        out = [(0, "", 0)]
        for k, v in c["o"]:
            out.append((2, k, 0))
            out += canon_tokens(v)
        return out + [(1, "", 0)]
    if "s" in c:
        return [(3, c["s"], 0)]
    if "u" in c:
        return [(4, "", int(c["u"]))]
    if "f" in c:
        return [(5, "", int(c["f"]))]
    if "b" in c:
        return [(6, "", 1 if c["b"] else 0)]
    return [(99, json.dumps(c), 0)]


def canon_sorted(c):
    if isinstance(c, dict) and "o" in c:
        return {"o": sorted([[k, canon_sorted(v)] for k, v in c["o"]], key=lambda kv: kv[0])}
    return c


class F(str):
    pass


class U(str):
    pass


def parse_text(text):
    """JSON text -> ordered tree with number tokens kept apart (floats vs integers)"""
    return json.loads(text, object_pairs_hook=lambda ps: ("obj", ps), parse_float=F, parse_int=U)


def text_tokens(t):
    if t is None:
        return [(7, "", 0)]
    if isinstance(t, bool):
        return [(6, "", 1 if t else 0)]
    if isinstance(t, F):
        return [(5, "", f2bits(float(t)))]
    if isinstance(t, U):
        return [(4, "", int(t))]
    if isinstance(t, str):
        return [(3, t, 0)]
    if isinstance(t, tuple) and t[0] == "obj":
        out = [(0, "", 0)]
        for k, v in t[1]:
            out.append((2, k, 0))
            out += text_tokens(v)
        return out + [(1, "", 0)]
    return [(99, repr(t), 0)]


def tree_to_coq(t):
    """ordered tree (parse_text) -> Coq term of type json"""
    if t is None:
        return "JNull"
    if isinstance(t, bool):
        return "JBool %s" % coq_bool(t)
    if isinstance(t, F):
        return "JNum (NF (%d)%%Z)" % f2bits(float(t))
    if isinstance(t, U):
        return "JNum (NU %d%%N)" % int(t)
    if isinstance(t, str):
        return "JStr %s" % T.cstr(t)
    if isinstance(t, tuple) and t[0] == "obj":
        return "JObj [%s]" % "; ".join("(%s, %s)" % (T.cstr(k), tree_to_coq(v)) for k, v in t[1])
    raise ValueError("cannot express %r as a model JSON tree" % (t,))


def tree_to_text(t):
    if t is None:
        return "null"
    if isinstance(t, bool):
        return "true" if t else "false"
    if isinstance(t, (F, U)):
        return str(t)
    if isinstance(t, str):
        return json.dumps(t)
    return "{" + ",".join("%s:%s" % (json.dumps(k), tree_to_text(v)) for k, v in t[1]) + "}"


def toks(v):
    """parsed Coq token list -> list of tuples"""
    return [tuple(x) for x in v]


def json_leaf(c, path):
    """navigate the canonical tree by dotted path; returns (found, node)"""
    node = c
    for part in path.split("."):
        if not isinstance(node, dict) or "o" not in node:
            return False, None
        nxt = [v for k, v in node["o"] if k == part]
        if len(nxt) != 1:
            return False, None
        node = nxt[0]
    return True, node


def count_leaves(c):
    if isinstance(c, dict) and "o" in c:
        # a newtype variant object {"Fixed": x} counts as one leaf
        return sum(count_leaves(v) for _, v in c["o"])
    return 1


def expected_leaf(e):
    kind = e[1]
    if kind in ("u64", "usize"):
        return {"u": str(e[2])}
    if kind == "f64":
        return {"f": str(e[2])}
    if kind == "bool":
        return {"b": bool(e[2])}
    if kind == "opt_f64":
        return None if e[2] is None else {"f": str(e[2])}
    if kind == "enum":
        if e[3] is None:
            return {"s": e[2]}
        return {"o": [[e[2], {"f": str(e[3])}]]}
    return {"?": kind}


# ------------------------------------------------------------------------------------------------
# implementation-side oracle (property text; independent of the model and of the translator)
# ------------------------------------------------------------------------------------------------
def first_diff(a, b):
    da = {e[0]: e for e in a or []}
    db = {e[0]: e for e in b or []}
    for k in list(da) + [k for k in db if k not in da]:
        if da.get(k) != db.get(k):
            return "%s: %s -> %s" % (k, da.get(k, ["", "absent"])[1:], db.get(k, ["", "absent"])[1:])
    return None


def json_shape(c, o):
    """field-by-field comparison through the JSON: every field of the settings value (direct field
    access) is in to_value(&settings) under its own name with the identical value (bitwise floats)
    and nothing else is.  A difference here is not by itself a violation of the property (a
    consistent rename still round-trips) - it breaks the tie between the model and the code."""
    shape = []
    if c.get("nonfinite") or "json" not in o:
        return shape
    fields = o["fields"]
    for e in fields:
        found, node = json_leaf(o["json"], e[0])
        if not found:
            shape.append("field `%s` is not present in to_value(&settings) under its name" % e[0])
        elif node != expected_leaf(e):
            shape.append("field `%s`: to_value gives %s, the struct holds %s" % (e[0], json.dumps(node), json.dumps(expected_leaf(e))))
    if count_leaves(o["json"]) != len(fields):
        shape.append("to_value(&settings) has %d leaves, the settings value has %d fields" % (count_leaves(o["json"]), len(fields)))
    return shape


def oracle(c, o):
    bad = []
    if "panic" in o or "error" in o:
        return ["harness failed: %s" % (o.get("panic") or o.get("error"))]
    if c.get("nonfinite"):
        return bad
    for k in ("to_value_error", "to_string_error", "from_value_error", "from_str_error", "text_value_error",
              "text_parse_error", "rt_to_value_error"):
        if k in o:
            bad.append("%s: %s" % (k, o[k]))
    if bad:
        return bad
    fields = o["fields"]
    for key, what in (("rt_fields", "from_value(to_value(s))"), ("text_rt_fields", "from_str(to_string(s))"),
                      ("text_value_rt_fields", "from_value(from_str::<Value>(to_string(s)))")):
        d = first_diff(fields, o.get(key))
        if d:
            bad.append("%s differs from s in field %s" % (what, d))
    if o.get("rt_json_equal") is not True:
        bad.append("to_value(from_value(to_value(s))) differs from to_value(s)")
    if o.get("text_value_equal") is not True:
        bad.append("the text written by to_string parses to a different JSON value than to_value(s)")
    if "chain_orig" in o:
        a, b = o["chain_orig"], o.get("chain_rt")
        if a != b:
            da, db = a.get("draws", []), (b or {}).get("draws", [])
            i = next((i for i in range(max(len(da), len(db))) if i >= len(da) or i >= len(db) or da[i] != db[i]), None)
            bad.append("chain built from the round-tripped settings differs from the original chain (same seed): first "
                       "difference at draw %s: %s vs %s" % (i, json.dumps(da[i] if i is not None and i < len(da) else a)[:200],
                                                            json.dumps(db[i] if i is not None and i < len(db) else b)[:200]))
    if "zarr" in o:
        z = o["zarr"]
        if z.get("open") != "ok":
            bad.append("Zarr root group cannot be opened: %s" % z.get("open"))
        elif z.get("stored") is None:
            bad.append("Zarr root attributes have no `sampler_settings` (keys: %s)" % z.get("attr_keys"))
        else:
            if canon_sorted(z["stored"]) != canon_sorted(o["json"]):
                bad.append("Zarr attribute sampler_settings differs from to_value(&settings) of the run")
            if "stored_decode_error" in z:
                bad.append("Zarr attribute sampler_settings does not deserialise: %s" % z["stored_decode_error"])
            else:
                d = first_diff(fields, z.get("stored_fields"))
                if d:
                    bad.append("settings read back from the Zarr metadata differ from those the run used: %s" % d)
            if z.get("sampler_kind") != z.get("expected_sampler_kind") or z.get("adaptation_kind") != z.get("expected_adaptation_kind"):
                bad.append("Zarr attributes sampler_kind/adaptation_kind %s/%s, settings say %s/%s" % (
                    z.get("sampler_kind"), z.get("adaptation_kind"), z.get("expected_sampler_kind"), z.get("expected_adaptation_kind")))
    return bad


# ------------------------------------------------------------------------------------------------
# decoder probes: hand-modified JSON texts through from_str and through the model's dec
# ------------------------------------------------------------------------------------------------
def obj_map(t, f, key=None):
    """apply f to the member list of every struct object, bottom-up (the one-member object of a
    newtype variant - the value of `method` - is left alone)"""
    if isinstance(t, tuple) and t[0] == "obj":
        ms = [(k, obj_map(v, f, k)) for k, v in t[1]]
        return ("obj", ms if key == "method" else f(ms))
    return t


def make_probes(preset, tree):
    P = []

    def drop(name):
        return lambda ms: [(k, v) for k, v in ms if k != name]

    def setv(name, val):
        return lambda ms: [(k, (val if k == name else v)) for k, v in ms]

    P.append(("drop-option-keys", obj_map(tree, lambda ms: [(k, v) for k, v in ms if k not in ("jitter", "target_integration_time")]), "ok"))
    P.append(("unknown-keys", obj_map(tree, lambda ms: [("zz_unknown", F("1.5"))] + ms + [("another", ("obj", [("x", None)]))]), "ok"))
    P.append(("reversed-order", obj_map(tree, lambda ms: list(reversed(ms))), "ok"))
    P.append(("null-option", obj_map(tree, setv("jitter", None)), "ok"))
    P.append(("missing-required", ("obj", drop("num_tune")(tree[1])), "err"))
    P.append(("duplicate-key", ("obj", tree[1] + [("seed", U("3"))]), "err"))
    P.append(("null-for-f64", ("obj", setv("max_energy_error", None)(tree[1])), "err"))
    P.append(("unknown-variant", ("obj", setv("trajectory_kind", "NoSuchKind")(tree[1])), "err"))
    P.append(("string-for-bool", ("obj", setv("store_gradient", "true")(tree[1])), "err"))
    P.append(("newtype-variant", obj_map(tree, setv("method", ("obj", [("Fixed", F("0.1"))]))), "ok"))
    P.append(("unit-variant-as-newtype-payload", obj_map(tree, setv("method", ("obj", [("Fixed", None)]))), "err"))
    return P


# ------------------------------------------------------------------------------------------------
def diagnose_decls(ctx, model):
    """names every serde attribute of the regenerated declarations (Python view; the Coq view is
    C19_no_serde_attributes / C19_settings_wf)."""
    attrs = T.all_attrs(model)
    for where, a in attrs:
        violation(ctx, "serde attribute `%s` on %s: the derive defaults modelled by enc/dec (and proved to round-trip) are not "
                       "the ones in force; C19_settings_wf / C19_no_serde_attributes no longer hold" % (a, where),
                  {"attribute": a, "location": where, "decls": "coq/gen/SerdeDecls.v",
                   "theorems_no_longer_tied": ["C19_settings_wf", "C19_no_serde_attributes", "C19_presets_roundtrip"]},
                  found_input=False)
    return attrs


def run(ctx):
    tier = ctx.tier
    repo, note = setup_repo()
    if note:
        ctx.notes["alt_repo"] = note
    audit_forbidden(ctx)
    # 1. translator: regenerate gen/SerdeDecls.v from the current sources
    try:
        model, out, changed = T.generate(repo)
        ctx.oblig("translator", True)
        ctx.notes["translator"] = {"repo": repo, "items": [i["name"] for i in model["items"]],
                                   "fields": sum(len(i.get("fields", [])) for i in model["items"]),
                                   "variants": sum(len(i.get("variants", [])) for i in model["items"]),
                                   "presets": [p for p, _ in model["presets"]], "regenerated_changed": changed}
    except T.Unsupported as e:
        ctx.oblig("translator", False, str(e))
        violation(ctx, "translator cannot express the current settings declarations: %s" % e,
                  {"error": str(e), "repo": repo}, found_input=False)
        return
    ctx.checker_cmds.append("python3 tools/translate_serde.py")
    attrs = diagnose_decls(ctx, model)
    ctx.oblig("no-serde-attributes", not attrs, json.dumps(attrs[:10]))
    # 2. proofs + audit
    check_property_file(ctx, "C19", allow_axioms=AX)
    okg, outg = coq_make(["gen/SerdeDecls.vo"])
    ctx.oblig("coq-build:gen/SerdeDecls.v", okg, outg[-2000:] if not okg else "")
    # the Zarr writers (sync and async) store serde_json::to_value(settings) under sampler_settings
    for rel in ("src/storage/zarr/sync_impl.rs", "src/storage/zarr/async_impl.rs"):
        src = open(os.path.join(repo, rel)).read()
        m = re.search(r'"sampler_settings"\.to_string\(\),\s*serde_json::to_value\(settings\)', src)
        ctx.oblig("zarr-writer-stores-to_value(settings):%s" % rel, bool(m), "pattern not found in %s" % rel)
    # 3. harness
    ok, out = build_harness(["serde"])
    ctx.oblig("harness-build", ok, out[-3000:])
    if not ok:
        return
    cases = gen_cases(ctx, tier)
    replaying = False
    if getattr(ctx, "replay", None):
        # ./check C19 --replay <file>: proofs, translator and the single recorded case
        payload = json.load(open(ctx.replay))
        if isinstance(payload.get("case"), dict) and payload["case"].get("mode") != "probe":
            keep = [c for c in cases if c["mode"] == "default" and c["preset"] == payload["case"].get("preset")]
            cases = keep + [dict(payload["case"], id=10 ** 6)]
            replaying = True
    outs, errs = run_harness_parallel("serde", cases)
    ctx.oblig("harness-run", not errs and len(outs) == len(cases), ("\n".join(errs))[:2000] + " got %d of %d" % (len(outs), len(cases)))
    # probes are derived from the default text of every preset
    types = {p: T.resolve(model, ty) for p, ty in model["presets"]}
    probes = []
    pid = len(cases)
    for c in cases:
        o = outs.get(c["id"])
        if c["mode"] == "default" and o and "text" in o:
            tree = parse_text(o["text"])
            for name, t2, expect in make_probes(c["preset"], tree):
                probes.append({"id": pid, "preset": c["preset"], "mode": "probe", "probe": name, "expect": expect,
                               "text": tree_to_text(t2), "tree": t2})
                pid += 1
    pouts, perrs = run_harness_parallel("serde", [{k: v for k, v in p.items() if k != "tree"} for p in probes])
    ctx.oblig("harness-run-probes", not perrs and len(pouts) == len(probes), ("\n".join(perrs))[:2000])

    # 4. implementation-side oracle
    stats = {"presets": {}, "modes": {}, "variants": {}, "options": {}, "chains_compared": 0, "chains_with_draws": 0,
             "draws_compared": 0, "zarr_runs": 0, "zarr_sampler_ok": 0, "probes": len(probes)}
    n_viol = 0
    n_shape = 0
    for c in cases:
        o = outs.get(c["id"])
        if o is None:
            continue
        bad = oracle(c, o)
        stats["presets"][c["preset"]] = stats["presets"].get(c["preset"], 0) + 1
        stats["modes"][c["mode"]] = stats["modes"].get(c["mode"], 0) + 1
        for e in o.get("fields", []):
            if e[1] == "enum":
                stats["variants"]["%s=%s" % (e[0].split(".")[-1], e[2])] = 1
            if e[1] == "opt_f64":
                stats["options"]["%s=%s" % (e[0].split(".")[-1], "None" if e[2] is None else "Some")] = 1
        if "chain_orig" in o and not c.get("nonfinite"):
            stats["chains_compared"] += 1
            nd = len([d for d in o["chain_orig"].get("draws", []) if "pos" in d])
            stats["draws_compared"] += nd
            if nd:
                stats["chains_with_draws"] += 1
        if "zarr" in o:
            stats["zarr_runs"] += 1
            if o["zarr"].get("sampler") == "ok":
                stats["zarr_sampler_ok"] += 1
        shape = json_shape(c, o)
        if shape:
            n_shape += 1
            if n_shape <= 2:
                violation(ctx, "JSON written for the settings is not the field-by-field image of the value (%s, case %d): %s" % (
                    c["preset"], c["id"], shape[0]),
                          {"case": c, "differences": shape[:10], "json_text": o.get("text"),
                           "correspondence": "direct field dump vs serde_json::to_value",
                           "theorems_no_longer_tied": ["C19_serde_roundtrip", "C19_presets_roundtrip"]}, found_input=False)
        if bad:
            n_viol += 1
        if bad and n_viol <= 6:
            violation(ctx, "implementation violates C19 (%s, case %d): %s" % (c["preset"], c["id"], bad[0]),
                      {"case": c, "failures": bad[:10], "settings_fields": o.get("fields"), "json_text": o.get("text"),
                       "replay": "echo '<case json>' | build/target/debug/serde"}, found_input=True)
    ctx.oblig("oracle-roundtrip-chain-zarr", n_viol == 0, "%d cases violate the property" % n_viol)
    # JSON *text* round trip in a build of nuts-rs with its default features only (the main harness
    # enables `zarr`, whose zarrs dependency switches on serde_json's float_roundtrip)
    if not replaying:
        nf_dir = os.path.join(VERIF, "harness_nofeat")
        nf_target = os.path.join(BUILD, "target_nofeat")
        rc_, out_ = sh(["cargo", "build", "--offline", "--bins"], cwd=nf_dir, timeout=3000, env={"CARGO_TARGET_DIR": nf_target})
        ctx.oblig("harness-build-default-features", rc_ == 0, out_[-2000:])
        if rc_ == 0:
            r_ = ctx.rnd()
            tcases = [{"id": i, "preset": p, "seed": r_.getrandbits(60), "n": 150 if ctx.tier == "quick" else 3000}
                      for i, p in enumerate(PRESETS)]
            inp = "\n".join(json.dumps(c) for c in tcases) + "\n"
            rc2, out2 = sh([os.path.join(nf_target, "debug", "serde_text")], input=inp, timeout=1500)
            touts = [json.loads(l) for l in out2.split("\n") if l.strip().startswith("{")]
            ctx.oblig("harness-run-default-features", rc2 == 0 and len(touts) == len(tcases) and not any("error" in o for o in touts), out2[-1500:])
            n_text = 0
            tried = 0
            for c, o in zip(tcases, touts):
                tried += o.get("tried", 0)
                ctx.evaluations += o.get("tried", 0)
                stats["text_roundtrips_default_features"] = stats.get("text_roundtrips_default_features", 0) + o.get("tried", 0)
                stats["float_fields_default_features"] = stats.get("float_fields_default_features", 0) + o.get("float_fields", 0)
                if o.get("n_failures", 0) > 0:
                    n_text += 1
                    f0 = o["failures"][0]
                    violation(ctx, "implementation violates C19 (%s, default-feature build): from_str(to_string(s)) differs from s in %d of %d settings values; first difference %s" % (
                        c["preset"], o["n_failures"], o.get("tried", 0), json.dumps(f0.get("first_difference") or f0.get("error"))[:300]),
                        {"case": c, "failures": o["failures"], "replay": "echo '<case json>' | build/target_nofeat/debug/serde_text"}, found_input=True)
            ctx.oblig("oracle-text-roundtrip-default-features", n_text == 0 and tried > 0, "%d presets fail, %d values tried" % (n_text, tried))
    ctx.oblig("json-is-field-by-field-image", n_shape == 0, "%d cases" % n_shape)
    controls = [outs[c["id"]] for c in cases if c.get("control") and c["id"] in outs and "chain_other_seed" in outs[c["id"]]]
    ctx.oblig("chain-comparison-sensitive", replaying or bool(controls) and all(o["chain_other_seed"] != o["chain_orig"] for o in controls),
              "a chain with another seed must be distinguishable")
    all_variants = set()
    for ty in types.values():
        def collect(t, fname=""):
            if t[0] == "struct":
                for n, ft in t[2]:
                    collect(ft, n)
            elif t[0] == "enum":
                for vn, _ in t[2]:
                    all_variants.add("%s=%s" % (fname, vn))
            elif t[0] == "opt":
                all_variants.add("opt:%s=None" % fname)
                all_variants.add("opt:%s=Some" % fname)
        collect(ty)
    seen = set(stats["variants"]) | set("opt:" + k for k in stats["options"])
    ctx.oblig("coverage-every-variant-and-option-state", replaying or all_variants <= seen, "not generated: %s" % sorted(all_variants - seen))
    stats["variants"] = sorted(stats["variants"])
    stats["options"] = sorted(stats["options"])
    ctx.oblig("chains-actually-ran", replaying or stats["chains_with_draws"] >= len(PRESETS), json.dumps(stats))
    ctx.oblig("zarr-sampler-ran", replaying or stats["zarr_sampler_ok"] >= 1 and stats["zarr_runs"] >= len(PRESETS), json.dumps(stats))

    # 5. model on the same values
    prelude = ("From NutsV Require Import model.Serde gen.SerdeDecls.\nFrom Coq Require Import String ZArith NArith List.\n"
               "Import ListNotations.\nLocal Open Scope string_scope.\n"
               'Definition ty_of (i : nat) : sty := match preset_sty decls (nth i presets ("", RPrim "")) with Some t => t | None => SBool end.\n')
    idx = {p: i for i, (p, _) in enumerate(model["presets"])}
    exprs, meta = [], []
    for p in PRESETS:
        exprs.append("tflat (ty_of %d)" % idx[p])
        meta.append(("type", p, None))
    cov_err = None
    for c in cases:
        o = outs.get(c["id"])
        if not o or "fields" not in o or "json" not in o:
            continue
        try:
            term, vt = value_of(types[c["preset"]], o["fields"])
        except Coverage as e:
            cov_err = str(e)
            continue
        i = idx[c["preset"]]
        exprs.append("let v := %s in (jflat (enc (ty_of %d) v), vflat_opt (dec (ty_of %d) (enc (ty_of %d) v)), vflat v, typed (ty_of %d) v)"
                     % (term, i, i, i, i))
        meta.append(("case", c, vt))
    ctx.oblig("harness-dump-covers-declared-fields", cov_err is None, cov_err or "")
    for p in probes:
        i = idx[p["preset"]]
        try:
            exprs.append("vflat_opt (dec (ty_of %d) (%s))" % (i, tree_to_coq(p["tree"])))
            meta.append(("probe", p, None))
        except ValueError:
            pass
    vals, err = coq_eval_shards("C19_serde", prelude, exprs, shard_size=max(1, len(exprs) // 16 + 1))
    ctx.oblig("model-eval", err is None, err or "")
    if err:
        return
    ndiff = 0

    def corr(what, payload):
        nonlocal ndiff
        ndiff += 1
        if ndiff <= 4:
            payload = dict(payload)
            payload["theorems_no_longer_tied"] = ctx.notes.get("theorems", {}).get("C19", [])
            violation(ctx, "model/implementation correspondence broken (serde): %s" % what, payload, found_input=False)

    for v, (kind, c, vt) in zip(vals, meta):
        ctx.evaluations += 1
        if kind == "type":
            if toks(v) != tflat_py(types[c]):
                corr("Coq resolution of preset %s differs from the translator's Python view" % c, {"preset": c})
            continue
        if kind == "case":
            o = outs[c["id"]]
            m_json, m_dec, m_v, m_typed = toks(v[0]), v[1], toks(v[2]), v[3]
            if m_v != vt:
                corr("internal: value flattening differs (case %d)" % c["id"], {"case": c})
            impl_tok = canon_tokens(o["json"])
            txt_tok = text_tokens(parse_text(o["text"])) if "text" in o else None
            if canon_sorted_tokens(m_json) != canon_sorted_tokens(impl_tok):
                corr("enc differs from serde_json::to_value for %s case %d: first difference %s" % (
                    c["preset"], c["id"], first_tok_diff(m_json, impl_tok)), {"case": c, "model": m_json[:60], "impl": impl_tok[:60]})
            if txt_tok is not None and m_json != txt_tok:
                corr("enc differs from the text of serde_json::to_string (member order / number tokens) for %s case %d: %s" % (
                    c["preset"], c["id"], first_tok_diff(m_json, txt_tok)), {"case": c, "text": o.get("text")})
            if c.get("nonfinite"):
                # out of range: the model says null is written and decoding fails
                ok_nf = (m_typed is False and m_dec is None and (7, "", 0) in impl_tok and "from_value_error" in o)
                if not ok_nf:
                    corr("non-finite float convention differs for %s (model typed=%s dec=%s; impl error=%s)" % (
                        c["preset"], m_typed, m_dec, o.get("from_value_error")), {"case": c})
                else:
                    ctx.notes.setdefault("out_of_range_observations", {})[c["preset"]] = \
                        "a non-finite float is written as null and from_value fails: %s" % o.get("from_value_error")
                continue
            if m_typed is not True:
                corr("generated value is not typed in the model (%s case %d)" % (c["preset"], c["id"]), {"case": c})
            if not (isinstance(m_dec, tuple) and m_dec[0] == "Some" and toks(m_dec[1]) == vt):
                corr("model: dec (enc v) <> Some v for %s case %d" % (c["preset"], c["id"]), {"case": c})
            ctx.nontrivial.add(hash((c["preset"], json.dumps(o["fields"]))))
            if len(ctx.samples) < 3 and c["mode"] != "default":
                ctx.samples.append({"case": c, "json_text": o.get("text"), "model_enc_tokens_head": m_json[:12]})
            continue
        # probes
        o = pouts.get(c["id"])
        if o is None or "probe" not in o:
            corr("probe %s/%s did not run" % (c["preset"], c["probe"]), {"probe": c["probe"]})
            continue
        pr = o["probe"]
        if c["expect"] == "ok":
            if not pr["ok"]:
                corr("probe %s/%s: serde rejects (%s) a text the model expects to decode" % (c["preset"], c["probe"], pr.get("error")),
                     {"probe": c["probe"], "text": c["text"]})
                continue
            try:
                _, pt = value_of(types[c["preset"]], pr["fields"])
            except Coverage as e:
                corr("probe %s/%s: %s" % (c["preset"], c["probe"], e), {"probe": c["probe"]})
                continue
            if not (isinstance(v, tuple) and v[0] == "Some" and toks(v[1]) == pt):
                corr("probe %s/%s: model dec differs from serde_json::from_str" % (c["preset"], c["probe"]),
                     {"probe": c["probe"], "text": c["text"], "model": str(v)[:300]})
        else:
            if pr["ok"] or v is not None:
                corr("probe %s/%s: expected rejection; serde ok=%s, model %s" % (c["preset"], c["probe"], pr["ok"], "None" if v is None else "Some"),
                     {"probe": c["probe"], "text": c["text"], "serde_error": pr.get("error")})
            else:
                ctx.notes.setdefault("probe_errors", {})[c["probe"]] = pr.get("error", "")[:80]
    ctx.oblig("correspondence-serde", ndiff == 0, "%d differences" % ndiff)
    ctx.notes["input_distribution"] = stats


def canon_sorted_tokens(tk):
    """order-insensitive view of a token list: multiset of (path, leaf token)"""
    out = []
    path = []
    pending = None
    for t in tk:
        if t[0] == 2:
            pending = t[1]
        elif t[0] == 0:
            path.append(pending if pending is not None else "")
            pending = None
        elif t[0] == 1:
            if path:
                path.pop()
        else:
            out.append(("/".join(path + [pending or ""]), t))
            pending = None
    return sorted(out)


def first_tok_diff(a, b):
    for i in range(max(len(a), len(b))):
        x = a[i] if i < len(a) else None
        y = b[i] if i < len(b) else None
        if x != y:
            ctxt = [t[1] for t in a[:i] if t[0] == 2][-1:] or [""]
            return "token %d (after key `%s`): model %s, implementation %s" % (i, ctxt[0], x, y)
    return "none"


_TB = [
    "Coq 8.16.1 kernel: coqc full .vo build; vm_compute for C19_settings_wf / C19_no_serde_attributes / examples and for model evaluation; no native_compute",
    "axioms (Print Assumptions): all eight statements of Properties/C19.v are closed under the global context (allowlist for C19 is empty)",
    "hand-written model coq/model/Serde.v of the serde derive defaults and serde_json conventions (struct -> object in field order, unit variant -> string, newtype variant -> one-member object, None -> null, missing Option member -> None, unknown members ignored, duplicate member of a declared field rejected, non-finite f64 -> null) - tied to serde / serde_json only by the correspondence run (encoding comparison on to_value and on the to_string text, 11 decoder probes per preset)",
    "translator tools/translate_serde.py (tokenizer + recursive descent over the ten source files; fails with `unsupported construct` on anything it does not fully parse); its Python-side resolution is cross-checked against Serde.resolve (Coq) on every run",
    "correspondence harness /verif/harness/src/bin/serde.rs (settings built and dumped by direct field access, no serde involved), verif_harness::TestLogp, python glue tools/vlib.py, tools/props/serde.py",
    "number tokens are opaque: printing / parsing of floats (serde_json + zmij/ryu shortest representation, parser with feature float_roundtrip enabled through zarrs) is trusted; checked per case by from_str(to_string(s)) bitwise and by Python's correctly rounded float() on the emitted text",
    "the statement `same seed -> bit-identical draws` is the congruence C19_same_settings_same_chain in the model; for the code it rests on the bitwise chain comparison of the harness (new_chain reads nothing but the settings value, the math object and the RNG)",
]
TRUSTED = {"C19": _TB}
ASSUMPTIONS = {
    "C19": [
        "field values are finite floats and integers below 2^64 (the property's quantifier); a non-finite float (e.g. the documented momentum_decoherence_length = f64::INFINITY) is written as null and does not deserialise - observed and recorded under out_of_range_observations, not a violation of C19 as stated",
        "usize is 64 bits wide (x86_64 target of the harness)",
        "the model-level correspondence runs in a build with the `zarr` feature (serde_json features preserve_order and float_roundtrip unified in); the JSON text round trip is additionally run in a default-feature build of the crate (harness_nofeat) on seeded settings values with every float field replaced",
        "model dec is deliberately stricter than serde outside the image of enc: an integer token for an f64 field and the map form of a unit variant are rejected by the model, accepted by serde_json (documented in model/Serde.v); the round-trip theorem does not depend on it",
        "Zarr: the synchronous backend on a MemoryStore is exercised end to end; the asynchronous backend is only checked to contain the same `sampler_settings` <- serde_json::to_value(settings) statement (source pattern)",
    ]
}
RULE = {
    "C19": "per preset (6): the Default value; seeded `wild` values (every leaf drawn from extreme finite floats - smallest/largest subnormal, f64::MAX, 1e308, -0.0, 0.1, 1/3, integral floats, random finite bit patterns - and extreme integers 0, 1, 2^53+1, 2^63, u64::MAX, random; enum variants and None/Some cycled by hints so that every variant and both Option states occur); seeded `run` values in ranges where a chain can be built (num_tune<=10, num_draws<=5, maxdepth<=4) for the bitwise chain comparison, some of them also through the real Sampler + Zarr MemoryStore; one non-finite case (informational); 11 decoder probes derived from the Default text.  Compared: model enc tokens vs to_value (tree) and vs to_string (member order, number tokens); model dec(enc v) = v; model dec vs from_str on the probes.  non-trivial = distinct (preset, field values).",
}
