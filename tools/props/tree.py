"""C01 / C03: NUTS tree building.  Theorems over model/Tree.v; correspondence of the model's
deterministic interpretation with the crate's nuts::draw on scripted orbits (harness `orbit`)."""
import json
import math
import random
import struct
from fractions import Fraction

from vlib import *  # noqa

AX = STDLIB_AXIOMS


def bits2f(b):
    return struct.unpack("<d", struct.pack("<Q", int(b)))[0]


def qlit(fr):
    fr = Fraction(fr)
    return "(%d # %d)" % (fr.numerator, fr.denominator)


def fq(bits):
    x = bits2f(bits)
    if x != x or x in (float("inf"), float("-inf")):
        return Fraction(0)
    return Fraction(x)


def dyadic(r, lo=-3.0, hi=3.0, denom=64):
    return round((lo + (hi - lo) * r.random()) * denom) / denom


def gen_cases(ctx, n, faults=False):
    r = ctx.rnd()
    cases = []
    for cid in range(n):
        dim = r.choice([1, 1, 2, 2, 3, 4, 6])
        kind = r.choice(["euclidean", "euclidean", "exact_normal"])
        c = {"id": cid, "dim": dim, "kind": kind,
             "prec": [r.choice([0.25, 0.5, 1.0, 2.0, 4.0, 9.0]) for _ in range(dim)],
             "mu": [dyadic(r, -1, 1, 8) for _ in range(dim)],
             "stds": [r.choice([0.5, 1.0, 2.0, 1.5]) for _ in range(dim)],
             "mean": [dyadic(r, -1, 1, 8) for _ in range(dim)],
             "init": [dyadic(r, -2, 2) for _ in range(dim)],
             "momentum": [dyadic(r, -2, 2) or 0.5 for _ in range(dim)],
             "step_size": r.choice([0.03125, 0.0625, 0.125, 0.125, 0.25, 0.3, 0.5, 0.7, 1.0, 1.3]),
             "maxdepth": r.choice([0, 1, 2, 3, 4, 5, 5, 6, 6]) if r.random() < 0.8 else r.randint(0, 7),
             "seed": r.randint(0, 2 ** 32),
             "words": [str(r.getrandbits(64)) for _ in range(300)],
             "ndraws": r.choice([1, 1, 2])}
        if r.random() < 0.3:
            c["quartic"] = r.choice([0.25, 1.0])
        if r.random() < 0.25:
            c["mindepth"] = r.randint(0, 3)
        if r.random() < 0.15:
            c["extra_doublings"] = r.randint(1, 2)
            c["maxdepth"] = min(c["maxdepth"], 4)
        if r.random() < 0.1:
            c["check_turning"] = False
            c["maxdepth"] = min(c["maxdepth"], 5)
        if r.random() < 0.2:
            # target_integration_time: max_steps = ceil(t / step) both below and far above 2^maxdepth
            c["target_integration_time"] = r.choice([0.1, 0.5, 1.0, 2.0, 3.0, 5.0, 10.0, 40.0])
            c["maxdepth"] = min(c["maxdepth"], 5)
        if r.random() < 0.3 and dim >= 2:
            # low-rank factor from a signed permutation (orthonormal columns, exact)
            rank = r.randint(0, dim)
            cols = r.sample(range(dim), rank)
            vecs = []
            for j in cols:
                v = [0.0] * dim
                v[j] = r.choice([1.0, -1.0])
                vecs.append(v)
            c["lowrank"] = {"vals": [r.choice([0.25, 4.0, 9.0, 0.0625]) for _ in range(rank)], "vecs": vecs,
                            "mu": [dyadic(r, -1, 1, 8) for _ in range(dim)]}
        if r.random() < 0.25:
            c["max_energy_error"] = r.choice([0.05, 0.2, 1.0])
        if faults and r.random() < 0.7:
            k = r.randint(1, 40)
            c["faults"] = [[k, r.choice(["rec", "nan_logp", "inf_logp", "neginf_logp", "nan_grad", "inf_grad", "huge_energy", "unrec"])]]
        cases.append(c)
    # mirror rebuilds (oracle_mirror): decided by a separate stream so that the cases above do not
    # depend on it
    rm = random.Random("%d-mirror" % ctx.seed)
    for c in cases:
        if mirror_eligible(c) and rm.random() < 0.8:
            c["mirror"] = True
    return cases


def mirror_eligible(c):
    """the situation C01 speaks about: default tree options, no scripted density fault"""
    return (not c.get("faults") and c.get("extra_doublings", 0) == 0 and c.get("check_turning", True)
            and c.get("target_integration_time") is None and c.get("mindepth", 0) == 0
            and c["kind"] in ("euclidean", "exact_normal") and c["dim"] >= 1)


def gen_mirror_cases(ctx, n, first_id):
    """Cases made for the mirror rebuild: many trajectories per case (one scripted momentum per
    draw), generic (non-dyadic) numbers, step sizes and depth limits that give trees of depth 2-7
    which end by a U-turn, by a rejected doubling and by the depth limit.  Only the first two draws
    of such a case go through the model correspondence; all of them are judged by oracle_mirror."""
    r = random.Random("%d-mirror-cases" % ctx.seed)
    cases = []
    for k in range(n):
        dim = r.choice([1, 2, 2, 3, 3, 4, 6])
        nd = 10
        c = {"id": first_id + k, "dim": dim, "kind": r.choice(["euclidean", "euclidean", "exact_normal"]),
             "prec": [r.choice([0.1, 0.25, 0.5, 1.0, 2.0, 4.0, 9.0, 11.0]) for _ in range(dim)],
             "mu": [round(r.uniform(-1, 1), 3) for _ in range(dim)],
             "stds": [r.choice([0.5, 1.0, 2.0, 1.5, 0.3, 3.0]) for _ in range(dim)],
             "mean": [round(r.uniform(-1, 1), 3) for _ in range(dim)],
             "init": [r.gauss(0, 1.5) for _ in range(dim)],
             "momentum": [r.gauss(0, 1) for _ in range(dim)],
             "momenta": [[r.gauss(0, 1) for _ in range(dim)] for _ in range(nd)],
             "step_size": r.choice([0.03, 0.06, 0.1, 0.15, 0.2, 0.3, 0.4, 0.5, 0.7, 1.0]),
             "maxdepth": r.choice([2, 3, 3, 4, 4, 5, 6, 7, 8]),
             "seed": r.randint(0, 2 ** 32),
             "words": [str(r.getrandbits(64)) for _ in range(400)],
             "ndraws": nd, "mirror": True, "tie_draws": 2}
        if r.random() < 0.4:
            c["quartic"] = r.choice([0.05, 0.25, 1.0])
        if r.random() < 0.3 and dim >= 2:
            rank = r.randint(1, dim)
            cols = r.sample(range(dim), rank)
            vecs = []
            for j in cols:
                v = [0.0] * dim
                v[j] = r.choice([1.0, -1.0])
                vecs.append(v)
            c["lowrank"] = {"vals": [r.choice([0.25, 4.0, 9.0, 0.0625]) for _ in range(rank)], "vecs": vecs,
                            "mu": [round(r.uniform(-1, 1), 3) for _ in range(dim)]}
        if r.random() < 0.15:
            c["max_energy_error"] = r.choice([0.5, 2.0, 20.0])
        cases.append(c)
    return cases


def tick_indices(d):
    """Trajectory index of every leapfrog the implementation performed (the end point of a step
    that failed with a logp error carries no index: it is start +- 1 in the direction of the
    current doubling)."""
    lo = hi = 0
    first_fwd = None
    for kind, w in d["rng_calls"]:
        if kind == "u32":
            first_fwd = int(w) >= 2 ** 63
            break
    res = []
    for lf in d["leapfrogs"]:
        st_ = lf["start_idx"]
        if lf["diverged"] and lf.get("div_logp_error"):
            if lo == hi:
                idx = st_ + (1 if first_fwd else -1)
            else:
                idx = st_ + 1 if st_ == hi else st_ - 1
        else:
            idx = lf["idx"]
        if not lf["diverged"]:
            lo, hi = min(lo, idx), max(hi, idx)
        res.append(idx)
    return res


def build_model_call(c, d, missing_fatal):
    states = []
    init = d["init"]
    e0 = bits2f(init["energy"])
    visited = {0}
    prev_dir = {}
    out = []

    def st(idx, p, bad=False):
        err = bits2f(p["energy"]) - e0
        if bad or err != err:
            w = Fraction(1)
        elif err > 700:
            w = Fraction(1, 10 ** 320)
        elif err < -700:
            w = Fraction(10 ** 320)
        else:
            w = Fraction(math.exp(-err))
        return ("{| os_idx := (%d)%%Z; os_w := %s; os_q := %s; os_v := %s; os_bad := %s; os_fatal := false |}"
                % (idx, qlit(w), coq_list([qlit(fq(b)) for b in p["q"]]),
                   coq_list([qlit(fq(b)) for b in p["v"]]), coq_bool(bad)))

    out.append(st(0, init))
    for idx, lf in zip(tick_indices(d), d["leapfrogs"]):
        out.append(st(idx, lf, bad=lf["diverged"]))
    o = ("{| n_maxdepth := %d; n_mindepth := %d; n_extra := %d; n_check := %s; n_dim0 := %s |}"
         % (c.get("maxdepth", 4), c.get("mindepth", 0), c.get("extra_doublings", 0),
            coq_bool(c.get("check_turning", True)), coq_bool(c["dim"] == 0)))
    if c.get("target_integration_time") is not None:
        # max_steps as nuts::draw computes it (binary64 division, ceil); the depth bounds derived
        # from it are the model's (eff_opts)
        o = "(eff_opts %s (Some %d%%N))" % (o, max_steps_of(c))
    else:
        o = "(eff_opts %s None)" % o
    words = [w for kind, w in d["rng_calls"] if kind in ("u32", "u64")]
    # the model may want more words than the implementation used if they disagree
    words = words + ["0"] * 4
    return "run_draw_gen %s %s %s %s" % (coq_bool(missing_fatal), coq_list(out), o,
                                          coq_list(["%s%%Z" % w for w in words]))


def impl_summary(d):
    r = d["result"]
    if "state" in r:
        return {"sel": r["state"]["idx"], "depth": r["depth"], "div": r["diverging"],
                "maxdepth": r["reached_maxdepth"], "err": False}
    if "err" in r:
        return {"err": True}
    return {"panic": r.get("panic")}


def compare_draw(c, d, m):
    diffs = []
    if m == [[-1]]:
        return ["model ran out of random words"]
    head, ticks, coins = m
    s = impl_summary(d)
    nwords = len([1 for kind, _ in d["rng_calls"] if kind in ("u32", "u64")])
    impl_ticks = tick_indices(d)
    if "panic" in s:
        return ["implementation panicked: %s" % s["panic"]]
    if s.get("err"):
        if head[6] == -999999:
            diffs.append("implementation returned Err, model returns a draw (sel %d)" % head[0])
        elif ticks[:-1] != impl_ticks:
            diffs.append("leapfrog order differs before the fatal step: model %s impl %s" % (ticks, impl_ticks))
        return diffs
    if head[6] != -999999:
        return ["model: unrecoverable error at index %d; implementation returned a draw" % head[6]]
    if ticks != impl_ticks:
        diffs.append("leapfrog order differs: model %s implementation %s" % (ticks, impl_ticks))
    if head[0] != s["sel"]:
        diffs.append("selected index: model %d implementation %d" % (head[0], s["sel"]))
    if head[1] != s["depth"]:
        diffs.append("depth: model %d implementation %d" % (head[1], s["depth"]))
    if (head[4] != -999999) != s["div"]:
        diffs.append("divergence: model %s implementation %s" % (head[4], s["div"]))
    if bool(head[5]) != s["maxdepth"]:
        diffs.append("maxdepth flag: model %s implementation %s" % (bool(head[5]), s["maxdepth"]))
    if head[7] != nwords:
        diffs.append("random words consumed: model %d implementation %d" % (head[7], nwords))
    return diffs


def ambiguous(m, d=None):
    """coins within 1e-9 of 0 or 1 make the exact model and the f64 code incomparable; so do
    trajectories whose energies agree to rounding (ExactNormal on an exactly whitened normal): the
    code's `other.log_size >= self.log_size` then compares sums of equal weights and the rounding of
    logaddexp decides whether a random word is drawn at all"""
    if m == [[-1]]:
        return False
    for p in m[2]:
        if p < 1000 or p > 10 ** 12 - 1000:
            return True
    return d is not None and energy_tie(d)


def energy_tie(d):
    if d.get("init") and d.get("leapfrogs"):
        es = [bits2f(d["init"]["energy"])] + [bits2f(lf["energy"]) for lf in d["leapfrogs"] if not lf["diverged"]]
        es = [e for e in es if e == e and abs(e) != float("inf")]
        if len(es) >= 3:
            # two points with (nearly) the same energy are enough for a tie of one-state sub-trees
            srt = sorted(es)
            if min(b - a for a, b in zip(srt, srt[1:])) < 1e-12 * (1 + abs(srt[0])) and (srt[-1] - srt[0]) < 1e-9:
                return True
    return False


def max_steps_of(c):
    return int(math.ceil(c["target_integration_time"] / c["step_size"]))


def oracle_c03(c, o):
    """Implementation-side audit of the statement of C03 on one case."""
    bad = []
    maxdepth = c.get("maxdepth", 4)
    extra = c.get("extra_doublings", 0)
    prev_x = None
    for k, d in enumerate(o["draws"]):
        r = d["result"]
        if "state" not in r:
            if "panic" in r:
                bad.append("draw %d panicked: %s" % (k, r["panic"]))
            continue
        init = d["init"]
        if prev_x is not None and init["x"] != prev_x:
            bad.append("draw %d does not start from the previous draw" % k)
        st_ = r["state"]
        prev_x = st_["x"]
        depth = r["depth"]
        steps = len(d["leapfrogs"])
        idx = st_["idx"]
        good = [lf for lf in d["leapfrogs"] if not lf["diverged"]]
        if extra == 0:
            if depth > maxdepth:
                bad.append("draw %d: depth %d > maxdepth %d" % (k, depth, maxdepth))
            if not (2 ** depth - 1 <= steps <= 2 ** (depth + 1) - 1):
                bad.append("draw %d: %d steps for depth %d" % (k, steps, depth))
            if c["dim"] > 0 and maxdepth >= 1 and steps < 1:
                bad.append("draw %d: no integration step although maxdepth >= 1" % k)
            # the tree the draw is selected from consists of the start and the first 2^depth - 1
            # leapfrog ends; everything integrated later belongs to the doubling that was rejected
            accepted = {0} | {lf["idx"] for lf in d["leapfrogs"][:2 ** depth - 1]}
            if idx not in accepted:
                bad.append("draw %d: returned index %d is not a state of the accepted tree of depth %d (it lies in the sub-trajectory that was rejected)" % (k, idx, depth))
        if abs(idx) > 2 ** depth - 1:
            bad.append("draw %d: |index| %d > 2^depth-1 (depth %d)" % (k, abs(idx), depth))
        moved = st_["x"] != init["x"]
        if (idx == 0) != (not moved) and not (idx != 0 and not moved):
            bad.append("draw %d: index %d but moved=%s" % (k, idx, moved))
        # the draw is the start or a logged, non-divergent leapfrog end with identical numbers
        if idx == 0:
            ref = init
        else:
            cands = [lf for lf in good if lf["idx"] == idx]
            ref = cands[0] if cands else None
            if ref is None:
                bad.append("draw %d: returned index %d was never reached by the integrator" % (k, idx))
        # the energies reported for the trajectory's states are those of these states: kinetic
        # energy of the stored velocity, energy = kinetic - (logp + logdet), errors measured from
        # the start of this trajectory (same oracles as C02 applies to every integrator step)
        import leapfrog as _lf
        for p_ in [init, st_] + good[:8]:
            eb = _lf.oracle_point(c, p_, 0, init)
            if eb:
                bad.append("draw %d: state with index %s: %s" % (k, p_.get("idx"), eb[0]))
                break
        if ref is not None:
            for key in ("x", "q", "g", "logp", "energy"):
                if ref[key] != st_[key]:
                    bad.append("draw %d: %s of the returned state differs from the state reached at index %d" % (k, key, idx))
                    break
        # the draw lies within the accepted tree: |tree| = 2^depth contiguous indices around 0
        lo = min([0] + [lf["idx"] for lf in good])
        hi = max([0] + [lf["idx"] for lf in good])
        # the depth limit in force: with target_integration_time it is the derived bound (<= maxdepth)
        limit = maxdepth
        if c.get("target_integration_time") is not None:
            n = max_steps_of(c)
            fl, ce = n.bit_length() - 1, (n - 1).bit_length()
            limit = min(max(ce, max(fl, c.get("mindepth", 0)), 1), maxdepth)
        if r["reached_maxdepth"] and (depth != limit or r["diverging"]):
            bad.append("draw %d: maxdepth flag with depth %d (depth limit %d) diverging=%s" % (k, depth, limit, r["diverging"]))
        if (not r["reached_maxdepth"]) and depth == maxdepth and not r["diverging"] and extra == 0 and c.get("check_turning", True) and c["dim"] > 0:
            # stopped at maxdepth without the flag: a U-turn of the whole tree at the last level
            pass
    return bad


def turning_terms(S, a, b):
    """the two scalar products `is_turning` tests for the states with indices a < b
    (TransformedHamiltonian::is_turning: (q_b - q_a).v_a and (q_b - q_a).v_b; turning iff one of them
    is < 0), each with the magnitudes its rounding / reproduction error scales with:
    (value, sum (|q_a|+|q_b|)|v|, sum |v|, sum |q_b - q_a|)"""
    (qa, va), (qb, vb) = S[a], S[b]
    dq = [y - x for x, y in zip(qa, qb)]
    l1 = sum(abs(x) for x in dq)
    res = []
    for v in (va, vb):
        res.append((sum(x * y for x, y in zip(dq, v)),
                    sum((abs(x) + abs(y)) * abs(w) for x, y, w in zip(qa, qb, v)),
                    sum(abs(w) for w in v), l1))
    return res


def mirror_blocks(S, lo, depth):
    """every U-turn test the tree builder can make inside the aligned blocks of [lo, lo + 2^depth):
    for a block of size 2^j >= 2 the test of its two ends and, for j >= 2, the two tests across its
    halves (right ends of both halves, left ends of both halves: NutsTree::extend)"""
    terms = []
    for j in range(1, depth + 1):
        size = 2 ** j
        for a in range(lo, lo + 2 ** depth, size):
            b = a + size - 1
            pairs = [(a, b)]
            if j >= 2:
                mid = a + size // 2
                pairs += [(mid - 1, b), (a, mid)]
            for (x, y) in pairs:
                for t in turning_terms(S, x, y):
                    terms.append((j, x, y) + t)
    return terms


def oracle_mirror(c, k, d):
    """Implementation-side oracle of C01 (mirror rebuild), one draw.

    Which draws are judged, and why.  Let the draw from state 0 end, without divergence, with the
    accepted tree [lo, hi] of depth d >= 1 (start + the first 2^d - 1 leapfrog ends; whatever was
    integrated after them is a doubling that was rejected).  Every doubling that was ACCEPTED on the
    way had (i) no U-turn inside its new half (all aligned sub-blocks of the new half, the new half
    itself included) and (ii) for all but the last one no U-turn of the merged block; hence no
    aligned block of [lo, hi] of size 2 .. 2^(d-1) turns, and only the block [lo, hi] itself may.
    All these tests are functions of the two end states of aligned blocks (is_turning looks at two
    states only), so the builder started from any state s of [lo, hi] with the mirrored directions
    meets exactly the same tests: it must accept d doublings, cover [lo - s, hi - s] and nothing
    else, and - run with maxdepth = d - end with the flag reached_maxdepth iff [lo, hi] itself does
    not turn.  This holds whatever made the original stop: a U-turn of [lo, hi] (then no flag in
    the rebuild), a rejected next doubling or the original's own depth limit (then [lo, hi] does not
    turn and the rebuild stops at its limit d with the flag).  So draws stopped by maxdepth ARE
    judged.  Not judged: draws with a divergence, an error, depth 0, non-default tree options
    (mindepth, extra doublings, no U-turn check, target integration time) or scripted faults;
    draws whose energies tie to rounding (the rule of `ambiguous`).  A single rebuild is not judged
    when (a) some state of [lo, hi] has an energy above that of s by max_energy_error (seen from s
    that is a divergence: the energy error is relative to the start), (b) the rebuild does not
    reproduce the orbit states to 1e-7 (backward integration amplifies rounding on unstable
    orbits; reversibility of the integrator is C02), or (c) any U-turn scalar product of an
    aligned block is, relative to its magnitude, within 1e-9 of zero (plus the observed
    reproduction error): the rebuild integrates the same orbit in another order, its states agree
    with the original's to rounding only, so the sign of such a product may legitimately differ."""
    st = {"draws": 0, "rebuilds": 0, "skip_energy_tie": 0, "skip_divergent_from_s": 0, "skip_not_reproduced": 0,
          "skip_near_uturn": 0, "convention_bad": 0}
    bad = []
    r = d.get("result", {})
    mj = d.get("mirror")
    if "state" not in r or r["diverging"] or r["depth"] < 1 or not mirror_eligible(c):
        return bad, st
    if mj is None or "rebuilds" not in mj:
        if mj is not None and r["depth"] <= 12:
            bad.append("draw %d: harness produced no rebuilds: %s" % (k, json.dumps(mj)[:200]))
        return bad, st
    if energy_tie(d):
        st["skip_energy_tie"] += 1
        return bad, st
    depth = r["depth"]
    acc = [d["init"]] + d["leapfrogs"][:2 ** depth - 1]
    if len(acc) != 2 ** depth or any(lf.get("diverged") for lf in acc[1:]):
        return ["draw %d: depth %d with only %d leapfrogs" % (k, depth, len(d["leapfrogs"]))], st
    idxs = [0] + [lf["idx"] for lf in acc[1:]]
    lo, hi = min(idxs), max(idxs)
    if sorted(idxs) != list(range(lo, hi + 1)) or (lo, hi) != (mj["lo"], mj["hi"]):
        return ["draw %d: accepted states %s are not the interval the harness rebuilt [%d, %d]" % (k, sorted(idxs), mj["lo"], mj["hi"])], st
    S = {i: ([bits2f(b) for b in p["q"]], [bits2f(b) for b in p["v"]]) for i, p in zip(idxs, acc)}
    E = {i: bits2f(p["energy"]) for i, p in zip(idxs, acc)}
    terms = mirror_blocks(S, lo, depth)
    qmax = max(abs(x) for q, _ in S.values() for x in q)
    vmax = max(abs(x) for _, v in S.values() for x in v)
    emax = max(E.values())
    mee = c.get("max_energy_error", 1000.0)
    # flag the rebuild must end with: [lo, hi] did not turn iff the original went on (a rejected
    # doubling was integrated) or stopped at its own depth limit
    want_flag = bool(r["reached_maxdepth"]) or len(d["leapfrogs"]) > 2 ** depth - 1
    orig_dirs = [int(w) >= 2 ** 63 for kind, w in d["rng_calls"] if kind == "u32"][:depth]
    st["draws"] += 1
    for rb in mj["rebuilds"]:
        s = rb["s"]
        if s == 0 and rb["dirs"] != orig_dirs:
            st["convention_bad"] += 1
        if not (emax - E[s] < mee * (1 - 1e-9) - 1e-9):
            st["skip_divergent_from_s"] += 1
            continue
        dq, dv = rb.get("dq"), rb.get("dv")
        if dq is None or dv is None or not (dq <= 1e-7 * (1 + qmax) and dv <= 1e-7 * (1 + vmax)):
            st["skip_not_reproduced"] += 1
            continue
        near = None
        for (j, x, y, t, scale, sv, sdq) in terms:
            if abs(t) <= 1e-9 * scale + 4 * (2 * dq * sv + dv * sdq) + 1e-300:
                near = (j, x, y, t)
                break
        if near:
            st["skip_near_uturn"] += 1
            continue
        st["rebuilds"] += 1
        why = []
        if "panic" in rb or "err" in rb:
            why.append("it ended with %s" % (rb.get("panic") or rb.get("err"))[:120])
        else:
            if rb["diverging"]:
                why.append("it reports a divergence")
            if rb["depth"] != depth:
                why.append("it stops at depth %d instead of %d" % (rb["depth"], depth))
            if (rb["min"], rb["max"]) != (lo - s, hi - s) or rb["outside"]:
                why.append("it covers [%d, %d] instead of [%d, %d]" % (rb["min"], rb["max"], lo - s, hi - s))
            if not why and rb["reached_maxdepth"] != want_flag:
                why.append("it ends %s the depth-limit flag (maxdepth = %d) although the original %s" % (
                    "with" if rb["reached_maxdepth"] else "by a U-turn, without", depth,
                    "did not stop for a U-turn of [lo..hi]" if want_flag else "stopped for a U-turn of [lo..hi]"))
        if why:
            bad.append("draw %d: [lo..hi] = [%d..%d] (depth %d), s = %d, mirrored directions %s (true = forward): %s"
                       % (k, lo, hi, depth, s, rb["dirs"], "; ".join(why)))
    return bad, st


def pool_check(ctx, stats):
    """state pool: random handle-operation sequences against the real StatePool and model/Pool.v"""
    ok, out = build_harness(["pool"])
    ctx.oblig("harness-build-pool", ok, out[-2000:])
    if not ok:
        return
    r = ctx.rnd()
    cases = []
    for cid in range(150 if ctx.tier == "quick" else 1500):
        ops = []
        nh = 0
        for _ in range(r.randint(3, 40)):
            k = r.random()
            if nh == 0 or k < 0.3:
                ops.append(["new"])
                nh += 1
            elif k < 0.5:
                ops.append(["clone", r.randrange(nh)])
                nh += 1
            elif k < 0.8:
                ops.append(["drop", r.randrange(nh)])
            else:
                ops.append(["write", r.randrange(nh), r.randint(1, 99)])
        cases.append({"id": cid, "ops": ops})
    outs, errs = run_harness_parallel("pool", cases)
    ctx.oblig("harness-run-pool", not errs and len(outs) == len(cases), "\n".join(errs)[:1500])

    def opx(o):
        if o[0] == "new":
            return "ONew"
        if o[0] == "clone":
            return "OClone %d" % o[1]
        if o[0] == "drop":
            return "ODrop %d" % o[1]
        return "OWrite %d %d" % (o[1], o[2])
    exprs = ["run_codes %s" % coq_list([opx(o) for o in c["ops"]]) for c in cases]
    prelude = "From NutsV Require Import model.Pool.\nFrom Coq Require Import List.\nImport ListNotations.\n"
    vals, err = coq_eval_shards("C03_pool", prelude, exprs, shard_size=max(1, len(exprs) // 16 + 1))
    ctx.oblig("model-eval-pool", err is None, err or "")
    if err:
        return
    nd = 0
    for c, m in zip(cases, vals):
        o = outs.get(c["id"])
        if not o:
            continue
        ctx.evaluations += 1
        codes, snap = m
        free, rest = snap[0], snap[1:]
        diffs = []
        if "panic" in o:
            violation(ctx, "implementation violates C03: state pool operation panicked: %s" % o["panic"][:200], {"case": c}, found_input=True)
            continue
        if codes != o["codes"]:
            diffs.append("operation results: model %s implementation %s" % (codes, o["codes"]))
        if len(free) != o["free_len"]:
            diffs.append("free list length: model %d implementation %d" % (len(free), o["free_len"]))
        if rest != o["snapshot"]:
            diffs.append("live handles (handle, cell, strong count, value): model %s implementation %s" % (rest, o["snapshot"]))
        # statement: a successful write through one handle is visible only through handles of the same cell
        if diffs:
            nd += 1
            if nd <= 3:
                violation(ctx, "model/implementation correspondence broken (state pool): %s" % diffs[0],
                          {"case": c, "differences": diffs, "correspondence": "model/Pool.v vs dynamics::StatePool"}, found_input=False)
    ctx.oblig("correspondence-pool", nd == 0, "%d sequences differ" % nd)
    stats["pool_sequences"] = len(cases)


PRELUDE = ("From NutsV Require Import model.Tree.\nFrom Coq Require Import ZArith QArith List.\n"
           "Import ListNotations.\nOpen Scope Z_scope.\n")


def chain_audit(ctx, stats):
    """Chain-level clause of C03 through the public API (Chain::expanded_draw of the real presets,
    harness bin `schema`): the statistics reported with a draw describe the RETURNED position, and the
    next trajectory starts from it - also when the trajectory ended with a divergence of either kind
    (recoverable density error / energy error) or a NaN log-density, after the tree had moved."""
    r = ctx.rnd()
    quick = ctx.tier == "quick"
    ok, out = build_harness(["schema"])
    ctx.oblig("harness-build-chain", ok, out[-2000:])
    if not ok:
        return
    cases = []
    for cid in range(72 if quick else 600):
        preset = r.choice(["diag_nuts", "diag_nuts", "lowrank_nuts", "diag_mclmc", "lowrank_mclmc"])
        dim = r.choice([1, 2, 2, 5])
        c = {"id": cid, "preset": preset, "dim": dim, "seed": r.randint(0, 2 ** 32), "chain": r.choice([0, 1, 5]),
             "num_tune": r.choice([10, 20, 40]), "num_draws": r.choice([10, 25]),
             "store_gradient": True, "store_unconstrained": True, "store_divergences": True,
             "store_transformed": r.random() < 0.3, "store_mass_matrix": r.random() < 0.3,
             "maxdepth": r.choice([2, 3, 4, 6]), "prec": [r.choice([0.25, 1.0, 4.0]) for _ in range(dim)],
             "early_switch_freq": r.choice([2, 3, 4]), "switch_freq": r.choice([3, 4, 6]), "update_freq": 1,
             "use_grad_based_estimate": r.random() < 0.5}
        kind = r.choice(["rec", "rec", "huge_energy", "nan_logp", "none"])
        if kind != "none":
            c["region_fault"] = [r.choice([1.0, 1.5, 2.0, 2.5]), kind]
        if preset.endswith("mclmc"):
            c["dynamic_step_size"] = r.random() < 0.5
            c["fixed_step"] = r.choice([0.25, 0.5])
        cases.append(c)
    outs, errs = run_harness_parallel("schema", cases)
    ctx.oblig("harness-run-chain", not errs and len(outs) == len(cases), "\n".join(errs)[:1500])
    nb = 0
    cs = {"chains": 0, "draws": 0, "divergent_after_moving": 0, "unmoved": 0, "index_checked": 0}
    for c in cases:
        o = outs.get(c["id"])
        if not o or o.get("set_position") != "ok":
            continue
        cs["chains"] += 1
        prev = None
        bad = None
        for d in o["draws"]:
            if "row" not in d:
                break
            cs["draws"] += 1
            ctx.evaluations += 1
            ds = d.get("described", {})
            pos = d["pos"]
            if "unconstrained_draw" in ds and ds["unconstrained_draw"] != pos:
                bad = "draw %d: statistic unconstrained_draw is not the returned position" % d["draw"]
            elif "gradient" in ds and ds["gradient"] != d["ref_grad"]:
                bad = "draw %d: statistic gradient is not the gradient of the density at the returned position" % d["draw"]
            elif "logp" in ds and ds["logp"][0] != d["ref_logp"]:
                bad = "draw %d: statistic logp is not the log-density of the returned position" % d["draw"]
            elif "index_in_trajectory" in ds and prev is not None:
                cs["index_checked"] += 1
                moved = pos != prev
                if (int(ds["index_in_trajectory"][0]) == 0) == moved:
                    bad = "draw %d: index_in_trajectory %s although the chain %s" % (d["draw"], ds["index_in_trajectory"][0], "moved" if moved else "did not move")
            if prev is not None and pos == prev:
                cs["unmoved"] += 1
            if d.get("diverging") and prev is not None and pos != prev:
                cs["divergent_after_moving"] += 1
            if bad:
                break
            prev = pos
        if bad:
            nb += 1
            if nb <= 3:
                violation(ctx, "implementation violates C03 (%s, %s): %s" % (c["preset"], c.get("region_fault", "no faults"), bad), {"case": c}, found_input=True)
    ctx.oblig("impl-audit-chain-statistics", nb == 0, "%d chains" % nb)
    ctx.oblig("coverage-chain-audit", cs["divergent_after_moving"] > 0 and cs["index_checked"] > 0, json.dumps(cs))
    stats["chain_audit"] = cs


def run(ctx):
    prop = ctx.prop
    n_cases = 160 if ctx.tier == "quick" else 1500
    audit_forbidden(ctx)
    check_property_file(ctx, prop, allow_axioms=AX)
    ok, out = build_harness(["orbit"])
    ctx.oblig("harness-build", ok, out[-3000:])
    if not ok:
        return
    cases = gen_cases(ctx, n_cases, faults=(prop != "C01"))
    cases += gen_mirror_cases(ctx, (120 if prop == "C01" else 60) if ctx.tier == "quick" else (1200 if prop == "C01" else 500), len(cases))
    outs, errs = run_harness_parallel("orbit", cases)
    ctx.oblig("harness-run", not errs and len(outs) == len(cases), "\n".join(errs)[:2000])
    # implementation-side oracle of C01: mirror rebuilds (independent of the model evaluation)
    mstats, nmb = {}, 0
    for c in cases:
        o = outs.get(c["id"])
        if not c.get("mirror") or not o or o.get("init_state") != "ok":
            continue
        for k, d in enumerate(o["draws"]):
            bad, st = oracle_mirror(c, k, d)
            for kk, vv in st.items():
                mstats[kk] = mstats.get(kk, 0) + vv
            if st["draws"]:
                dk = "depth_%d" % d["result"]["depth"]
                mstats[dk] = mstats.get(dk, 0) + 1
                ctx.evaluations += st["rebuilds"]
            if bad:
                nmb += 1
                if nmb <= 4:
                    cc = dict(c)
                    cc["words"] = cc["words"][:40]
                    violation(ctx, "implementation violates C01: the trajectory [lo..hi] built from state 0 is not rebuilt "
                              "from its state s with mirrored directions: %s" % bad[0],
                              {"case": cc, "draw": k, "failures": bad[:20], "original": {kk: d["result"].get(kk) for kk in ("depth", "reached_maxdepth", "diverging")},
                               "leapfrog_indices": [lf["idx"] for lf in d["leapfrogs"]], "mirror": d.get("mirror")},
                              found_input=True)
    ctx.oblig("impl-audit-mirror", nmb == 0, "%d draws are not rebuilt from one of their states" % nmb)
    # the directions the harness scripted are the model's `mirror_dirs` (the list theorem
    # C01_mirror_rebuild speaks about), on a seeded sample of rebuilds
    dsample = []
    for c in cases:
        o = outs.get(c["id"]) if c.get("mirror") else None
        for d in (o or {}).get("draws", []):
            mj = d.get("mirror") or {}
            for rb in mj.get("rebuilds", []):
                dsample.append((mj["lo"], d["result"]["depth"], rb["s"], rb["dirs"]))
    random.Random("%d-mirror-dirs" % ctx.seed).shuffle(dsample)
    dsample = dsample[:600 if ctx.tier == "quick" else 6000]
    dvals, derr = coq_eval_shards(prop + "_mirror_dirs", PRELUDE,
                                  ["mirror_dirs (%d)%%Z %d (%d)%%Z" % (lo, dep, s_) for lo, dep, s_, _ in dsample],
                                  shard_size=max(1, len(dsample) // 8 + 1)) if dsample else ([], None)
    ndd = 0 if derr else sum(1 for (lo, dep, s_, dirs), v in zip(dsample, dvals) if [bool(x) for x in v] != dirs)
    ctx.oblig("mirror-dirs-model", derr is None and ndd == 0 and len(dvals) == len(dsample),
              derr or "%d of %d scripted direction lists differ from model.Tree.mirror_dirs" % (ndd, len(dsample)))
    ctx.oblig("mirror-convention", mstats.get("convention_bad", 0) == 0 and mstats.get("rebuilds", 0) > 0,
              "rebuilds judged: %d; rebuilds from s = 0 whose mirrored directions differ from the original's: %d"
              % (mstats.get("rebuilds", 0), mstats.get("convention_bad", 0)))
    exprs, meta = [], []
    for c in cases:
        o = outs.get(c["id"])
        if not o or o.get("init_state") != "ok":
            continue
        unrec = any(f[1] == "unrec" for f in c.get("faults", []))
        for k, d in enumerate(o["draws"]):
            if d.get("init") is None or k >= c.get("tie_draws", 10 ** 9):
                continue
            exprs.append(build_model_call(c, d, unrec))
            meta.append((c, k, d))
    vals, err = coq_eval_shards(prop + "_tree", PRELUDE, exprs, shard_size=max(1, len(exprs) // 16 + 1))
    ctx.oblig("model-eval", err is None, err or "")
    if err:
        return
    ndiff = 0
    namb = 0
    stats = {"draws": 0, "depth_hist": {}, "diverging": 0, "errors": 0, "maxdepth": 0, "coins": 0,
             "kinds": {}, "lowrank": 0, "ambiguous_skipped": 0}
    for (c, k, d), m in zip(meta, vals):
        ctx.evaluations += 1
        stats["draws"] += 1
        s = impl_summary(d)
        if "depth" in s:
            stats["depth_hist"][str(s["depth"])] = stats["depth_hist"].get(str(s["depth"]), 0) + 1
            stats["diverging"] += int(s["div"])
            stats["maxdepth"] += int(s["maxdepth"])
            if s["depth"] >= 1:
                ctx.nontrivial.add((c["id"], k))
        if s.get("err"):
            stats["errors"] += 1
        stats["kinds"][c["kind"]] = stats["kinds"].get(c["kind"], 0) + 1
        stats["lowrank"] += int("lowrank" in c)
        if m != [[-1]]:
            stats["coins"] += len(m[2])
        if ambiguous(m, d):
            namb += 1
            continue
        diffs = compare_draw(c, d, m)
        if len(ctx.samples) < 3 and "depth" in s and s["depth"] >= 2:
            ctx.samples.append({"case": {kk: vv for kk, vv in c.items() if kk != "words"}, "draw": k,
                                "implementation": s, "model": m[:2]})
        if diffs:
            ndiff += 1
            cc = dict(c)
            cc["words"] = cc["words"][:40]
            violation(ctx, "model/implementation correspondence broken (tree): %s" % diffs[0],
                      {"case": cc, "draw": k, "differences": diffs,
                       "correspondence": "model/Tree.v run_draw vs harness orbit (nuts::draw)"},
                      found_input=False)
    stats["ambiguous_skipped"] = namb
    ctx.oblig("correspondence-tree", ndiff == 0, "%d draws differ" % ndiff)
    if prop == "C03":
        nb = 0
        for c in cases:
            o = outs.get(c["id"])
            if not o or o.get("init_state") != "ok":
                continue
            bad = oracle_c03(c, o)
            if bad:
                nb += 1
                cc = dict(c)
                cc["words"] = cc["words"][:40]
                violation(ctx, "implementation violates C03: %s" % bad[0], {"case": cc, "failures": bad}, found_input=True)
        ctx.oblig("impl-audit-C03", nb == 0, "%d cases" % nb)
    if prop == "C03":
        pool_check(ctx, stats)
        chain_audit(ctx, stats)
    ctx.notes["input_distribution"] = stats
    ctx.notes["mirror_rebuilds"] = mstats


_TB = [
    "Coq 8.16.1 kernel, vm_compute for model evaluation; all C01/C03 theorems are closed under the global context (no axioms)",
    "hand-written model coq/model/Tree.v of NutsTree::{extend, merge_into, single_step} and nuts::draw over an abstract orbit (weights, U-turn predicate, divergence/error predicates); tied to /repo by the correspondence: the model's scripted interpretation is run on the orbit logged from the real nuts::draw (same random words) and must reproduce the order of leapfrogs, the number of random words consumed, the selected index, depth, divergence and maxdepth flags",
    "weights handed to the model are exp(-energy error) of the logged f64 energies (python libm); draws with a coin probability within 1e-9 of 0 or 1 are skipped as ambiguous and counted",
    "harness/src/bin/orbit.rs (scripted RNG as rand 0.10 defines bool / random_bool, delegating Math with scripted momentum), hook nuts_rs::verif::nuts_draw and point accessors",
    "not in the theorem: continuous-state invariance (measure theory); it is the orbit-wise statement over exact arithmetic",
    "mirror rebuild (implementation-side oracle of C01, obligation impl-audit-mirror): harness mode `mirror` of orbit.rs re-runs nuts::draw from a pool copy of a state s of the accepted tree (same position, gradient, velocity: the velocity is scripted through the Gaussian draw of initialize_trajectory) with maxdepth = depth and the directions model.Tree.mirror_dirs (rngs.rs DirRng: u32 words = directions, u64 words = seeded coins); judged in Python from the logged states: U-turn scalar products of all aligned blocks are recomputed from the logged transformed positions / velocities and a rebuild is skipped when one of them is within 1e-9 (relative) of zero, when the rebuild does not reproduce the orbit to 1e-7, or when a state of the tree lies max_energy_error above the energy of s",
]
TRUSTED = {"C01": _TB, "C03": _TB}
ASSUMPTIONS = {
    "C01": ["the orbit seen from another of its states is the same orbit re-indexed (reversibility of the integrator, C02)",
            "default tree options (mindepth 0, extra_doublings 0, check_turning) and no divergence inside the trajectory, as the property states"],
    "C03": ["statistics of the returned state are compared bitwise with the state logged when the integrator reached that index"],
}
RULE = {
    "C01": "seeded random orbits: dimension 1-6, Gaussian/quartic potentials, diagonal and low-rank transformations, Euclidean and ExactNormal, maxdepth 0-7, mindepth, extra doublings, scripted random words; non-trivial = a draw of depth >= 1; distinct by (case, draw); plus mirror rebuilds: 80% of the fault-free default-option cases and 120 (thorough 1200) dedicated cases of 10 trajectories each (generic numbers, depth limits 2-8) are rebuilt from every state of the accepted tree (a seeded sample of 10 states incl. both ends when the tree has more than 16) with mirrored directions; each rebuild must give the same interval, depth and stopping reason",
    "C03": "same stream as C01 plus density faults of every kind at a random evaluation; additionally an implementation-side audit of every draw against the statement (depth/steps/index relations, draw equals a reached state bitwise, next trajectory starts from it); chain-level audit through the public API (5 presets, region faults of three kinds): unconstrained_draw / gradient / logp statistics are those of the returned position bit for bit, index_in_trajectory = 0 iff the position did not change",
}
