"""C01 / C03: NUTS tree building.  Theorems over model/Tree.v; correspondence of the model's
deterministic interpretation with the crate's nuts::draw on scripted orbits (harness `orbit`)."""
import json
import math
import struct
from fractions import Fraction

from vlib import *  # noqa

AX = STDLIB_AXIOMS


def bits2f(b):
    return struct.unpack("<d", struct.pack("<Q", int(b)))[0]


def qlit(fr):
    fr = Fraction(fr)
    return "(%d # %d)" % (fr.numerator, fr.denominator)


def fq(bits):
    x = bits2f(bits)
    if x != x or x in (float("inf"), float("-inf")):
        return Fraction(0)
    return Fraction(x)


def dyadic(r, lo=-3.0, hi=3.0, denom=64):
    return round((lo + (hi - lo) * r.random()) * denom) / denom


def gen_cases(ctx, n, faults=False):
    r = ctx.rnd()
    cases = []
    for cid in range(n):
        dim = r.choice([1, 1, 2, 2, 3, 4, 6])
        kind = r.choice(["euclidean", "euclidean", "exact_normal"])
        c = {"id": cid, "dim": dim, "kind": kind,
             "prec": [r.choice([0.25, 0.5, 1.0, 2.0, 4.0, 9.0]) for _ in range(dim)],
             "mu": [dyadic(r, -1, 1, 8) for _ in range(dim)],
             "stds": [r.choice([0.5, 1.0, 2.0, 1.5]) for _ in range(dim)],
             "mean": [dyadic(r, -1, 1, 8) for _ in range(dim)],
             "init": [dyadic(r, -2, 2) for _ in range(dim)],
             "momentum": [dyadic(r, -2, 2) or 0.5 for _ in range(dim)],
             "step_size": r.choice([0.03125, 0.0625, 0.125, 0.125, 0.25, 0.3, 0.5, 0.7, 1.0, 1.3]),
             "maxdepth": r.choice([0, 1, 2, 3, 4, 5, 5, 6, 6]) if r.random() < 0.8 else r.randint(0, 7),
             "seed": r.randint(0, 2 ** 32),
             "words": [str(r.getrandbits(64)) for _ in range(300)],
             "ndraws": r.choice([1, 1, 2])}
        if r.random() < 0.3:
            c["quartic"] = r.choice([0.25, 1.0])
        if r.random() < 0.25:
            c["mindepth"] = r.randint(0, 3)
        if r.random() < 0.15:
            c["extra_doublings"] = r.randint(1, 2)
            c["maxdepth"] = min(c["maxdepth"], 4)
        if r.random() < 0.1:
            c["check_turning"] = False
            c["maxdepth"] = min(c["maxdepth"], 5)
        if r.random() < 0.2:
            # target_integration_time: max_steps = ceil(t / step) both below and far above 2^maxdepth
            c["target_integration_time"] = r.choice([0.1, 0.5, 1.0, 2.0, 3.0, 5.0, 10.0, 40.0])
            c["maxdepth"] = min(c["maxdepth"], 5)
        if r.random() < 0.3 and dim >= 2:
            # low-rank factor from a signed permutation (orthonormal columns, exact)
            rank = r.randint(0, dim)
            cols = r.sample(range(dim), rank)
            vecs = []
            for j in cols:
                v = [0.0] * dim
                v[j] = r.choice([1.0, -1.0])
                vecs.append(v)
            c["lowrank"] = {"vals": [r.choice([0.25, 4.0, 9.0, 0.0625]) for _ in range(rank)], "vecs": vecs,
                            "mu": [dyadic(r, -1, 1, 8) for _ in range(dim)]}
        if r.random() < 0.25:
            c["max_energy_error"] = r.choice([0.05, 0.2, 1.0])
        if faults and r.random() < 0.7:
            k = r.randint(1, 40)
            c["faults"] = [[k, r.choice(["rec", "nan_logp", "inf_logp", "neginf_logp", "nan_grad", "inf_grad", "huge_energy", "unrec"])]]
        cases.append(c)
    return cases


def tick_indices(d):
    """Trajectory index of every leapfrog the implementation performed (the end point of a step
    that failed with a logp error carries no index: it is start +- 1 in the direction of the
    current doubling)."""
    lo = hi = 0
    first_fwd = None
    for kind, w in d["rng_calls"]:
        if kind == "u32":
            first_fwd = int(w) >= 2 ** 63
            break
    res = []
    for lf in d["leapfrogs"]:
        st_ = lf["start_idx"]
        if lf["diverged"] and lf.get("div_logp_error"):
            if lo == hi:
                idx = st_ + (1 if first_fwd else -1)
            else:
                idx = st_ + 1 if st_ == hi else st_ - 1
        else:
            idx = lf["idx"]
        if not lf["diverged"]:
            lo, hi = min(lo, idx), max(hi, idx)
        res.append(idx)
    return res


def build_model_call(c, d, missing_fatal):
    states = []
    init = d["init"]
    e0 = bits2f(init["energy"])
    visited = {0}
    prev_dir = {}
    out = []

    def st(idx, p, bad=False):
        err = bits2f(p["energy"]) - e0
        if bad or err != err:
            w = Fraction(1)
        elif err > 700:
            w = Fraction(1, 10 ** 320)
        elif err < -700:
            w = Fraction(10 ** 320)
        else:
            w = Fraction(math.exp(-err))
        return ("{| os_idx := (%d)%%Z; os_w := %s; os_q := %s; os_v := %s; os_bad := %s; os_fatal := false |}"
                % (idx, qlit(w), coq_list([qlit(fq(b)) for b in p["q"]]),
                   coq_list([qlit(fq(b)) for b in p["v"]]), coq_bool(bad)))

    out.append(st(0, init))
    for idx, lf in zip(tick_indices(d), d["leapfrogs"]):
        out.append(st(idx, lf, bad=lf["diverged"]))
    o = ("{| n_maxdepth := %d; n_mindepth := %d; n_extra := %d; n_check := %s; n_dim0 := %s |}"
         % (c.get("maxdepth", 4), c.get("mindepth", 0), c.get("extra_doublings", 0),
            coq_bool(c.get("check_turning", True)), coq_bool(c["dim"] == 0)))
    if c.get("target_integration_time") is not None:
        # max_steps as nuts::draw computes it (binary64 division, ceil); the depth bounds derived
        # from it are the model's (eff_opts)
        o = "(eff_opts %s (Some %d%%N))" % (o, max_steps_of(c))
    else:
        o = "(eff_opts %s None)" % o
    words = [w for kind, w in d["rng_calls"] if kind in ("u32", "u64")]
    # the model may want more words than the implementation used if they disagree
    words = words + ["0"] * 4
    return "run_draw_gen %s %s %s %s" % (coq_bool(missing_fatal), coq_list(out), o,
                                          coq_list(["%s%%Z" % w for w in words]))


def impl_summary(d):
    r = d["result"]
    if "state" in r:
        return {"sel": r["state"]["idx"], "depth": r["depth"], "div": r["diverging"],
                "maxdepth": r["reached_maxdepth"], "err": False}
    if "err" in r:
        return {"err": True}
    return {"panic": r.get("panic")}


def compare_draw(c, d, m):
    diffs = []
    if m == [[-1]]:
        return ["model ran out of random words"]
    head, ticks, coins = m
    s = impl_summary(d)
    nwords = len([1 for kind, _ in d["rng_calls"] if kind in ("u32", "u64")])
    impl_ticks = tick_indices(d)
    if "panic" in s:
        return ["implementation panicked: %s" % s["panic"]]
    if s.get("err"):
        if head[6] == -999999:
            diffs.append("implementation returned Err, model returns a draw (sel %d)" % head[0])
        elif ticks[:-1] != impl_ticks:
            diffs.append("leapfrog order differs before the fatal step: model %s impl %s" % (ticks, impl_ticks))
        return diffs
    if head[6] != -999999:
        return ["model: unrecoverable error at index %d; implementation returned a draw" % head[6]]
    if ticks != impl_ticks:
        diffs.append("leapfrog order differs: model %s implementation %s" % (ticks, impl_ticks))
    if head[0] != s["sel"]:
        diffs.append("selected index: model %d implementation %d" % (head[0], s["sel"]))
    if head[1] != s["depth"]:
        diffs.append("depth: model %d implementation %d" % (head[1], s["depth"]))
    if (head[4] != -999999) != s["div"]:
        diffs.append("divergence: model %s implementation %s" % (head[4], s["div"]))
    if bool(head[5]) != s["maxdepth"]:
        diffs.append("maxdepth flag: model %s implementation %s" % (bool(head[5]), s["maxdepth"]))
    if head[7] != nwords:
        diffs.append("random words consumed: model %d implementation %d" % (head[7], nwords))
    return diffs


def ambiguous(m, d=None):
    """coins within 1e-9 of 0 or 1 make the exact model and the f64 code incomparable; so do
    trajectories whose energies agree to rounding (ExactNormal on an exactly whitened normal): the
    code's `other.log_size >= self.log_size` then compares sums of equal weights and the rounding of
    logaddexp decides whether a random word is drawn at all"""
    if m == [[-1]]:
        return False
    for p in m[2]:
        if p < 1000 or p > 10 ** 12 - 1000:
            return True
    if d is not None and d.get("init") and d.get("leapfrogs"):
        es = [bits2f(d["init"]["energy"])] + [bits2f(lf["energy"]) for lf in d["leapfrogs"] if not lf["diverged"]]
        es = [e for e in es if e == e and abs(e) != float("inf")]
        if len(es) >= 3:
            # two points with (nearly) the same energy are enough for a tie of one-state sub-trees
            srt = sorted(es)
            if min(b - a for a, b in zip(srt, srt[1:])) < 1e-12 * (1 + abs(srt[0])) and (srt[-1] - srt[0]) < 1e-9:
                return True
    return False


def max_steps_of(c):
    return int(math.ceil(c["target_integration_time"] / c["step_size"]))


def oracle_c03(c, o):
    """Implementation-side audit of the statement of C03 on one case."""
    bad = []
    maxdepth = c.get("maxdepth", 4)
    extra = c.get("extra_doublings", 0)
    prev_x = None
    for k, d in enumerate(o["draws"]):
        r = d["result"]
        if "state" not in r:
            if "panic" in r:
                bad.append("draw %d panicked: %s" % (k, r["panic"]))
            continue
        init = d["init"]
        if prev_x is not None and init["x"] != prev_x:
            bad.append("draw %d does not start from the previous draw" % k)
        st_ = r["state"]
        prev_x = st_["x"]
        depth = r["depth"]
        steps = len(d["leapfrogs"])
        idx = st_["idx"]
        good = [lf for lf in d["leapfrogs"] if not lf["diverged"]]
        if extra == 0:
            if depth > maxdepth:
                bad.append("draw %d: depth %d > maxdepth %d" % (k, depth, maxdepth))
            if not (2 ** depth - 1 <= steps <= 2 ** (depth + 1) - 1):
                bad.append("draw %d: %d steps for depth %d" % (k, steps, depth))
            if c["dim"] > 0 and maxdepth >= 1 and steps < 1:
                bad.append("draw %d: no integration step although maxdepth >= 1" % k)
            # the tree the draw is selected from consists of the start and the first 2^depth - 1
            # leapfrog ends; everything integrated later belongs to the doubling that was rejected
            accepted = {0} | {lf["idx"] for lf in d["leapfrogs"][:2 ** depth - 1]}
            if idx not in accepted:
                bad.append("draw %d: returned index %d is not a state of the accepted tree of depth %d (it lies in the sub-trajectory that was rejected)" % (k, idx, depth))
        if abs(idx) > 2 ** depth - 1:
            bad.append("draw %d: |index| %d > 2^depth-1 (depth %d)" % (k, abs(idx), depth))
        moved = st_["x"] != init["x"]
        if (idx == 0) != (not moved) and not (idx != 0 and not moved):
            bad.append("draw %d: index %d but moved=%s" % (k, idx, moved))
        # the draw is the start or a logged, non-divergent leapfrog end with identical numbers
        if idx == 0:
            ref = init
        else:
            cands = [lf for lf in good if lf["idx"] == idx]
            ref = cands[0] if cands else None
            if ref is None:
                bad.append("draw %d: returned index %d was never reached by the integrator" % (k, idx))
        if ref is not None:
            for key in ("x", "q", "g", "logp", "energy"):
                if ref[key] != st_[key]:
                    bad.append("draw %d: %s of the returned state differs from the state reached at index %d" % (k, key, idx))
                    break
        # the draw lies within the accepted tree: |tree| = 2^depth contiguous indices around 0
        lo = min([0] + [lf["idx"] for lf in good])
        hi = max([0] + [lf["idx"] for lf in good])
        # the depth limit in force: with target_integration_time it is the derived bound (<= maxdepth)
        limit = maxdepth
        if c.get("target_integration_time") is not None:
            n = max_steps_of(c)
            fl, ce = n.bit_length() - 1, (n - 1).bit_length()
            limit = min(max(ce, max(fl, c.get("mindepth", 0)), 1), maxdepth)
        if r["reached_maxdepth"] and (depth != limit or r["diverging"]):
            bad.append("draw %d: maxdepth flag with depth %d (depth limit %d) diverging=%s" % (k, depth, limit, r["diverging"]))
        if (not r["reached_maxdepth"]) and depth == maxdepth and not r["diverging"] and extra == 0 and c.get("check_turning", True) and c["dim"] > 0:
            # stopped at maxdepth without the flag: a U-turn of the whole tree at the last level
            pass
    return bad


def pool_check(ctx, stats):
    """state pool: random handle-operation sequences against the real StatePool and model/Pool.v"""
    ok, out = build_harness(["pool"])
    ctx.oblig("harness-build-pool", ok, out[-2000:])
    if not ok:
        return
    r = ctx.rnd()
    cases = []
    for cid in range(150 if ctx.tier == "quick" else 1500):
        ops = []
        nh = 0
        for _ in range(r.randint(3, 40)):
            k = r.random()
            if nh == 0 or k < 0.3:
                ops.append(["new"])
                nh += 1
            elif k < 0.5:
                ops.append(["clone", r.randrange(nh)])
                nh += 1
            elif k < 0.8:
                ops.append(["drop", r.randrange(nh)])
            else:
                ops.append(["write", r.randrange(nh), r.randint(1, 99)])
        cases.append({"id": cid, "ops": ops})
    outs, errs = run_harness_parallel("pool", cases)
    ctx.oblig("harness-run-pool", not errs and len(outs) == len(cases), "\n".join(errs)[:1500])

    def opx(o):
        if o[0] == "new":
            return "ONew"
        if o[0] == "clone":
            return "OClone %d" % o[1]
        if o[0] == "drop":
            return "ODrop %d" % o[1]
        return "OWrite %d %d" % (o[1], o[2])
    exprs = ["run_codes %s" % coq_list([opx(o) for o in c["ops"]]) for c in cases]
    prelude = "From NutsV Require Import model.Pool.\nFrom Coq Require Import List.\nImport ListNotations.\n"
    vals, err = coq_eval_shards("C03_pool", prelude, exprs, shard_size=max(1, len(exprs) // 16 + 1))
    ctx.oblig("model-eval-pool", err is None, err or "")
    if err:
        return
    nd = 0
    for c, m in zip(cases, vals):
        o = outs.get(c["id"])
        if not o:
            continue
        ctx.evaluations += 1
        codes, snap = m
        free, rest = snap[0], snap[1:]
        diffs = []
        if "panic" in o:
            violation(ctx, "implementation violates C03: state pool operation panicked: %s" % o["panic"][:200], {"case": c}, found_input=True)
            continue
        if codes != o["codes"]:
            diffs.append("operation results: model %s implementation %s" % (codes, o["codes"]))
        if len(free) != o["free_len"]:
            diffs.append("free list length: model %d implementation %d" % (len(free), o["free_len"]))
        if rest != o["snapshot"]:
            diffs.append("live handles (handle, cell, strong count, value): model %s implementation %s" % (rest, o["snapshot"]))
        # statement: a successful write through one handle is visible only through handles of the same cell
        if diffs:
            nd += 1
            if nd <= 3:
                violation(ctx, "model/implementation correspondence broken (state pool): %s" % diffs[0],
                          {"case": c, "differences": diffs, "correspondence": "model/Pool.v vs dynamics::StatePool"}, found_input=False)
    ctx.oblig("correspondence-pool", nd == 0, "%d sequences differ" % nd)
    stats["pool_sequences"] = len(cases)


PRELUDE = ("From NutsV Require Import model.Tree.\nFrom Coq Require Import ZArith QArith List.\n"
           "Import ListNotations.\nOpen Scope Z_scope.\n")


def run(ctx):
    prop = ctx.prop
    n_cases = 160 if ctx.tier == "quick" else 1500
    audit_forbidden(ctx)
    check_property_file(ctx, prop, allow_axioms=AX)
    ok, out = build_harness(["orbit"])
    ctx.oblig("harness-build", ok, out[-3000:])
    if not ok:
        return
    cases = gen_cases(ctx, n_cases, faults=(prop != "C01"))
    outs, errs = run_harness_parallel("orbit", cases)
    ctx.oblig("harness-run", not errs and len(outs) == len(cases), "\n".join(errs)[:2000])
    exprs, meta = [], []
    for c in cases:
        o = outs.get(c["id"])
        if not o or o.get("init_state") != "ok":
            continue
        unrec = any(f[1] == "unrec" for f in c.get("faults", []))
        for k, d in enumerate(o["draws"]):
            if d.get("init") is None:
                continue
            exprs.append(build_model_call(c, d, unrec))
            meta.append((c, k, d))
    vals, err = coq_eval_shards(prop + "_tree", PRELUDE, exprs, shard_size=max(1, len(exprs) // 16 + 1))
    ctx.oblig("model-eval", err is None, err or "")
    if err:
        return
    ndiff = 0
    namb = 0
    stats = {"draws": 0, "depth_hist": {}, "diverging": 0, "errors": 0, "maxdepth": 0, "coins": 0,
             "kinds": {}, "lowrank": 0, "ambiguous_skipped": 0}
    for (c, k, d), m in zip(meta, vals):
        ctx.evaluations += 1
        stats["draws"] += 1
        s = impl_summary(d)
        if "depth" in s:
            stats["depth_hist"][str(s["depth"])] = stats["depth_hist"].get(str(s["depth"]), 0) + 1
            stats["diverging"] += int(s["div"])
            stats["maxdepth"] += int(s["maxdepth"])
            if s["depth"] >= 1:
                ctx.nontrivial.add((c["id"], k))
        if s.get("err"):
            stats["errors"] += 1
        stats["kinds"][c["kind"]] = stats["kinds"].get(c["kind"], 0) + 1
        stats["lowrank"] += int("lowrank" in c)
        if m != [[-1]]:
            stats["coins"] += len(m[2])
        if ambiguous(m, d):
            namb += 1
            continue
        diffs = compare_draw(c, d, m)
        if len(ctx.samples) < 3 and "depth" in s and s["depth"] >= 2:
            ctx.samples.append({"case": {kk: vv for kk, vv in c.items() if kk != "words"}, "draw": k,
                                "implementation": s, "model": m[:2]})
        if diffs:
            ndiff += 1
            cc = dict(c)
            cc["words"] = cc["words"][:40]
            violation(ctx, "model/implementation correspondence broken (tree): %s" % diffs[0],
                      {"case": cc, "draw": k, "differences": diffs,
                       "correspondence": "model/Tree.v run_draw vs harness orbit (nuts::draw)"},
                      found_input=False)
    stats["ambiguous_skipped"] = namb
    ctx.oblig("correspondence-tree", ndiff == 0, "%d draws differ" % ndiff)
    if prop == "C03":
        nb = 0
        for c in cases:
            o = outs.get(c["id"])
            if not o or o.get("init_state") != "ok":
                continue
            bad = oracle_c03(c, o)
            if bad:
                nb += 1
                cc = dict(c)
                cc["words"] = cc["words"][:40]
                violation(ctx, "implementation violates C03: %s" % bad[0], {"case": cc, "failures": bad}, found_input=True)
        ctx.oblig("impl-audit-C03", nb == 0, "%d cases" % nb)
    if prop == "C03":
        pool_check(ctx, stats)
    ctx.notes["input_distribution"] = stats


_TB = [
    "Coq 8.16.1 kernel, vm_compute for model evaluation; all C01/C03 theorems are closed under the global context (no axioms)",
    "hand-written model coq/model/Tree.v of NutsTree::{extend, merge_into, single_step} and nuts::draw over an abstract orbit (weights, U-turn predicate, divergence/error predicates); tied to /repo by the correspondence: the model's scripted interpretation is run on the orbit logged from the real nuts::draw (same random words) and must reproduce the order of leapfrogs, the number of random words consumed, the selected index, depth, divergence and maxdepth flags",
    "weights handed to the model are exp(-energy error) of the logged f64 energies (python libm); draws with a coin probability within 1e-9 of 0 or 1 are skipped as ambiguous and counted",
    "harness/src/bin/orbit.rs (scripted RNG as rand 0.10 defines bool / random_bool, delegating Math with scripted momentum), hook nuts_rs::verif::nuts_draw and point accessors",
    "not in the theorem: continuous-state invariance (measure theory); it is the orbit-wise statement over exact arithmetic",
]
TRUSTED = {"C01": _TB, "C03": _TB}
ASSUMPTIONS = {
    "C01": ["the orbit seen from another of its states is the same orbit re-indexed (reversibility of the integrator, C02)",
            "default tree options (mindepth 0, extra_doublings 0, check_turning) and no divergence inside the trajectory, as the property states"],
    "C03": ["statistics of the returned state are compared bitwise with the state logged when the integrator reached that index"],
}
RULE = {
    "C01": "seeded random orbits: dimension 1-6, Gaussian/quartic potentials, diagonal and low-rank transformations, Euclidean and ExactNormal, maxdepth 0-7, mindepth, extra doublings, scripted random words; non-trivial = a draw of depth >= 1; distinct by (case, draw)",
    "C03": "same stream as C01 plus density faults of every kind at a random evaluation; additionally an implementation-side audit of every draw against the statement (depth/steps/index relations, draw equals a reached state bitwise, next trajectory starts from it)",
}
