"""C08: mass-matrix estimators.  Theorems over model/Estimator.v; bit-exact correspondence of the
binary64 scale-update kernels with CpuMath on degenerate inputs; closed-loop exactness audit on
Gaussian targets (diagonal and low-rank adaptation) and positivity/finiteness of every reported
scale."""
import json
import math
import struct

from vlib import *  # noqa

AX = STDLIB_AXIOMS


def f2b(x):
    return struct.unpack("<Q", struct.pack("<d", float(x)))[0]


def b2f(b):
    return struct.unpack("<d", struct.pack("<Q", int(b)))[0]


SPECIAL = [0.0, -0.0, float("inf"), float("-inf"), float("nan"), 5e-324, 1e-300, 1e300, 1e-20, 1e20, 1e-21, 1e21, 1.0, -1.0,
           2.2250738585072014e-308, 1.7976931348623157e308, 1e-10, 1e10, 4.0, 0.25]


def val(r):
    if r.random() < 0.6:
        return r.choice(SPECIAL)
    if r.random() < 0.5:
        return b2f(r.getrandbits(64))
    return math.exp((r.random() - 0.5) * 60) * r.choice([1, 1, -1])


def gen_kernel_cases(ctx, n):
    r = ctx.rnd()
    cases = []
    for cid in range(n):
        op = r.choice(["update_variance", "var_inv_std_draw", "var_inv_std_draw_grad", "var_inv_std_grad"])
        m = r.randint(1, 6)
        c = {"id": cid, "op": op, "n": m}
        pos = lambda: [str(f2b(abs(val(r)) if r.random() < 0.7 else val(r))) for _ in range(m)]
        anyv = lambda: [str(f2b(val(r))) for _ in range(m)]
        if op == "update_variance":
            c.update({"x": anyv(), "y": pos(), "z": anyv(), "a": str(f2b(1.0 / r.randint(1, 50)))})
        else:
            good = [str(f2b(math.exp((r.random() - 0.5) * 20))) for _ in range(m)]
            c.update({"x": good, "y": [str(f2b(1.0 / b2f(g))) for g in good], "z": anyv(), "w": anyv(),
                      "a": str(f2b(r.choice([1.0, 0.5, 1.0 / 3, 0.0, float("nan")]))),
                      "lo": str(f2b(1e-20)), "hi": str(f2b(1e20))})
            c["fill"] = None if (op != "var_inv_std_grad" and r.random() < 0.7) else str(f2b(r.choice([1.0, 4.0])))
        cases.append(c)
    return cases


def kernel_exprs(c):
    m = c["n"]
    ex = []
    for i in range(m):
        if c["op"] == "update_variance":
            args = [c["x"][i], c["y"][i], c["z"][i], c["a"]]
            ex.append("run_estimator 1%%N %s" % coq_list(["%s%%Z" % a for a in args]))
        elif c["op"] == "var_inv_std_draw":
            args = [c["y"][i], c["x"][i], c["z"][i], c["a"], c["lo"], c["hi"], "1" if c["fill"] else "0", c["fill"] or "0"]
            ex.append("run_estimator 2%%N %s" % coq_list(["%s%%Z" % a for a in args]))
        elif c["op"] == "var_inv_std_draw_grad":
            args = [c["y"][i], c["x"][i], c["z"][i], c["w"][i], c["lo"], c["hi"], "1" if c["fill"] else "0", c["fill"] or "0"]
            ex.append("run_estimator 3%%N %s" % coq_list(["%s%%Z" % a for a in args]))
        else:
            args = [c["z"][i], c["fill"], c["lo"], c["hi"]]
            ex.append("run_estimator 4%%N %s" % coq_list(["%s%%Z" % a for a in args]))
    return ex


def nanbits(b):
    return (b & 0x7FF0000000000000) == 0x7FF0000000000000 and (b & 0x000FFFFFFFFFFFFF) != 0


def gen_loop_cases(ctx, n):
    r = ctx.rnd()
    cases = []
    for cid in range(n):
        dim = r.choice([1, 2, 3, 5, 8])
        preset = r.choice(["diag_nuts", "diag_nuts", "lowrank_nuts"])
        c = {"id": cid, "preset": preset, "dim": dim, "seed": r.randint(1, 10 ** 6), "maxdepth": 6,
             "num_tune": r.choice([30, 60]), "num_draws": 2, "store_mass_matrix": True, "update_freq": 1,
             "mu": [r.randint(-16, 16) / 4 for _ in range(dim)], "init": [r.randint(-8, 8) / 4 + 0.3 for _ in range(dim)]}
        kappa = r.choice([1.0, 1e2, 1e4, 1e6])
        c["prec"] = [kappa ** (r.random() - 0.5) for _ in range(dim)]
        if r.random() < 0.4:
            # a posterior far from the origin relative to its width (variance estimates must not be
            # computed as E[x^2] - E[x]^2)
            off = 1e3
            c["mu"] = [r.choice([-1, 1]) * off / math.sqrt(p) * (1 + r.random()) for p in c["prec"]]
            c["init"] = [m + 0.3 / math.sqrt(p) for m, p in zip(c["mu"], c["prec"])]
            c["far_mean"] = off
        if preset == "lowrank_nuts" and dim >= 2 and dim <= 5 and r.random() < 0.6:
            # correlated Gaussian: precision = A A^T + I
            A = [[r.choice([-1, 0, 0.5, 1]) for _ in range(dim)] for _ in range(dim)]
            P = [[sum(A[i][k] * A[j][k] for k in range(dim)) + (1.0 if i == j else 0.0) for j in range(dim)] for i in range(dim)]
            c["dense_prec"] = [P[i][j] for i in range(dim) for j in range(dim)]
            c["eigval_cutoff"] = 1.0
            c["lr_gamma"] = 1e-10
            c["num_tune"] = 80
        cases.append(c)
    return cases


def loop_audit(c, o):
    bad = []
    if o.get("set_position") != "ok":
        return ["chain did not start: %s" % json.dumps(o)[:200]]
    dim = c["dim"]
    stds_true = [1.0 / math.sqrt(p) for p in c["prec"]]
    exact_seen = 0
    for d in o["draws"]:
        if "draw" not in d:
            bad.append("draw failed: %s" % json.dumps(d)[:200])
            break
        for key in ("mass_matrix_inv", "mass_matrix_stds"):
            v = d.get(key)
            if v:
                vals = [b2f(x) for x in v]
                if not all(x == x and 0 < x < float("inf") for x in vals):
                    bad.append("draw %d: transformation scale %s not finite and positive: %s" % (d["draw"], key, vals))
        mu = d.get("transformation_mu")
        if mu and not all(b2f(x) == b2f(x) and abs(b2f(x)) < float("inf") for x in mu):
            bad.append("draw %d: transformation mean not finite" % d["draw"])
        fg = d["hook"]["sched"][6] if d.get("hook") else 0
        if c["preset"] == "diag_nuts" and d.get("mass_matrix_inv") and fg >= 3 and d["draw"] >= 1 and "dense_prec" not in c:
            vals = [b2f(x) for x in d["mass_matrix_inv"]]
            mus = [b2f(x) for x in d["transformation_mu"]]
            for i in range(dim):
                if abs(vals[i] - stds_true[i]) > 1e-7 * stds_true[i] or abs(mus[i] - c["mu"][i]) > 1e-7 * (stds_true[i] + abs(c["mu"][i])):
                    bad.append("draw %d: diagonal adaptation with %d draws gives std %r mean %r for coordinate %d, exact values %r, %r" % (
                        d["draw"], fg, vals[i], mus[i], i, stds_true[i], c["mu"][i]))
                    break
            exact_seen += 1
    # whitening: gradient = -position in the adapted space at the end of warmup
    tail = [d for d in o["draws"] if "draw" in d][-3:]
    for d in tail:
        fd = b2f(d["fisher_distance"])
        # (a squared distance: rounding leaves it below 3e-23 for means up to 1e3 widths away; an
        # estimate that loses half of its digits to cancellation gives 1e-19 and more)
        if not (fd <= 1e-21):
            bad.append("after warmup the whitened gradient is not minus the whitened position (fisher_distance %r) for a Gaussian target" % fd)
            break
    return bad


def run(ctx):
    prop = ctx.prop
    quick = ctx.tier == "quick"
    audit_forbidden(ctx)
    check_property_file(ctx, prop, allow_axioms=AX)
    ok, out = build_harness(["kernels", "schedule", "lowrank"])
    ctx.oblig("harness-build", ok, out[-3000:])
    if not ok:
        return
    # (1) kernels, bit-exact
    kc = gen_kernel_cases(ctx, 300 if quick else 3000)
    outs, errs = run_harness_parallel("kernels", kc)
    ctx.oblig("harness-run-kernels", not errs and len(outs) == len(kc), "\n".join(errs)[:1500])
    exprs, meta = [], []
    for c in kc:
        if c["id"] in outs and "panic" not in outs[c["id"]]:
            for i, e in enumerate(kernel_exprs(c)):
                exprs.append(e)
                meta.append((c, i))
    prelude = "From NutsV Require Import lib.Fp model.Estimator.\nFrom Coq Require Import ZArith NArith List.\nImport ListNotations.\n"
    vals, err = coq_eval_shards(prop + "_est", prelude, exprs, shard_size=max(1, (len(exprs) + 15) // 16))
    ctx.oblig("model-eval", err is None, err or "")
    ndiff = 0
    nbad = 0
    stats = {"kernel_elements": len(exprs), "ops": {}, "nonfinite_inputs": 0, "kept_previous": 0, "loop_cases": 0}
    if not err:
        for (c, i), m in zip(meta, vals):
            o = outs[c["id"]]
            ctx.evaluations += 1
            stats["ops"][c["op"]] = stats["ops"].get(c["op"], 0) + 1
            ctx.nontrivial.add((c["id"], i))
            if c["op"] == "update_variance":
                impl = [int(o["v"][i]), int(o["v2"][i])]
            else:
                impl = [int(o["v2"][i]), int(o["v"][i])]   # (std, inv_std)
                zin = b2f(c["z"][i])
                if zin != zin or zin in (float("inf"), float("-inf")) or zin == 0:
                    stats["nonfinite_inputs"] += 1
                if impl == [int(c["y"][i]), int(c["x"][i])]:
                    stats["kept_previous"] += 1
                # statement: scales stay finite and positive
                s_, is_ = b2f(impl[0]), b2f(impl[1])
                if not (0 < s_ < float("inf") and 0 < is_ < float("inf")):
                    nbad += 1
                    if nbad <= 3:
                        violation(ctx, "implementation violates C08: %s produced scale %r / inverse scale %r" % (c["op"], s_, is_),
                                  {"case": c, "element": i}, found_input=True)
                    continue
            if not all(a == b_ or (nanbits(a) and nanbits(b_)) for a, b_ in zip(impl, m)):
                ndiff += 1
                if ndiff <= 3:
                    violation(ctx, "model/implementation correspondence broken (%s): model %s implementation %s" % (c["op"], m, impl),
                              {"case": c, "element": i, "correspondence": "model/Estimator.v run_estimator vs CpuMath"}, found_input=False)
            if len(ctx.samples) < 3 and c["op"] != "update_variance":
                ctx.samples.append({"op": c["op"], "inputs": {k: c.get(k) for k in ("x", "y", "z", "w", "a", "fill")}, "element": i, "result": impl})
    ctx.oblig("correspondence-estimator-kernels", ndiff == 0, "%d elements differ" % ndiff)
    # (1b) the log-determinant of a diagonal transformation is the sum of the logarithms of its
    # scales: finite for every vector of scales within the clamp range, whatever the dimension
    r = ctx.rnd()
    lcs = []
    for cid in range(120 if quick else 1200):
        n = r.choice([1, 2, 5, 10, 31, 40, 50, 64, 100, 130])
        mag = r.choice([1.0, 1e-3, 1e3, 1e-9, 1e8, 1e-10, 1e10])
        xs = [mag * math.exp(r.uniform(-1, 1)) if r.random() < 0.8 else math.exp(r.uniform(-20, 20)) for _ in range(n)]
        xs = [min(max(x, 1e-10), 1e10) for x in xs]
        lcs.append({"id": cid, "op": "sum_ln", "n": n, "x": [str(f2b(x)) for x in xs]})
    louts, lerrs_ = run_harness_parallel("kernels", lcs)
    ctx.oblig("harness-run-sum-ln", not lerrs_ and len(louts) == len(lcs), "\n".join(lerrs_)[:1500])
    nld = 0
    for c in lcs:
        o = louts.get(c["id"])
        if not o or "panic" in o:
            continue
        ctx.evaluations += 1
        want = math.fsum(math.log(b2f(x)) for x in c["x"])
        got = b2f(o["s"][0])
        if not (abs(got - want) <= 1e-9 * (1 + abs(want))):
            nld += 1
            nbad += 1
            if nld <= 3:
                violation(ctx, "implementation violates C08: the sum of logarithms of %d scales of magnitude %.3g (the log-determinant of a diagonal transformation) is reported as %r, it is %r" % (
                    c["n"], b2f(c["x"][0]), got, want), {"case": c}, found_input=True)
    ctx.oblig("impl-audit-logdet-sum", nld == 0, "%d cases" % nld)
    # (2) closed loop on Gaussian targets
    lc = gen_loop_cases(ctx, 40 if quick else 300)
    louts, lerrs = run_harness_parallel("schedule", lc)
    ctx.oblig("harness-run-loop", not lerrs and len(louts) == len(lc), "\n".join(lerrs)[:1500])
    for c in lc:
        o = louts.get(c["id"])
        if not o:
            continue
        stats["loop_cases"] += 1
        ctx.evaluations += 1
        bad = loop_audit(c, o)
        if bad:
            nbad += 1
            if nbad <= 3:
                violation(ctx, "implementation violates C08: %s" % bad[0], {"case": c, "failures": bad[:5]}, found_input=True)
    ctx.oblig("impl-audit-C08", nbad == 0, "%d failures" % nbad)
    ctx.notes["input_distribution"] = stats
    # (3) the low-rank estimator driven directly with synthetic windows
    import lowrank
    lowrank.run_part(ctx, quick)


_TB = [
    "Coq 8.16.1 kernel, vm_compute; Flocq binary64 (+ its 4 standard-library axioms)",
    "hand-written model coq/model/Estimator.v: exact-arithmetic running mean / variance accumulator and diagonal update (theorems), binary64 kernels (evaluated, tied bit-exactly to CpuMath::array_update_variance and array_update_var_inv_std_{draw,draw_grad,grad})",
    "hand-written model coq/model/LowRank.v: everything of the low-rank estimator around the decompositions - the `< 3 draws` guard of adapt, the finite gate of LowRankMassMatrix::update and what it installs (set_transform, InnerMatrix::new), the entry-wise maps of rescale_points, the eigenvalue filter - tied bit-exactly to the implementation driven directly with synthetic windows (hook H1e: LowRankMassMatrixStrategy::verif_push / verif_compute_update / verif_rescale_points, harness bin lowrank)",
    "inputs, not modelled: faer's thin SVD, pivoted QR, self-adjoint eigendecomposition, matrix products and row sums. What they compute is checked against oracles derived from the window alone (sigma and mu of the rescaling, orthonormal eigenvectors, kept eigenvalues outside [1/cutoff, cutoff], the installed spectral factor solves the Riccati equation S (I + G G^T/gamma) S = I + X X^T/gamma of the SPD geometric mean, full-rank Gaussian windows are whitened exactly), and the assumption the theorems leave to them - a window that rescale_points made non-finite is never turned into an accepted update - is checked on every degenerate window",
]
TRUSTED = {"C08": _TB}
ASSUMPTIONS = {"C08": ["faer decompositions fail or return non-finite factors on a non-finite matrix (checked on every degenerate window of the run, not proved)",
                       "low-rank exactness is audited with eigval_cutoff = 1 and gamma = 1e-10 (with the default cutoff 2 directions with eigenvalue in [1/2, 2] are deliberately left unscaled)",
                       "sqrt is an abstract function with sqrt(x)^2 = x in the exact-arithmetic theorems"]}
RULE = {"C08": "low-rank windows: dimensions 1-8, 0-30 draws, Gaussian (diagonal / correlated, means up to 300 widths away) and degenerate kinds (constant or zero draws in a coordinate, constant / zero gradients, NaN or infinite entries, 1e+-150..1e+-300 magnitudes, under/overflowing variance ratios, identical draws, duplicated coordinates, fewer than 3 draws), gamma in {1e-10,1e-8,1e-5,0.1,1}, cutoff in {1,1.5,2,10} (every window also with cutoff 1), plus direct calls of update with a non-finite entry in each argument; kernel elements: seeded values dominated by special cases (0, -0, inf, nan, subnormal, 1e+-300, clamp boundaries) and full-range bit patterns; closed loop: Gaussian targets with condition numbers up to 1e6, dimensions 1-8, diagonal and correlated, diag and low-rank adaptation; distinct = (case, element)"}
