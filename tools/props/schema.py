"""C16: statistics schema and per-draw values are mutually consistent.

Proof side: Properties/C16.v over model/Derive.v (the code `#[derive(Storable)]` generates, for ALL
declarations), model/Stats.v (presence rules) and gen/StorableDecls.v, which the translator
tools/translate_storable.py regenerates from the CURRENT Rust sources on every run.
Tie: harness binary `schema` runs every preset through the public API; the declared schema is
compared with names/item_type/dims/event_dim of the regenerated declarations, every row with the
model's get_all (rebuilt value + shape check) and with the presence the model predicts from the
logged (options, divergence, transformation ids); an implementation-side oracle taken from the
property text judges every row on its own.

Environment: VERIF_REPO=<dir> runs translator and harness against a copy of the crate (used for
the detection experiments); default /repo."""
import itertools
import json
import os
import shutil

import vlib
from vlib import *  # noqa

AX = ()  # every theorem of C16 is closed under the global context

NUTS = ["diag_nuts", "lowrank_nuts", "flow_nuts"]
MCLMC = ["diag_mclmc", "lowrank_mclmc", "flow_mclmc"]
PRESETS = NUTS + MCLMC
FLAGS = ["store_gradient", "store_unconstrained", "store_transformed", "store_divergences", "store_mass_matrix"]
# the settings flag that switches a statistic without event dimension (property text: "when its
# option is switched off, on none")
OPTION_OF = {"gradient": "store_gradient", "unconstrained_draw": "store_unconstrained",
             "transformed_position": "store_transformed", "transformed_gradient": "store_transformed"}
IDENTIFYING = {"divergence": ["divergence_draw", "divergence_message"],
               "transformation_update": ["transformation_update_id"]}
TAGS = {"TU64": "u64", "TI64": "i64", "TF64": "f64", "TF32": "f32", "TBool": "bool", "TString": "string"}
RTAGS = {v: k for k, v in TAGS.items()}


def repo_dir():
    return os.environ.get("VERIF_REPO", "/repo")


# ------------------------------------------------------------------------------------------------
# cases
# ------------------------------------------------------------------------------------------------
def gen_cases(ctx):
    r = ctx.rnd()
    cases = []
    cid = 0
    quick = ctx.tier == "quick"
    combos = list(itertools.product([False, True], repeat=len(FLAGS)))
    for preset in PRESETS:
        dims = [0, 1, 2, 5] if preset in NUTS else [2, 5]
        for k, combo in enumerate(combos):
            dsel = dims
            for dim in dsel:
                reps = 1 if quick else 8
                for rep in range(reps):
                    c = {"id": cid, "preset": preset, "dim": dim, "seed": r.randint(0, 2 ** 32),
                         "chain": r.choice([0, 1, 3, 7]),
                         "num_tune": r.choice([0, 6, 10, 14, 20] if quick or rep < 4 else [30, 45, 60]),
                         "num_draws": r.randint(2, 5)}
                    for f, b in zip(FLAGS, combo):
                        c[f] = b
                    c["use_grad_based_estimate"] = bool((k + rep + dim) % 2)
                    c["early_switch_freq"] = r.choice([2, 3, 4])
                    c["switch_freq"] = r.choice([3, 4, 6])
                    c["update_freq"] = r.choice([1, 1, 2, 3])
                    c["maxdepth"] = r.choice([2, 3, 4])
                    c["prec"] = [r.choice([0.25, 1.0, 4.0]) for _ in range(dim)]
                    if preset in ("lowrank_nuts", "lowrank_mclmc") and dim >= 2 and c["store_mass_matrix"] and (rep + k + dim) % 2 == 0:
                        # a strongly correlated Gaussian (covariance I + a 11^T): the low-rank
                        # adaptation retains eigenvalues, so mass_matrix_eigvals has a low-rank part
                        a = r.choice([20.0, 50.0])
                        q = a / (1.0 + a * dim)
                        c["dense_prec"] = [(1.0 if i == j else 0.0) - q for i in range(dim) for j in range(dim)]
                        c["num_tune"] = max(c["num_tune"], r.choice([20, 30]))
                        c["maxdepth"] = 4
                    kind = r.choice(["none", "region_rec", "region_energy", "region_nan", "script", "script"])
                    if dim == 0:
                        kind = r.choice(["none", "script"])
                    if preset in MCLMC:
                        c["dynamic_step_size"] = r.random() < 0.5
                        c["fixed_step"] = r.choice([0.25, 0.5])
                        if kind == "script" and c["dynamic_step_size"]:
                            kind = r.choice(["region_rec", "region_energy"])
                    if kind == "region_rec":
                        c["region_fault"] = [r.choice([0.5, 1.0, 1.5]), "rec"]
                    elif kind == "region_energy":
                        c["region_fault"] = [r.choice([0.5, 1.0, 1.5]), "huge_energy"]
                    elif kind == "region_nan":
                        c["region_fault"] = [r.choice([0.5, 1.0]), "nan_logp"]
                    elif kind == "script":
                        # single faulty evaluations of both kinds spread over the run (evaluation
                        # 0 is set_position: keep it clean)
                        n = r.randint(2, 8)
                        ks = sorted(set(r.randint(2, 160) for _ in range(n)))
                        c["faults"] = [[k2, r.choice(["rec", "huge_energy", "huge_energy", "nan_logp"])] for k2 in ks]
                    if kind != "script" and dim > 0 and r.random() < 0.3:
                        # the chain's first initialisation attempts are rejected (zero gradient at
                        # the centre of the density): each installs an initial transformation
                        c["bad_inits"] = r.choice([1, 2, 3])
                    cases.append(c)
                    cid += 1
    return cases


# ------------------------------------------------------------------------------------------------
# reading the harness output
# ------------------------------------------------------------------------------------------------
def good_draws(out):
    return [d for d in out.get("draws", []) if "row" in d]


def entry_sig(e):
    """(present, tag, scalar, len) of a row entry"""
    name, v = e
    if v is None:
        return (False, None, None, None)
    return (True, v["t"], bool(v.get("s", False)), v.get("n"))


def entry_scalar(e):
    name, v = e
    if v is None or not v.get("s"):
        return None
    return v["v"][0]


def cause_of(d):
    """Which DivergenceInfo site produced the divergence of this draw: read from the message
    (the scripted recoverable error has its own text, energy errors say so)."""
    if not d["diverging"]:
        return None
    msg = None
    for e in d["row"]:
        if e[0] == "divergence_message":
            msg = entry_scalar(e)
    if msg is None:
        return "unknown"
    if msg.startswith("Divergence due to"):
        return "energy"
    if msg.startswith("Divergence (unknown"):
        return "unknown"
    return "logp"


# ------------------------------------------------------------------------------------------------
# implementation-side oracle, straight from the property text
# ------------------------------------------------------------------------------------------------
def oracle(c, out):
    bad = []
    sch = out.get("schema")
    if sch is None:
        return [("schema functions panic: %s" % out.get("schema_panic"), {})]
    names = sch["names"]
    for col in ("types", "dims", "event_dims"):
        if [x[0] for x in sch[col]] != names:
            bad.append(("stat_%s lists other names than stat_names" % col, {}))
            return bad
    dup = sorted(set(n for n in names if names.count(n) > 1))
    if dup:
        # stat_type / stat_dims / event_dim are functions of the NAME: a repeated name is not a
        # schema (the second declaration is unreachable, by-name consumers see two values per draw)
        bad.append(("declared names are not distinct: %s declared at positions %s"
                    % (dup, [[i for i, n in enumerate(names) if n == x] for x in dup]), {}))
    types = [x[1] for x in sch["types"]]
    dims = [x[1] for x in sch["dims"]]
    events = [x[1] for x in sch["event_dims"]]
    sizes = dict((k, v) for k, v in sch["dim_sizes"])
    if sizes.get("unconstrained_parameter") != c["dim"]:
        bad.append(("stat_dim_sizes says unconstrained_parameter=%s for dim=%d" % (sizes.get("unconstrained_parameter"), c["dim"]), {}))
    for e in set(x for x in events if x is not None):
        if e not in IDENTIFYING:
            bad.append(("event dimension %r is not one the property names" % e, {}))
            return bad
    draws = good_draws(out)
    if out.get("new_chain") != "ok":
        bad.append(("new_chain: %s" % out.get("new_chain"), {}))
        return bad
    if out.get("set_position") != "ok":
        return bad  # the chain never started (initial point faulty): nothing to judge
    for d in out["draws"]:
        if "row" not in d:
            # a chain that stops with Err is not C16's business; a panic inside get_all would be
            if "panic" in d:
                bad.append(("draw panics: %s" % d["panic"], {}))
            break
    prev_id = out.get("id_new")
    presence = {}
    for i, d in enumerate(draws):
        row = d["row"]
        rnames = [e[0] for e in row]
        if rnames != names:
            bad.append(("draw %d: row names differ from the declared names: row %s declared %s"
                        % (i, rnames, names), {"draw": i}))
            break
        changed = d["id_after"] != prev_id
        prev_id = d["id_after"]
        happened = {"divergence": d["diverging"], "transformation_update": changed}
        for j, e in enumerate(row):
            n = names[j]
            present, tag, scalar, ln = entry_sig(e)
            presence.setdefault(j, []).append(present)
            if present:
                if tag != types[j]:
                    bad.append(("draw %d: %s has a %s value, declared type %s" % (i, n, tag, types[j]), {"draw": i}))
                want = 1
                for dn in dims[j]:
                    want *= sizes.get(dn, -1)
                if not dims[j]:
                    if not scalar:
                        bad.append(("draw %d: %s declared without dimensions holds a vector of length %s" % (i, n, ln), {"draw": i}))
                elif scalar or ln != want:
                    bad.append(("draw %d: %s has length %s, declared dims %s give %d" % (i, n, "scalar" if scalar else ln, dims[j], want), {"draw": i}))
            ev = events[j]
            if ev is not None:
                if present and not happened[ev]:
                    bad.append(("draw %d: event statistic %s (%s) present although the event did not happen" % (i, n, ev), {"draw": i}))
                if n in IDENTIFYING[ev] and happened[ev] and not present:
                    bad.append(("draw %d: identifying statistic %s missing on a %s draw" % (i, n, ev), {"draw": i}))
        # identifying statistics must exist for every declared event
        if len(bad) > 5:
            break
    for ev in set(x for x in events if x is not None):
        for idn in IDENTIFYING[ev]:
            if not any(n == idn and e == ev for n, e in zip(names, events)):
                bad.append(("preset declares %s statistics but not the identifying %s" % (ev, idn), {}))
    # statistics without event dimension: on every draw or on none; the option decides
    for j, n in enumerate(names):
        if events[j] is None and j in presence:
            ps = presence[j]
            if any(ps) and not all(ps):
                bad.append(("%s (no event dimension) present on %d of %d draws" % (n, sum(ps), len(ps)), {}))
            elif n in OPTION_OF:
                if all(ps) != bool(c[OPTION_OF[n]]):
                    bad.append(("%s present=%s although %s=%s" % (n, all(ps), OPTION_OF[n], c[OPTION_OF[n]]), {}))
            elif not all(ps):
                bad.append(("%s (no event dimension, no option) is never present" % n, {}))
    # counters
    sd = [stat_scalar(d, "draw") for d in draws]
    for i in range(1, len(draws)):
        if sd[i] is None or sd[i - 1] is None or int(sd[i]) != int(sd[i - 1]) + 1:
            bad.append(("draw statistic goes %s -> %s at draw %d" % (sd[i - 1], sd[i], i), {"draw": i}))
            break
        if draws[i]["draw"] != draws[i - 1]["draw"] + 1:
            bad.append(("Progress.draw goes %s -> %s" % (draws[i - 1]["draw"], draws[i]["draw"]), {"draw": i}))
            break
    for i, d in enumerate(draws):
        ch = stat_scalar(d, "chain")
        if ch is None or int(ch) != c["chain"] or d["chain"] != c["chain"]:
            bad.append(("chain id of draw %d is %s / Progress %s, chain was created as %d" % (i, ch, d["chain"], c["chain"]), {"draw": i}))
            break
    return bad


def stat_scalar(d, name):
    for e in d["row"]:
        if e[0] == name:
            return entry_scalar(e)
    return None


# ------------------------------------------------------------------------------------------------
# model expressions
# ------------------------------------------------------------------------------------------------
PRELUDE = ("From Coq Require Import String List Bool ZArith.\n"
           "From NutsV Require Import model.Derive model.Stats gen.StorableDecls.\n"
           "Import ListNotations.\nLocal Open Scope string_scope.\nLocal Open Scope list_scope.\n")


def opts_term(c):
    return "{| " + "; ".join("%s := %s" % (f, coq_bool(c[f])) for f in FLAGS) + " |}"


def view_term(view):
    cause, upd, inner = view
    cz = {None: "None", "logp": "(Some CLogp)", "energy": "(Some CEnergy)"}[cause]
    return "{| v_div := %s; v_upd := %s; v_inner := %s |}" % (cz, coq_bool(upd), coq_bool(inner))


def vt_term(sig):
    present, tag, scalar, ln = sig
    if not present:
        return "None"
    if tag not in RTAGS:
        return None
    return "(Some (%s, %s))" % (RTAGS[tag], "None" if scalar else "(Some %d)" % ln)


def unsome(x):
    """parsed Coq option -> python (None | value)"""
    if x is None:
        return None
    if isinstance(x, tuple) and len(x) == 2 and x[0] == "Some":
        return x[1]
    return x


# ------------------------------------------------------------------------------------------------
def prepare_mutant_harness(repo):
    """Copy of the harness whose path dependencies point at `repo` (detection experiments)."""
    dst = os.path.join(vlib.BUILD, "harness_alt")
    if os.path.exists(dst):
        shutil.rmtree(dst)
    shutil.copytree(vlib.HARNESS, dst)
    p = os.path.join(dst, "Cargo.toml")
    txt = open(p).read().replace('"/repo/', '"%s/' % repo.rstrip("/")).replace('"/repo"', '"%s"' % repo.rstrip("/"))
    open(p, "w").write(txt)
    vlib.HARNESS = dst
    vlib.TARGET = os.path.join(vlib.BUILD, "target_alt")


def run(ctx):
    repo = repo_dir()
    ctx.notes["repo"] = repo
    # 1. translator: regenerate the declarations from the current sources
    rc, tout = sh(["python3", os.path.join(VERIF, "tools", "translate_storable.py"), "--repo", repo])
    ctx.checker_cmds.append("python3 tools/translate_storable.py")
    ctx.oblig("translator", rc == 0, tout[-3000:])
    # 2. proofs + audit (on the regenerated declarations)
    audit_forbidden(ctx)
    if rc == 0:
        check_property_file(ctx, "C16", allow_axioms=AX)
    # 3. harness
    if repo != "/repo":
        prepare_mutant_harness(repo)
    ok, out = build_harness(["schema"])
    ctx.oblig("harness-build", ok, out[-3000:])
    if not ok:
        return
    cases = gen_cases(ctx)
    outs, errs = run_harness_parallel("schema", cases)
    ctx.oblig("harness-run", not errs and len(outs) == len(cases), ("\n".join(errs))[:2000])
    todo = [c for c in cases if c["id"] in outs]

    # 4. implementation-side oracle
    n_viol = 0
    for c in todo:
        o = outs[c["id"]]
        bad = oracle(c, o)
        if bad:
            n_viol += 1
            if n_viol <= 5:
                violation(ctx, "implementation violates C16: %s" % bad[0][0],
                          {"case": c, "failures": [b[0] for b in bad][:10],
                           "replay": "echo '<case json>' | build/target/debug/schema"}, found_input=True)
    ctx.oblig("oracle-schema-vs-rows", n_viol == 0, "%d of %d cases violate the property" % (n_viol, len(todo)))
    if rc != 0:
        return

    # 5. model: declared schema
    exprs = []
    for p in PRESETS:
        exprs.append("map (fun n => (n, item_type preset_%s n, dims preset_%s n, event_dim preset_%s n)) (names preset_%s)" % (p, p, p, p))
    for p in PRESETS:
        exprs.append("classification preset_%s" % p)
    vals, err = coq_eval_shards("C16_schema", PRELUDE, exprs, shard_size=3)
    ctx.oblig("model-eval-schema", err is None, err or "")
    if err:
        return
    model_schema = {}
    for p, v in zip(PRESETS, vals[:6]):
        model_schema[p] = [(n, TAGS.get(unsome(t), unsome(t)), unsome(dm), unsome(unsome(ev)) if ev is not None else "PANIC")
                           for (n, t, dm, ev) in v]
    ctx.notes["classification"] = {p: dict((a, b) for a, b in v) for p, v in zip(PRESETS, vals[6:])}
    ndiff = 0
    seen_presets = set()
    for c in todo:
        o = outs[c["id"]]
        sch = o.get("schema")
        if not sch:
            continue
        impl = [(n, t[1], d[1], e[1]) for n, t, d, e in zip(sch["names"], sch["types"], sch["dims"], sch["event_dims"])]
        mod = [(n, t, list(dm) if dm is not None else None, ev) for (n, t, dm, ev) in model_schema[c["preset"]]]
        ctx.evaluations += 1
        seen_presets.add(c["preset"])
        if impl != mod:
            ndiff += 1
            if ndiff <= 2:
                k = next((i for i, (a, b) in enumerate(zip(impl, mod)) if a != b), min(len(impl), len(mod)))
                violation(ctx, "declared schema differs from the model's names/item_type/dims/event_dim of the regenerated declarations "
                               "(preset %s, position %d: implementation %s, model %s)"
                          % (c["preset"], k, impl[k] if k < len(impl) else None, mod[k] if k < len(mod) else None),
                          {"case": c, "implementation": impl, "model": mod,
                           "correspondence": "Settings::stat_* vs model/Derive.v on gen/StorableDecls.v",
                           "theorems_no_longer_tied": ctx.notes.get("theorems", {}).get("C16", [])}, found_input=False)
    ctx.oblig("correspondence-schema", ndiff == 0 and len(seen_presets) == 6, "%d cases differ; presets seen %s" % (ndiff, sorted(seen_presets)))

    # 6. model: rows (get_all on the rebuilt value) and presence
    row_keys = {}   # (preset, tuple of sigs) -> expression index
    pres_keys = {}  # (preset, opts tuple, view) -> expression index
    ids_keys = {}   # tuple of ids -> expression index
    exprs = []
    per_draw = []   # (case, draw index, row key, presence key)
    stats = {"presets": {}, "draws": 0, "divergent": {"logp": 0, "energy": 0, "unknown": 0}, "update_draws": 0,
             "no_update_draws": 0, "dims": {}, "cases_without_draws": 0, "lowrank_inner_updates": 0,
             "flag_combinations": set()}
    for c in todo:
        o = outs[c["id"]]
        draws = good_draws(o)
        if not draws:
            stats["cases_without_draws"] += 1
            continue
        stats["presets"][c["preset"]] = stats["presets"].get(c["preset"], 0) + 1
        stats["dims"][c["dim"]] = stats["dims"].get(c["dim"], 0) + 1
        stats["flag_combinations"].add((c["preset"],) + tuple(c[f] for f in FLAGS))
        ids = tuple(d["id_after"] for d in draws)
        if ids not in ids_keys:
            ids_keys[ids] = len(exprs)
            exprs.append("reports initial_last_id %s" % coq_list([zlit(i) for i in ids]))
        for i, d in enumerate(draws):
            sigs = tuple(entry_sig(e) for e in d["row"])
            rk = (c["preset"], sigs)
            if rk not in row_keys:
                terms = [vt_term(s) for s in sigs]
                if any(t is None for t in terms):
                    row_keys[rk] = None
                else:
                    row_keys[rk] = len(exprs)
                    exprs.append("replay_row preset_%s %s" % (c["preset"], coq_list(terms)))
            per_draw.append((c, i, rk, ids))
    vals, err = coq_eval_shards("C16_rows", PRELUDE, exprs, shard_size=max(1, len(exprs) // 16 + 1))
    ctx.oblig("model-eval-rows", err is None, err or "")
    if err:
        return
    # presence needs the model's update flags first
    exprs2 = []
    pres_of_draw = []
    for (c, i, rk, ids) in per_draw:
        o = outs[c["id"]]
        d = good_draws(o)[i]
        upd = bool(vals[ids_keys[ids]][i])
        cause = cause_of(d)
        inner = bool(d.get("has_inner")) if d.get("has_inner") is not None else False
        view = (cause, upd, inner)
        stats["draws"] += 1
        if cause:
            stats["divergent"][cause] += 1
        stats["update_draws" if upd else "no_update_draws"] += 1
        if upd and inner:
            stats["lowrank_inner_updates"] += 1
        for e in d["row"]:
            if e[0] == "num_eigenvalues" and int(entry_scalar(e) or 0) > 0:
                stats["retained_eigenvalue_rows"] = stats.get("retained_eigenvalue_rows", 0) + 1
                if any(e2[0] == "mass_matrix_eigvals" and e2[1] is not None for e2 in d["row"]):
                    stats["stored_eigvals_with_lowrank_part"] = stats.get("stored_eigvals_with_lowrank_part", 0) + 1
        pk = (c["preset"], tuple(c[f] for f in FLAGS), view)
        if cause == "unknown":
            pres_of_draw.append(None)
            continue
        if pk not in pres_keys:
            pres_keys[pk] = len(exprs2)
            exprs2.append("row_presence preset_%s %s %s" % (c["preset"], opts_term(c), view_term(view)))
        pres_of_draw.append(pk)
    vals2, err = coq_eval_shards("C16_presence", PRELUDE, exprs2, shard_size=max(1, len(exprs2) // 16 + 1))
    ctx.oblig("model-eval-presence", err is None, err or "")
    if err:
        return
    n_row_diff = n_pres_diff = n_ctr_diff = 0
    for (c, i, rk, ids), pk in zip(per_draw, pres_of_draw):
        o = outs[c["id"]]
        d = good_draws(o)[i]
        ctx.evaluations += 1
        # row replay: get_all of the rebuilt value must be the observed row, and it must be well shaped
        observed = [(e[0],) + entry_sig(e) for e in d["row"]]
        idx = row_keys[rk]
        diff = None
        if idx is None:
            diff = "row holds a value type the model has no tag for"
        else:
            rv = unsome(vals[idx])
            if rv is None:
                diff = "model cannot rebuild a value of the declaration from a row of %d entries" % len(observed)
            else:
                ga, shaped, consumed = rv
                mrow = []
                for n, x in ga:
                    x = unsome(x)
                    if x is None:
                        mrow.append((n, False, None, None, None))
                    else:
                        t, ln = x
                        ln = unsome(ln)
                        mrow.append((n, True, TAGS[t], ln is None, ln))
                if mrow != observed:
                    k = next((j for j, (a, b) in enumerate(zip(mrow, observed)) if a != b), min(len(mrow), len(observed)))
                    diff = "model get_all gives %s at position %d, implementation %s" % (
                        mrow[k] if k < len(mrow) else None, k, observed[k] if k < len(observed) else None)
                elif not consumed:
                    diff = "row has more entries than the declaration has fields"
                elif not shaped:
                    diff = "row is not a well-typed value of the declaration (constructor does not fit the Rust type of its field)"
        if diff:
            n_row_diff += 1
            if n_row_diff <= 2:
                violation(ctx, "row/model correspondence broken (get_all): draw %d: %s" % (i, diff),
                          {"case": c, "draw": i, "row": observed, "correspondence": "Stats::get_all vs model/Derive.v get_all",
                           "theorems_no_longer_tied": ["C16_derive_aligned", "C16_presets_aligned", "C16_replayed_rows_aligned"]},
                          found_input=False)
        # presence
        if pk is None:
            n_pres_diff += 1
            if n_pres_diff <= 2:
                violation(ctx, "draw %d diverged with a cause the presence model does not know (message %r)"
                          % (i, stat_scalar(d, "divergence_message")), {"case": c, "draw": i}, found_input=False)
        else:
            pm = [(n, unsome(b)) for n, b in vals2[pres_keys[pk]]]
            po = [(e[0], e[1] is not None) for e in d["row"]]
            if pm != po:
                n_pres_diff += 1
                if n_pres_diff <= 2:
                    k = next((j for j, (a, b) in enumerate(zip(pm, po)) if a != b), min(len(pm), len(po)))
                    violation(ctx, "presence differs from model/Stats.v at draw %d: model %s, implementation %s (view: cause=%s update=%s inner=%s)"
                              % (i, pm[k] if k < len(pm) else None, po[k] if k < len(po) else None, pk[2][0], pk[2][1], pk[2][2]),
                              {"case": c, "draw": i, "model": pm, "implementation": po,
                               "correspondence": "row presence vs model/Stats.v row_presence",
                               "theorems_no_longer_tied": ["C16_event_only_on_event", "C16_identifying_on_every_event",
                                                           "C16_non_event_all_or_none", "C16_update_reported_once"]},
                              found_input=False)
        # counters and identifying values as the model states them
        sdraw = stat_scalar(d, "draw")
        cdiff = None
        if sdraw is None or int(sdraw) != d["draw"] + 1:
            cdiff = "draw statistic %s, Progress.draw %s (model: statistic = Progress.draw + 1)" % (sdraw, d["draw"])
        dd = stat_scalar(d, "divergence_draw")
        if dd is not None and dd != sdraw:
            cdiff = "divergence_draw %s, draw statistic %s" % (dd, sdraw)
        tu = stat_scalar(d, "transformation_update_id")
        if tu is not None and int(tu) != d["id_after"]:
            cdiff = "transformation_update_id %s, transformation id %s" % (tu, d["id_after"])
        sdiv = stat_scalar(d, "diverging")
        if sdiv is None or bool(int(sdiv)) != d["diverging"]:
            cdiff = "diverging statistic %s, Progress.diverging %s" % (sdiv, d["diverging"])
        if d["draw"] != i:
            cdiff = "Progress.draw %s on the %d-th draw" % (d["draw"], i)
        if cdiff:
            n_ctr_diff += 1
            if n_ctr_diff <= 2:
                violation(ctx, "counter correspondence broken at draw %d: %s" % (i, cdiff), {"case": c, "draw": i}, found_input=False)
        # non-trivial: a row pattern seen for this preset/flag combination
        ctx.nontrivial.add(hash((c["preset"], tuple(c[f] for f in FLAGS), c["dim"], tuple(x[1] for x in observed))))
    # the stored id before the first draw
    n_init = 0
    for c in todo:
        o = outs[c["id"]]
        if o.get("set_position") == "ok" and c["preset"] not in ("flow_nuts", "flow_mclmc") and o.get("id_new") != -1:
            n_init += 1
            if n_init <= 1:
                violation(ctx, "transformation id after new_chain is %s, the model's initial_last_id is -1" % o.get("id_new"),
                          {"case": c}, found_input=False)
    ctx.oblig("correspondence-rows-get_all", n_row_diff == 0, "%d draws differ" % n_row_diff)
    ctx.oblig("correspondence-presence", n_pres_diff == 0, "%d draws differ" % n_pres_diff)
    ctx.oblig("correspondence-counters", n_ctr_diff == 0 and n_init == 0, "%d draws differ, %d chains start with another id" % (n_ctr_diff, n_init))
    # coverage of the quantifier: both kinds of divergence, updates and non-updates must have occurred
    stats["flag_combinations"] = len(stats["flag_combinations"])
    cov_ok = (stats["divergent"]["logp"] > 0 and stats["divergent"]["energy"] > 0 and stats["update_draws"] > 0
              and stats["no_update_draws"] > 0 and stats["flag_combinations"] >= 6 * 32 - 8 and len(stats["presets"]) == 6
              and stats.get("stored_eigvals_with_lowrank_part", 0) > 0)
    ctx.oblig("coverage-of-histories", cov_ok, json.dumps(stats))
    stats["distinct_rows_replayed"] = len(row_keys)
    stats["distinct_presence_queries"] = len(pres_keys)
    ctx.notes["input_distribution"] = stats
    for c in todo[:3]:
        o = outs[c["id"]]
        ds = good_draws(o)
        if ds:
            ctx.samples.append({"case": c, "declared_names": o["schema"]["names"],
                                "draw0_presence": [[e[0], e[1] is not None] for e in ds[0]["row"]],
                                "ids": [d["id_after"] for d in ds], "diverging": [d["diverging"] for d in ds]})


TRUSTED = {"C16": [
    "Coq 8.16.1 kernel: coqc full .vo build; vm_compute for the closed obligations on the regenerated declarations and for model evaluation; all C16 theorems are closed under the global context (no axioms)",
    "translator tools/translate_storable.py (hand parser of struct declarations and of the macro's type table; repeats the macro's field classification); its preset instantiation table (PRESETS, anchored by source snippets of sampler.rs and the `type Stats =` lines; tied by the schema comparison with the real stat_names/types/dims/event_dims)",
    "hand-written model coq/model/Derive.v of the code generated by nuts-derive (names/item_type/dims/event_dim/get_all, first-matching-arm semantics) and coq/model/Stats.v (presence rules) - tied to /repo by the correspondence run only; syn's parsing of attribute syntax and rustc's expansion are not modelled",
    "`shaped`: a field of Rust type T holds a Value of the constructor T dictates (Rust typing + the From impls of nuts_storable::Value, table rust_value in Derive.v); checked on every observed row (shapedb)",
    "correspondence harness harness/src/bin/schema.rs (public API + verif_hamiltonian()/transformation_id/verif_params read accessors), TestLogp fault injection, python glue tools/vlib.py, tools/props/schema.py",
    "the cause of a divergence (logp error / energy error) is read from divergence_message; has_inner of the low-rank matrix from verif_params",
]}
ASSUMPTIONS = {"C16": [
    "generic parameters of the statistics structs occur only below #[storable(flatten)] (the translator rejects anything else); Option<generic> fields are not used",
    "dimension sizes: only `unconstrained_parameter` (= dim) occurs in the sampler statistics",
    "MCLMC presets are run with dim >= 2 (ESH dynamics panics with an explicit message below that); NUTS presets with dim in {0,1,2,5}",
    "the statistics `draw` is the chain's draw counter after the draw (Progress.draw + 1); the property only asks for +1 per draw",
    "event statistics other than the identifying ones may be absent on event draws (divergence_momentum is never produced: DivergenceInfo.start_momentum is None at both construction sites; divergence_end / divergence_energy_error only for energy-error divergences; mass_matrix_eigvals only when a low-rank part exists)",
]}
RULE = {"C16": "cases: 6 presets x all 32 combinations of store_gradient/store_unconstrained/store_transformed/store_divergences/store_mass_matrix x dims (NUTS {0,1,2,5}, MCLMC {2,5}; thorough: eight seeds each, half of them with num_tune in {30,45,60}) with use_grad_based_estimate alternating, seeded num_tune in {0,6,10,14,20}, window/update frequencies small enough for several transformation updates, strongly correlated Gaussians (covariance I + a 11^T) for the low-rank presets with store_mass_matrix so that eigenvalues are retained, fault scripts (none / region recoverable / region energy / region NaN / scripted single evaluations of both kinds); per case the declared schema and every draw's full row are compared with the model (schema: names/item_type/dims/event_dim of the regenerated declarations; row: get_all of the rebuilt value + shape check; presence: Stats.v row_presence on the view derived from message, logged ids through the model's `reports`, has_inner); oracle per row from the property text; non-trivial = distinct (preset, flags, dim, presence pattern)"}
