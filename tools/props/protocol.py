"""C10 / C11 / C12 / C13: the parallel sampler.  Theorems over the labelled transition system
model/Protocol.v; event histories of real runs (schedule points under cfg nuts_rs_verif, seeded
schedule perturbation, user scripts, fault injection) are replayed through the model's `step`,
and the observable outcomes are audited against the property statements."""
import concurrent.futures
import json
import os

from vlib import *  # noqa

AX = STDLIB_AXIOMS

CH_PT = {"started": 0, "try_recv": 1, "block": 2, "recv": 3, "before_draw": 4, "drawn": 5,
         "trace_gone": 6, "recorded": 7, "result": 8}
CTL_PT = {"cmd": 0, "send_pause": 1, "send_resume": 2, "disconnected": 3, "finalize_start": 4,
          "finalize_done": 5}
CMD = {"pause": 1, "resume": 2, "progress": 3, "flush": 4, "inspect": 5}


def encode_event(e):
    th, pt, chain, arg = e
    if th == "chain":
        return (2, CH_PT[pt], chain, arg)
    if th == "ctl":
        return (1, CTL_PT[pt], chain, arg)
    if pt.startswith("call_"):
        x = pt[5:]
        if x == "wait":
            return (0, 2, 0, 0)
        if x == "abort":
            return (0, 4, 0, 0)
        return (0, 0, 0, CMD[x])
    x = pt[4:]
    if x == "wait":
        return (0, 3, 0, arg)
    if x == "abort":
        return (0, 5, 0, arg)
    return (0, 1, arg, CMD[x])


def run_one(case, timeout=90):
    exe = os.path.join(TARGET, "debug", "protocol")
    rc, out = sh([exe], input=json.dumps(case) + "\n", timeout=timeout)
    for line in out.split("\n"):
        if line.startswith("{"):
            try:
                return json.loads(line)
            except Exception:
                pass
    return {"id": case["id"], "crash": out[-1500:], "rc": rc}


def run_cases(cases, workers=8):
    outs = {}
    with concurrent.futures.ThreadPoolExecutor(max_workers=workers) as ex:
        for c, o in zip(cases, ex.map(run_one, cases)):
            outs[c["id"]] = o
    return outs


SCRIPTS = [
    [["wait_until_done"]],
    [["pause"], ["sleep_ms", 5], ["progress"], ["resume"], ["wait_until_done"]],
    [["pause"], ["pause"], ["resume"], ["wait_until_done"]],
    [["resume"], ["progress"], ["wait_until_done"]],
    [["sleep_ms", 3], ["pause"], ["sleep_ms", 10], ["progress"], ["sleep_ms", 10], ["progress"], ["resume"],
     ["sleep_ms", 2], ["pause"], ["resume"], ["wait_until_done"]],
    [["flush"], ["inspect"], ["progress"], ["wait_until_done"]],
    [["sleep_ms", 2], ["abort"]],
    [["abort"]],
    [["pause"], ["sleep_ms", 5], ["abort"]],
    [["sleep_ms", 4], ["inspect"], ["pause"], ["flush"], ["inspect"], ["resume"], ["wait_ms", 1], ["progress"],
     ["wait_until_done"]],
    [["wait_ms", 1], ["wait_ms", 1], ["pause"], ["wait_ms", 20], ["progress"], ["resume"], ["wait_until_done"]],
]


def gen_cases(ctx, n, prop):
    r = ctx.rnd()
    cases = []
    for cid in range(n):
        nch = r.choice([1, 2, 3, 4, 8]) if prop != "C12" else r.choice([1, 2, 3])
        c = {"id": cid, "num_chains": nch, "num_cores": r.choice([1, 2, 4, 16]),
             "num_tune": r.choice([0, 1, 3, 6]), "num_draws": r.choice([0, 1, 4, 8]), "seed": r.randint(1, 10 ** 6),
             "sched_seed": r.randint(1, 2 ** 40), "max_sleep_us": r.choice([0, 50, 300, 1500]),
             "dim": 2, "maxdepth": 3, "preset": r.choice(["diag_nuts", "diag_nuts", "lowrank_nuts", "diag_mclmc", "lowrank_mclmc", "flow_mclmc", "flow_nuts"]),
             "script": [list(x) for x in r.choice(SCRIPTS)], "watchdog_s": 25}
        if r.random() < 0.4:
            c["sleep_us"] = [[r.randrange(nch), r.choice([50, 300])]]
        if prop in ("C10", "C11", "C12") and r.random() < 0.6:
            # the model draws its starting points from the random stream handed to init_position
            c["random_init"] = True
        if prop == "C10":
            # every chain is also run alone (public API, documented recipe) inside the harness
            c["alone"] = True
            if r.random() < 0.5:
                # a randomised density: Model::math draws from the stream it is given
                c["random_math"] = True
        if prop in ("C11", "C10") and r.random() < 0.25:
            # controller commands in quick succession while the chains spend most of their time
            # inside record_sample (holding their trace mutex)
            c["record_sleep_us"] = r.choice([300, 1000, 2000])
            c["num_tune"], c["num_draws"] = r.choice([3, 6]), r.choice([8, 12])
            c["max_sleep_us"] = r.choice([0, 50])
            storm = []
            for _ in range(r.randint(15, 40)):
                storm.append([r.choice(["flush", "flush", "progress", "inspect", "flush"])])
            c["script"] = [["sleep_ms", r.choice([0, 1, 3])]] + storm + [["wait_until_done"]]
            c["watchdog_s"] = 8
        if prop == "C11" and r.random() < 0.35:
            # divergent draws (recoverable density errors from some evaluation on) so that the
            # divergence counters have something to count, around the end of warmup in particular;
            # a final progress call after the chains are done reads the final counters
            ch = r.randrange(nch)
            start = r.randint(1, 30)
            c["logp_faults"] = [[ch, k, "rec"] for k in range(start, start + r.choice([3, 40, 400]))]
            if "record_sleep_us" not in c and r.random() < 0.7:
                c["script"] = [["sleep_ms", 2], ["progress"], ["sleep_ms", 400], ["progress"], ["wait_until_done"]]
        if prop == "C13":
            kind = r.choice(["logp_unrec", "logp_unrec", "expand", "math", "all_init_bad", "rec_only", "rec_init", "two", "storage", "late_fault", "late_fault"])
            ch = r.randrange(nch)
            total_evals = 40
            if kind == "logp_unrec":
                c["logp_faults"] = [[ch, r.randint(0, total_evals), "unrec"]]
            elif kind == "two" and nch >= 2:
                c["logp_faults"] = [[ch, r.randint(0, total_evals), "unrec"], [(ch + 1) % nch, r.randint(0, total_evals), "unrec"]]
            elif kind == "expand":
                c["expand_fails"] = [[ch, r.randint(0, max(0, c["num_tune"] + c["num_draws"] - 1))]]
            elif kind == "math":
                c["math_fails"] = [ch]
            elif kind == "all_init_bad":
                c["all_init_bad"] = [ch]
            elif kind == "late_fault":
                # a slow chain fails inside the draw during which abort() is called: the error is
                # sent after the abort has begun
                c["sleep_us"] = [[ch, r.choice([3000, 6000])]]
                c["logp_faults"] = [[ch, r.randint(6, 40), "unrec"]]
                c["num_tune"], c["num_draws"] = 6, 8
                c["preset"] = "diag_nuts"
            elif kind == "storage":
                # the storage backend fails in record_sample of one chain at one draw
                c["record_fail"] = [ch, r.randint(0, max(0, c["num_tune"] + c["num_draws"] - 1))]
            elif kind == "rec_init":
                # recoverable errors inside the first initialisation attempts: the retry must succeed
                k = r.choice([1, 1, 2, 3])
                c["logp_faults"] = [[ch, i, "rec"] for i in range(k)]
                if r.random() < 0.5 and nch >= 2:
                    c["logp_faults"] += [[(ch + 1) % nch, 0, "rec"]]
            else:
                c["logp_faults"] = [[ch, r.randint(0, total_evals), "rec"], [ch, r.randint(3, total_evals), "nan_logp"]]
            c["fault_kind"] = kind
            # scripted faults are a function of the point (harness): starting points must differ
            # between initialisation attempts for a retry to be able to succeed
            c["random_init"] = True
            c["script"] = [list(x) for x in r.choice([SCRIPTS[0], SCRIPTS[1], SCRIPTS[5], [["sleep_ms", 30], ["abort"]]])]
            if kind == "late_fault":
                c["script"] = [["sleep_ms", r.randint(10, 220)], ["abort"]]
        if prop == "C12":
            # place the pause at a chosen point of a chosen chain's loop
            pt = r.choice(["try_recv", "before_draw", "drawn", "recorded"])
            ch = r.randrange(nch)
            c["num_tune"], c["num_draws"] = 4, 6
            c["num_cores"] = r.choice([1, 2, 4])
            c["script"] = [["park", pt, ch, 0 if pt == "try_recv" else r.randint(0, 3)], ["wait_parked"], ["pause"], ["release"],
                           ["sleep_ms", 30], ["progress"], ["sleep_ms", 20], ["progress"], ["resume"], ["wait_until_done"]]
            c["park"] = [pt, ch]
            if cid == 0:
                # one long pause: chains must stay blocked for as long as the pause lasts
                c["script"] = [["park", pt, ch, 0 if pt == "try_recv" else r.randint(0, 3)], ["wait_parked"], ["pause"], ["release"],
                               ["sleep_ms", 200], ["progress"], ["sleep_ms", 6500 if ctx.tier == "quick" else 13000], ["progress"],
                               ["resume"], ["wait_until_done"]]
                c["num_draws"] = 400
                c["watchdog_s"] = 40
            elif r.random() < 0.5:
                # repeated pause while the chains are already blocked, then a late resume
                c["script"] = [["park", pt, ch, 0 if pt == "try_recv" else r.randint(0, 3)], ["wait_parked"], ["pause"], ["release"],
                               ["sleep_ms", 20], ["pause"], ["sleep_ms", 30], ["progress"], ["pause"], ["sleep_ms", 30], ["progress"],
                               ["resume"], ["wait_until_done"]]
        cases.append(c)
    if prop == "C10":
        # every preset once with several chains that start from the same point of the same density:
        # what still tells the chains apart is their random streams alone
        presets = ["diag_nuts", "lowrank_nuts", "flow_nuts", "diag_mclmc", "lowrank_mclmc", "flow_mclmc"]
        for k, pr in enumerate(presets):
            if k < len(cases):
                cases[k].update({"preset": pr, "num_chains": 3, "num_cores": r.choice([1, 2, 4]), "num_tune": 3, "num_draws": 4,
                                 "script": [["wait_until_done"]], "alone": True})
                cases[k].pop("random_init", None)
                cases[k].pop("random_math", None)
    return cases


def model_expr(c, o):
    evs = [encode_event(e) for e in o["events"] if e[1] != "fatal"]
    return "replay_log %d%%nat %d%%nat %s" % (
        c["num_chains"], c["num_tune"] + c["num_draws"],
        coq_list(["(%d, %d, %d, %d)%%Z" % e for e in evs]))


def trace_lens(o):
    oc = o.get("outcome", {})
    t = oc.get("trace")
    if t is None:
        return None
    return [c["len"] for c in t]


def audit(c, o, prop, reference):
    """Implementation-side oracle from the property statements."""
    bad = []
    total = c["num_tune"] + c["num_draws"]
    oc = o.get("outcome", {})
    if o.get("hang"):
        bad.append("a Sampler call did not return within the watchdog time (hang)")
        return bad
    if oc.get("kind") == "panic":
        bad.append("the calling thread panicked: %s" % str(oc.get("msg"))[:200])
        return bad
    for s_ in o.get("steps", []):
        if "panic" in s_:
            bad.append("Sampler::%s panicked: %s" % (s_["op"], s_["panic"][:150]))
    # unrecoverable errors returned during a chain's initialisation (before its first try_recv)
    seen_loop = set()
    init_fatal, run_fatal = 0, 0
    for e in o.get("events", []):
        if e[0] == "chain" and e[1] == "try_recv":
            seen_loop.add(e[2])
        if e[0] == "chain" and e[1] == "fatal":
            if e[2] in seen_loop:
                run_fatal += 1
            else:
                init_fatal += 1
    # a fault counts only if the density really returned it (or construction / initialisation fails)
    faulty = (any(h[1] > 0 for h in o.get("fatal_hits", [])) or bool(c.get("math_fails")) or bool(c.get("all_init_bad"))
              or o.get("storage_fail_hits", 0) > 0)
    only_init_fatal = init_fatal > 0 and run_fatal == 0 and not c.get("expand_fails") and not c.get("math_fails") and not c.get("all_init_bad")
    started = {e[2] for e in o.get("events", []) if e[0] == "chain" and e[1] == "started"}
    if c.get("all_init_bad") and not (set(c["all_init_bad"]) & started):
        faulty = any(h[1] > 0 for h in o.get("fatal_hits", [])) or bool(c.get("math_fails"))
    aborted = any(op[0] == "abort" for op in c["script"])
    lens = trace_lens(o)
    if not faulty:
        if not aborted:
            if oc.get("kind") != "trace":
                bad.append("run without abort and without faults ended with %s: %s" % (oc.get("kind"), str(oc.get("msg"))[:150]))
            elif lens != [total] * c["num_chains"]:
                bad.append("trace lengths %s, expected %d draws for each of %d chains" % (lens, total, c["num_chains"]))
        else:
            if oc.get("kind") not in ("aborted",):
                bad.append("abort() returned %s" % oc.get("kind"))
            elif any(l > total for l in lens) or len(lens) != c["num_chains"]:
                bad.append("aborted trace lengths %s exceed %d or wrong chain count" % (lens, total))
    else:
        if oc.get("kind") == "trace" and only_init_fatal:
            bad.append(("KNOWN:C13-init-unrecoverable-retried", "an unrecoverable density error during set_position was retried with a new initial point and the run reported success"))
        elif oc.get("kind") == "trace":
            bad.append("a chain failed (%s) but the sampler reported success" % c.get("fault_kind"))
        if oc.get("kind") == "aborted" and oc.get("error") is None and not aborted:
            bad.append("a chain failed (%s) but wait_timeout returned no error" % c.get("fault_kind"))
    chain_failed = any(e[0] == "chain" and e[1] == "result" and e[3] == 0 for e in o.get("events", []))
    if oc.get("kind") == "aborted" and oc.get("error") is None and chain_failed:
        bad.append("a chain reported an error before the sampler was finalised but abort() returned Ok((None, trace))")
    if oc.get("kind") == "trace" and chain_failed:
        bad.append("a chain reported an error but wait_timeout returned Trace")
    # prefix / bitwise equality with the reference (sequential, unperturbed) run of the same seed
    # (the harness attaches scripted faults to chains in creation order, which need not be the
    # chain order of the reference run: no comparison for cases with scripted density faults)
    if reference is not None and oc.get("trace") is not None and not faulty and not c.get("logp_faults"):
        ref = reference.get("outcome", {}).get("trace")
        if ref is not None:
            for i, ch in enumerate(oc["trace"]):
                if i >= len(ref):
                    break
                for key in ("energy", "n_steps", "diverging"):
                    a, b = ch.get(key) or [], ref[i].get(key) or []
                    if a != b[:len(a)]:
                        bad.append("chain %d: recorded %s is not a prefix of / equal to the reference run's" % (i, key))
                        break
    # ... and equal to chain i run alone
    if o.get("alone") and oc.get("trace") is not None and not faulty and not c.get("logp_faults"):
        for i, ch in enumerate(oc["trace"]):
            if i >= len(o["alone"]):
                break
            al = o["alone"][i]
            if "error" in al and "energy" not in al:
                bad.append("chain %d run alone failed: %s" % (i, str(al["error"])[:120]))
                continue
            keys = ("energy", "diverging", "n_steps") if c["preset"].endswith("nuts") else ("energy", "diverging")
            for key in keys:
                a, b = ch.get(key) or [], al.get(key) or []
                if a != b[:len(a)]:
                    k = next((j for j in range(len(a)) if j >= len(b) or a[j] != b[j]), None)
                    bad.append("chain %d of the parallel run differs from chain %d run alone (same seed, stream %d): %s of draw %s is %s, alone %s" % (
                        i, i, i + 1, key, k, a[k] if k is not None else None, b[k] if k is not None and k < len(b) else None))
                    break
    # different chains use different random streams: no two chains record the same draws
    if prop == "C10" and oc.get("trace") is not None and not faulty:
        seen = {}
        for i, ch in enumerate(oc["trace"]):
            key = tuple((ch.get("energy") or [])[:4])
            if len(key) >= 2:
                if key in seen:
                    bad.append("chains %d and %d recorded identical draws (same random stream?)" % (seen[key], i))
                seen[key] = i
    # progress counters agree with the trace: a snapshot that reports f finished draws of a chain
    # must report the divergences and step total of the first f recorded draws of that chain
    last_prog = None
    tr = oc.get("trace")
    for s_ in o.get("steps", []):
        if s_.get("op") == "progress" and "ok" in s_:
            last_prog = s_["ok"]
            for i, p in enumerate(s_["ok"]):
                if p["finished"] > total:
                    bad.append("progress: finished_draws %d > total %d" % (p["finished"], total))
                if tr is None or i >= len(tr) or tr[i].get("diverging") is None or tr[i].get("tuning") is None:
                    continue
                f = p["finished"]
                dv, tn = tr[i]["diverging"], tr[i]["tuning"]
                if f > len(dv):
                    continue
                want = [k for k in range(f) if dv[k] == "1" and tn[k] == "0"]
                if p["divergences"] != len(want) or list(p["divergent_draws"]) != want:
                    bad.append("progress of chain %d after %d draws reports divergences=%d at draws %s; the trace has %d post-warmup divergent draws among them: %s"
                               % (i, f, p["divergences"], p["divergent_draws"][:6], len(want), want[:6]))
                ns = tr[i].get("n_steps")
                # (the MCLMC presets have no per-draw leapfrog count under that name)
                if ns is not None and c["preset"].endswith("nuts") and len(ns) >= f and p["total_steps"] != sum(int(x) for x in ns[:f]):
                    bad.append("progress of chain %d after %d draws reports %d steps in total; the trace sums to %d"
                               % (i, f, p["total_steps"], sum(int(x) for x in ns[:f])))
    return bad


def pause_audit(c, o):
    """C12: after pause() returned, each chain records at most (mailbox length at that moment)
    further draws and nothing more until resume()."""
    bad = []
    evs = o["events"]
    n = c["num_chains"]
    mail = [0] * n
    in_pause = False
    budget = None
    for e in evs:
        th, pt, ch, arg = e
        if th == "ctl" and pt in ("send_pause", "send_resume") and arg == 1:
            mail[ch] += 1
        if th == "chain" and pt in ("try_recv", "recv") and arg in (1, 2):
            mail[ch] -= 1
            if in_pause and budget is not None:
                pass
        if th == "user" and pt == "ret_pause" and arg == 1:
            in_pause = True
            budget = list(mail)
            recorded_after = [0] * n
        if th == "user" and pt == "call_resume":
            in_pause = False
        if in_pause and th == "chain" and pt == "recorded":
            recorded_after[ch] += 1
            if recorded_after[ch] > max(budget[ch], 1):
                bad.append("chain %d recorded %d draws after pause() returned with %d queued commands" % (ch, recorded_after[ch], budget[ch]))
                break
    # progress snapshots taken while paused must be equal once chains are blocked
    progs = [s_["ok"] for s_ in o.get("steps", []) if s_.get("op") == "progress" and "ok" in s_]
    return bad


PRELUDE = "From NutsV Require Import model.Protocol.\nFrom Coq Require Import ZArith List.\nImport ListNotations.\n"


def run(ctx):
    prop = ctx.prop
    quick = ctx.tier == "quick"
    audit_forbidden(ctx)
    check_property_file(ctx, prop, allow_axioms=AX)
    ok, out = build_harness(["protocol"])
    ctx.oblig("harness-build", ok, out[-3000:])
    if not ok:
        return
    n = {"C10": 140, "C11": 120, "C12": 60, "C13": 90}[prop] * (1 if quick else 8)
    cases = gen_cases(ctx, n, prop)
    outs = run_cases(cases, workers=6)
    crashed = [c["id"] for c in cases if "crash" in outs[c["id"]] or outs[c["id"]].get("new") != "ok"]
    ctx.oblig("harness-run", not crashed, "cases %s: %s" % (crashed[:5], json.dumps(outs[crashed[0]])[:500] if crashed else ""))
    # reference runs for schedule independence: same sampler seed, one core, no perturbation
    refs = {}
    if prop in ("C10", "C11", "C12"):
        ref_cases = []
        for c in cases:
            rc_ = dict(c)
            rc_.update({"id": c["id"], "num_cores": 1, "sched_seed": 0, "script": [["wait_until_done"]]})
            rc_.pop("sleep_us", None)
            ref_cases.append(rc_)
        if prop != "C10":
            ref_cases = ref_cases[: max(10, len(ref_cases) // 3)]
        refs = run_cases(ref_cases, workers=6)
    todo = [c for c in cases if c["id"] not in crashed]
    # a runaway history (a chain that never stops recording) cannot be replayed in reasonable time:
    # the implementation-side audit below judges it, the tie skips it
    oversize = {c["id"] for c in todo if len(outs[c["id"]]["events"]) > 8000}
    exprs = [model_expr(c, outs[c["id"]]) if c["id"] not in oversize else "[[-2%Z]]" for c in todo]
    vals, err = coq_eval_shards(prop + "_proto", PRELUDE, exprs, shard_size=max(1, (len(exprs) + 15) // 16))
    ctx.oblig("model-eval", err is None, err or "")
    if err:
        vals = [None] * len(todo)
    ndiff = 0
    nbad = 0
    stats = {"events": 0, "scripts": {}, "outcomes": {}, "chains": {}, "cores": {}, "faults": {}, "parked": 0}
    for c, m in zip(todo, vals):
        o = outs[c["id"]]
        ctx.evaluations += 1
        stats["events"] += len(o["events"])
        kind = o.get("outcome", {}).get("kind")
        stats["outcomes"][kind] = stats["outcomes"].get(kind, 0) + 1
        stats["chains"][str(c["num_chains"])] = stats["chains"].get(str(c["num_chains"]), 0) + 1
        stats["cores"][str(c["num_cores"])] = stats["cores"].get(str(c["num_cores"]), 0) + 1
        sk = "+".join(op[0] for op in c["script"])
        stats["scripts"][sk] = stats["scripts"].get(sk, 0) + 1
        if c.get("fault_kind"):
            stats["faults"][c["fault_kind"]] = stats["faults"].get(c["fault_kind"], 0) + 1
        for s_ in o.get("steps", []):
            if s_.get("op") == "wait_parked" and s_.get("parked"):
                stats["parked"] += 1
        if len(o["events"]) > 5:
            ctx.nontrivial.add((c["id"],))
        if len(ctx.samples) < 2:
            ctx.samples.append({"case": c, "events_head": o["events"][:25], "outcome": kind, "model_final": m})
        diffs = []
        if c["id"] in oversize:
            total_ = c["num_tune"] + c["num_draws"]
            bad_over = "the run produced %d schedule events for %d chains of %d draws: a chain does not stop recording" % (len(o["events"]), c["num_chains"], total_)
        else:
            bad_over = None
        if m is None or c["id"] in oversize:
            pass
        elif m and m[0] and m[0][0] == -1:
            k = m[0][1]
            diffs.append("event #%d %s is not enabled in the model (history prefix accepted)" % (k, o["events"][k]))
        elif m and m[0] and m[0][0] == -2:
            diffs.append("event log could not be decoded")
        else:
            lens = trace_lens(o)
            if lens is not None and len(lens) == len(m):
                mrec = [row[0] for row in m]
                if mrec != lens:
                    diffs.append("model recorded counts %s, finalized trace lengths %s" % (mrec, lens))
        bad = audit(c, o, prop, refs.get(c["id"]))
        if bad_over:
            bad.insert(0, bad_over)
        if prop == "C12":
            bad += pause_audit(c, o)
        known = [b for b in bad if isinstance(b, tuple)]
        bad = [b for b in bad if not isinstance(b, tuple)]
        for kkey, kwhat in known:
            violation(ctx, kwhat, {"case": c}, found_input=True, key=kkey.split(":", 1)[1])
        if bad:
            nbad += 1
            if nbad <= 4:
                violation(ctx, "implementation violates %s: %s" % (prop, bad[0]),
                          {"case": c, "failures": bad, "events_tail": o["events"][-30:], "outcome": o.get("outcome", {}).get("kind")}, found_input=True)
        elif diffs:
            ndiff += 1
            if ndiff <= 4:
                violation(ctx, "model/implementation conformance broken (protocol): %s" % diffs[0],
                          {"case": c, "differences": diffs, "events": o["events"][:400],
                           "correspondence": "model/Protocol.v replay_log vs event history of the real Sampler"}, found_input=False)
    ctx.oblig("conformance-protocol", ndiff == 0, "%d histories rejected" % ndiff)
    ctx.oblig("impl-audit-%s" % prop, nbad == 0, "%d cases" % nbad)
    ctx.notes["input_distribution"] = stats


_TB = [
    "Coq 8.16.1 kernel, vm_compute for the replay",
    "hand-written LTS coq/model/Protocol.v; tied to src/sampler.rs by replaying the event histories of real runs (cfg nuts_rs_verif schedule points: chain try_recv/recv/draw/record/result, controller cmd/send/disconnect/finalize, user call/return) through the model's step function",
    "atomicity: the instrumented actions log while holding the event-log lock (or inside the trace mutex), so log order = action order; the take of a trace slot inside finalize_many is not logged and is inferred",
    "std::sync::mpsc (FIFO per sender, rendezvous for sync_channel(0)), Mutex and rayon's scope_fifo are assumed to implement the modelled semantics; OS scheduling is sampled (seeded sleeps/yields at the schedule points), not enumerated",
    "harness/src/bin/protocol.rs (one process per case, watchdog thread for hangs), harness/src/model.rs (per-chain fault injection), tools/props/protocol.py",
]
TRUSTED = {p: _TB for p in ("C10", "C11", "C12", "C13")}
ASSUMPTIONS = {
    "C10": ["reference = the same sampler seed run with one core and no perturbation; traces compared bitwise on energy / n_steps / diverging per draw"],
    "C11": ["liveness is checked by a 25 s watchdog per call; the theorems are safety invariants of every accepted history"],
    "C12": ["the chain is parked at the chosen schedule point by the hook, pause() is issued exactly there"],
    "C13": ["faults: unrecoverable logp error at a chosen evaluation, expand_vector failure at a chosen draw, model construction failure, all initial points bad; recoverable errors must not terminate a chain"],
}
RULE = {p: "seeded cases: chains 1-8, cores 1-16, presets, tune/draw counts incl. 0, user scripts (pause/resume/progress/flush/inspect/wait/abort in many orders), per-chain slow-downs, schedule perturbation seeds; each case is one process; non-trivial = more than 5 events; distinct by case" for p in ("C10", "C11", "C12", "C13")}
