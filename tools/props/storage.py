"""C14: every storage backend returns exactly what the chains recorded.

Proof: Properties/C14.v over model/Storage.v (token-level models of the HashMap, Arrow, ndarray,
CSV and Zarr backends against the specification `expected`).
Tie: the harness binary `storage` drives REAL sampling runs (all six presets) that record into the
backend under test through a logging wrapper (the recording reference = the exact sequence of
record_sample arguments per chain), then inspects / finalizes and reads the backend's result back
completely.  The Coq models are evaluated on the logged histories and compared with the
read-back; independently the read-back is compared with `expected` computed here straight from
the logged history (implementation-side oracle taken from the property text)."""
import itertools
import json
import os
import struct

from vlib import *  # noqa

AX = STDLIB_AXIOMS

PRESETS = ["diag_nuts", "lowrank_nuts", "flow_nuts", "diag_mclmc", "lowrank_mclmc", "flow_mclmc"]
BACKENDS = ["hashmap", "ndarray", "arrow", "csv", "zarr", "zarr_async"]
TYPES = ["f64", "f32", "i64", "u64", "bool", "string"]
TY_COQ = {"f64": "TF64", "f32": "TF32", "i64": "TI64", "u64": "TU64", "bool": "TBool", "string": "TStr"}
TY_INT = {0: "f64", 1: "f32", 2: "i64", 3: "u64", 4: "bool", 5: "string"}
DIM_SIZES = {"d2": 2, "d3": 3, "d0": 0, "d1": 1}
ND_FILL = {"f64": "0", "f32": "0", "i64": "0", "u64": "0", "bool": "0", "string": "s:"}
Z_FILL = {"f64": "9221120237041090560", "f32": "2143289344", "i64": "0", "u64": "0", "bool": "0", "string": "s:"}
ARROW_DT = {"Float64": "f64", "Float32": "f32", "Int64": "i64", "UInt64": "u64", "Boolean": "bool", "Utf8": "string"}
ZARR_DT = {"float64": "f64", "float32": "f32", "int64": "i64", "uint64": "u64", "bool": "bool", "string": "string"}
CSV_STATS = ["logp", "mean_tree_accept", "step_size", "depth", "n_steps", None, "energy"]
CSV_FIXED = ["lp__", "accept_stat__", "stepsize__", "treedepth__", "n_leapfrog__", "divergent__", "energy__"]


# ------------------------------------------------------------------------------------------------
# cases
# ------------------------------------------------------------------------------------------------
def gen_schema(r, backend, allow_known=True):
    if r.random() < 0.2:
        return None  # the default expanded vector `value` (f64, dims ["dim"])
    nvars = r.randint(1, 4)
    vars_ = []
    used = set()
    for i in range(nvars):
        t = r.choice(TYPES)
        shape = r.choice([[], [], ["d3"], ["d3"], ["d2", "d3"], ["d0"], ["d1"], ["d2", "d2"]])
        if backend.startswith("zarr") and t == "string" and shape and not (allow_known and r.random() < 0.15):
            shape = []
        if backend == "ndarray" and len(shape) >= 2 and not (allow_known and r.random() < 0.15):
            shape = shape[:1]
        name = "v%d" % i
        if r.random() < 0.1:
            name = r.choice(["energy", "logp", "diverging", "x"])
        if name in used:
            name = "v%d" % i
        used.add(name)
        vars_.append([name, t, shape])
    return {"vars": vars_, "dim_sizes": [[k, v] for k, v in DIM_SIZES.items()]}


def gen_cases(ctx, n):
    r = ctx.rnd()
    cases = []

    def add(c):
        c["id"] = len(cases)
        c.setdefault("dim", 2)
        c.setdefault("maxdepth", 3)
        c.setdefault("seed", r.randint(1, 2 ** 31))
        cases.append(c)

    # fixed corpus: every backend x preset, boundary counts for every backend
    counts = [(0, 0), (0, 1), (1, 0), (1, 1), (2, 3), (4, 0), (0, 3), (5, 4)]
    k = 0
    for b in BACKENDS:
        for p in PRESETS:
            nt, nd_ = counts[k % len(counts)]
            k += 1
            add({"backend": b, "preset": p, "num_tune": nt, "num_draws": nd_, "num_chains": 1 + k % 2,
                 "chunk_size": [1, 2, 3, 100][k % 4], "store_divergences": k % 3 == 0,
                 "store_mass_matrix": k % 2 == 0, "store_gradient": k % 4 == 1})
        for nt, nd_ in [(0, 0), (0, 1), (1, 0), (1, 1)]:
            add({"backend": b, "preset": "diag_nuts", "num_tune": nt, "num_draws": nd_, "num_chains": 2,
                 "chunk_size": 2, "schema": gen_schema(r, b, allow_known=False)})
    # the known classes, one witness each (also keeps the routing exercised)
    add({"backend": "zarr", "preset": "diag_nuts", "num_tune": 3, "num_draws": 2, "num_chains": 1, "chunk_size": 2,
         "store_warmup": False})
    add({"backend": "zarr", "preset": "diag_nuts", "num_tune": 1, "num_draws": 1, "num_chains": 1, "chunk_size": 2,
         "schema": {"vars": [["sv", "string", ["d3"]]], "dim_sizes": [["d3", 3]]}})
    add({"backend": "ndarray", "preset": "diag_nuts", "num_tune": 1, "num_draws": 1, "num_chains": 1,
         "schema": {"vars": [["m", "f32", ["d2", "d3"]]], "dim_sizes": [["d3", 3], ["d2", 2]]}})
    while len(cases) < n:
        b = r.choice(BACKENDS)
        p = r.choice(PRESETS)
        nt = r.choice([0, 1, 2, 3, 4, 6, 9])
        nd_ = r.choice([0, 1, 2, 3, 5, 8])
        nch = r.choice([1, 1, 2, 3])
        c = {"backend": b, "preset": p, "num_tune": nt, "num_draws": nd_, "num_chains": nch,
             "dim": r.choice([2, 2, 3]), "maxdepth": r.choice([2, 3, 4]),
             "store_gradient": r.random() < 0.3, "store_unconstrained": r.random() < 0.3,
             "store_transformed": r.random() < 0.2, "store_divergences": r.random() < 0.5,
             "store_mass_matrix": r.random() < 0.5}
        sc = gen_schema(r, b)
        if sc is not None:
            c["schema"] = sc
        if b in ("arrow", "csv", "zarr", "zarr_async"):
            c["store_warmup"] = r.random() < 0.6
        if b.startswith("zarr"):
            c["chunk_size"] = r.choice([1, 2, 3, 5, 100])
            if b == "zarr" and r.random() < 0.2:
                c["store"] = "fs"
        if b == "csv":
            c["precision"] = r.choice([6, 6, 0, 2, 10])
        if r.random() < 0.6:
            c["region_fault"] = [r.choice([0.2, 0.5, 0.9]), r.choice(["rec", "huge_energy", "nan_logp", "inf_grad"])]
        if r.random() < 0.3:
            c["max_energy_error"] = r.choice([0.01, 0.5])
        total = nt + nd_
        mode = r.random()
        if mode < 0.12:
            c["mode"] = "sampler"
            c["num_cores"] = r.choice([1, 2, 4])
            if r.random() < 0.3:
                c["abort_after_ms"] = r.choice([0, 1, 3])
        else:
            if r.random() < 0.35 and total > 0:
                c["abort_after"] = [r.randint(0, total) for _ in range(nch)]
            if r.random() < 0.5:
                c["inspect_at"] = r.randint(0, total)
            elif total > 0 and r.random() < 0.6:
                # flushes in the middle of the run (warmup and sampling phase): what is finally
                # returned must not depend on them
                c["flush_at"] = sorted(set(r.randint(0, total) for _ in range(r.randint(1, 4))))
        add(c)
    return cases


# ------------------------------------------------------------------------------------------------
# Coq encoding
# ------------------------------------------------------------------------------------------------
def cstr(s):
    return '"' + s.replace('"', '""') + '"'


def ctok(t, raw):
    if t == "string":
        return "TS %s" % cstr(raw)
    return "TN (%d)%%Z" % int(raw)


def cval(v):
    t = v["t"]
    return "mkVal %s %s [%s]" % (TY_COQ[t], "true" if v.get("s") else "false",
                                  "; ".join(ctok(t, x) for x in v["v"]))


def centries(es):
    return "[" + "; ".join("(%s, %s)" % (cstr(n), "None" if v is None else "Some (%s)" % cval(v))
                           for n, v in es) + "]"


def crecord(rec):
    return "mkRec %s %s %s" % ("true" if rec["t"] else "false", centries(rec["s"]), centries(rec["d"]))


def cfield(f, sizes):
    name, t, dims, ev = f[0], f[1], f[2], f[3]
    return "mkField %s %s [%s] %s" % (cstr(name), TY_COQ[t], "; ".join(str(sizes[d]) for d in dims),
                                      "None" if ev is None else "(Some %s)" % cstr(ev))


def cschema(schema):
    ss = dict(map(tuple, schema["stat_dim_sizes"]))
    ds = dict(map(tuple, schema["draw_dim_sizes"]))
    return "mkSchema [%s] [%s]" % ("; ".join(cfield(f, ss) for f in schema["stats"]),
                                   "; ".join(cfield(f, ds) for f in schema["draws"]))


def model_expr(c, o, chain, hist, k_inspect):
    b = c["backend"]
    sw = "true" if c.get("store_warmup", True) else "false"
    total = o["schema"]["hint_tune"] + o["schema"]["hint_draws"]
    cs = c.get("chunk_size", 100)
    h = "[" + "; ".join(crecord(r) for r in hist) + "]"
    if b == "hashmap":
        fin, ins = "hm_out sc h", "hm_out sc (firstn k h)"
    elif b == "arrow":
        fin, ins = "ar_out %s sc h" % sw, "ar_out %s sc (firstn k h)" % sw
    elif b == "ndarray":
        fin = "(nd_out %d sc h, nd_first_failure (nd_init %d sc) h 0)" % (total, total)
        ins = "nd_out %d sc (firstn k h)" % total
    elif b == "csv":
        fin, ins = "csv_out %s sc h" % sw, "0"
    else:
        fin, ins = "z_out %d sc h" % cs, "z_inspect_out %d sc (firstn k h)" % cs
    if k_inspect is None:
        ins = "0"
        k_inspect = 0
    return "let sc := %s in let h := %s in let k := %d in (Some (wf_out sc h), Some (%s), Some (%s))" % (
        cschema(o["schema"]), h, k_inspect, fin, ins)


# ------------------------------------------------------------------------------------------------
# canonical forms
# ------------------------------------------------------------------------------------------------
def tk(t, raw):
    """canonical token"""
    return ("s:" + raw) if t == "string" else str(int(raw))


def mtok(t, p):
    """token printed by the model: (z, "") or (-1, s)"""
    z, s = p
    return ("s:" + s) if t == "string" else str(int(z))


def val_tokens(v):
    return [tk(v["t"], x) for x in v["v"]]


def sizes_of(schema, kind):
    return dict(map(tuple, schema["stat_dim_sizes" if kind == "stats" else "draw_dim_sizes"]))


def field_len(f, sizes):
    n = 1
    for d in f[2]:
        n *= sizes[d]
    return n


def is_skip(name):
    return name in ("draw", "chain")


def kept(hist, sw):
    return [r for r in hist if sw or not r["t"]]


def lookup(rec, kind, name):
    for n, v in rec["s" if kind == "stats" else "d"]:
        if n == name:
            return v
    return None


def present(hist, kind, name):
    out = []
    for r in hist:
        v = lookup(r, kind, name)
        if v is not None:
            out.append(v)
    return out


def tuning_prefix(hist):
    flags = [r["t"] for r in hist]
    return flags == sorted(flags, reverse=True)


def bits2f64(b):
    return struct.unpack("<d", struct.pack("<Q", int(b)))[0]


def bits2f32(b):
    return struct.unpack("<f", struct.pack("<I", int(b)))[0]


def csv_fmt(t, tok, prec):
    if t == "f64" or t == "f32":
        x = bits2f64(tok) if t == "f64" else bits2f32(tok)
        if x != x:
            return "NA"
        if x in (float("inf"), float("-inf")):
            return "Inf" if x > 0 else "-Inf"
        return "%.*f" % (prec, x)
    if t == "string":
        return tok[2:] if tok.startswith("s:") else tok
    return str(int(tok))


# ------------------------------------------------------------------------------------------------
# per-backend comparison: returns (conformance differences, property failures [(key|None, text)])
# ------------------------------------------------------------------------------------------------
def cmp_hashmap(c, o, chain, hist, model, real):
    diffs, bad = [], []
    schema = o["schema"]
    if real is None:
        return ["no read-back"], bad
    if chain >= len(real["chains"]):
        return ["chain %d missing in the result" % chain], [(None, "chain %d missing in the finalized trace" % chain)]
    rc = real["chains"][chain]
    canon_real = {k: {n: (v["t"], [tk(v["t"], x) for x in v["v"]]) for n, v in rc[k].items()} for k in ("stats", "draws")}
    if model is None:
        diffs.append("model predicts a panic, backend finalized")
    else:
        m = model
        canon_model = {}
        for k, lst in (("stats", m[0]), ("draws", m[1])):
            canon_model[k] = {e[0]: (TY_INT[e[1]], [mtok(TY_INT[e[1]], p) for p in e[2]]) for e in lst}
        if canon_model != canon_real:
            for k in ("stats", "draws"):
                for n in set(canon_model[k]) | set(canon_real[k]):
                    if canon_model[k].get(n) != canon_real[k].get(n):
                        diffs.append("%s/%s: model %s real %s" % (k, n, str(canon_model[k].get(n))[:150], str(canon_real[k].get(n))[:150]))
                        break
    # oracle
    for k in ("stats", "draws"):
        names = [f[0] for f in schema[k]]
        if set(names) != set(canon_real[k]):
            bad.append((None, "%s keys %s differ from the schema %s" % (k, sorted(canon_real[k]), sorted(names))))
            continue
        for f in schema[k]:
            n, t = f[0], f[1]
            exp = [] if is_skip(n) else [x for v in present(hist, k, n) for x in val_tokens(v)]
            if canon_real[k][n] != (t, exp):
                bad.append((None, "chain %d %s/%s: read back %s, recorded %s" % (chain, k, n, str(canon_real[k][n])[:200], str((t, exp))[:200])))
    return diffs, bad


def arrow_batch_canon(b):
    cols = []
    for col in b["cols"]:
        dt = col["dtype"]
        tensor = dt.startswith("LargeList")
        inner = dt[dt.index("(") + 1:-1].replace("non-null ", "") if tensor else dt
        t = ARROW_DT.get(inner, "?" + dt)
        rows = [None if r is None else [tk(t, x) for x in r] for r in col["rows"]]
        cols.append((col["name"], t, tensor, rows))
    return b["nrows"], cols


def cmp_arrow(c, o, chain, hist, model, real):
    diffs, bad = [], []
    schema = o["schema"]
    sw = c.get("store_warmup", True)
    if real is None or chain >= len(real["chains"]):
        return ["no read-back for chain %d" % chain], [(None, "chain %d missing in the Arrow trace" % chain)]
    rc = real["chains"][chain]
    rs, rd = arrow_batch_canon(rc["stats"]), arrow_batch_canon(rc["draws"])
    if model is None:
        diffs.append("model predicts an error, backend finalized")
    else:
        cnt, ms, md = model
        for label, mcols, (nrows, rcols) in (("stats", ms, rs), ("draws", md, rd)):
            mc = [(e[0], TY_INT[e[1]], e[2], [None if r is None else [mtok(TY_INT[e[1]], p) for p in r[1]] for r in e[3]]) for e in mcols]
            if nrows != cnt:
                diffs.append("%s: num_rows %d, model draw_count %d" % (label, nrows, cnt))
            if mc != rcols:
                for a, b_ in itertools.zip_longest(mc, rcols):
                    if a != b_:
                        diffs.append("%s column: model %s real %s" % (label, str(a)[:200], str(b_)[:200]))
                        break
    # oracle
    kp = kept(hist, sw)
    for k, (nrows, rcols), raw in (("stats", rs, rc["stats"]), ("draws", rd, rc["draws"])):
        if nrows != len(kp):
            bad.append((None, "chain %d %s: %d rows for %d stored draws" % (chain, k, nrows, len(kp))))
        if [x[0] for x in rcols] != [f[0] for f in schema[k]]:
            bad.append((None, "%s columns %s differ from the schema" % (k, [x[0] for x in rcols])))
            continue
        sizes = sizes_of(schema, k)
        for f, col, rawcol in zip(schema[k], rcols, raw["cols"]):
            n, t, dims, ev = f[0], f[1], f[2], f[3]
            exp = [None if lookup(r, k, n) is None else val_tokens(lookup(r, k, n)) for r in kp]
            if col[1] != t or col[2] != bool(dims):
                bad.append((None, "%s/%s declared %s%s, column is %s" % (k, n, t, dims, rawcol["dtype"])))
            if col[3] != exp:
                bad.append((None, "chain %d %s/%s: rows %s, recorded %s" % (chain, k, n, str(col[3])[:200], str(exp)[:200])))
            meta = dict(map(tuple, rawcol["meta"]))
            want = {}
            if dims:
                want["dims"] = ",".join(dims)
                want["shape"] = ",".join(str(sizes[d]) for d in dims)
            if ev is not None:
                want["event_dim"] = ev
            if meta != want:
                bad.append((None, "%s/%s metadata %s, declared %s" % (k, n, meta, want)))
            if dims:
                ln = field_len(f, sizes)
                if any(r is not None and len(r) != ln for r in col[3]):
                    bad.append((None, "%s/%s: a row does not have the declared %d items" % (k, n, ln)))
    return diffs, bad


def nd_chain_rows(arr, chain):
    shape = arr["shape"]
    rowlen = 1
    for s_ in shape[2:]:
        rowlen *= s_
    total = shape[1]
    base = chain * total * rowlen
    t = arr["t"]
    return [[tk(t, x) for x in arr["v"][base + i * rowlen: base + (i + 1) * rowlen]] for i in range(total)]


def cmp_ndarray(c, o, chain, hist, model, real):
    diffs, bad = [], []
    schema = o["schema"]
    total = schema["hint_tune"] + schema["hint_draws"]
    nch = schema["num_chains"]
    if real is None:
        return ["no read-back"], bad
    canon_real = {k: {n: (v["t"], nd_chain_rows(v, chain)) for n, v in real[k].items()} for k in ("stats", "draws")}
    if model is None:
        diffs.append("model predicts an error, backend accepted every record")
    else:
        m = model
        canon_model = {}
        for k, lst in (("stats", m[0]), ("draws", m[1])):
            canon_model[k] = {e[0]: (TY_INT[e[1]], [[mtok(TY_INT[e[1]], p) for p in row] for row in e[2]]) for e in lst}
        if canon_model != canon_real:
            for k in ("stats", "draws"):
                for n in set(canon_model[k]) | set(canon_real[k]):
                    if canon_model[k].get(n) != canon_real[k].get(n):
                        diffs.append("%s/%s: model %s real %s" % (k, n, str(canon_model[k].get(n))[:200], str(canon_real[k].get(n))[:200]))
                        break
    for k in ("stats", "draws"):
        sizes = sizes_of(schema, k)
        names = [f[0] for f in schema[k] if not is_skip(f[0])]
        if set(names) != set(real[k]):
            bad.append((None, "%s arrays %s differ from the schema" % (k, sorted(real[k]))))
            continue
        for f in schema[k]:
            n, t, dims, ev = f[0], f[1], f[2], f[3]
            if is_skip(n):
                continue
            arr = real[k][n]
            if arr["t"] != t or arr["shape"] != [nch, total] + [sizes[d] for d in dims]:
                bad.append((None, "%s/%s: array %s%s, declared %s %s" % (k, n, arr["t"], arr["shape"], t, [nch, total] + [sizes[d] for d in dims])))
                continue
            rows = canon_real[k][n][1]
            ln = field_len(f, sizes)
            fillrow = [ND_FILL[t]] * ln
            exp = [val_tokens(v) for v in present(hist, k, n)]
            dense = [fillrow if lookup(r, k, n) is None else val_tokens(lookup(r, k, n)) for r in hist]
            if rows[:len(hist)] != dense or any(r != fillrow for r in rows[len(hist):]):
                bad.append((None, "chain %d %s/%s: rows %s are not the per-draw values %s" % (chain, k, n, str(rows)[:200], str(dense)[:200])))
            elif len(exp) != len(hist):
                # absent on some draws (event statistic / switched off): the property asks for exactly
                # the values that occurred
                bad.append(("C14-ndarray-events-dense", "ndarray stores %s/%s as one entry per draw (default value where the statistic was absent): %d entries for %d recorded values" % (k, n, len(rows), len(exp))))
    return diffs, bad


def csv_header_names(schema):
    sizes = sizes_of(schema, "draws")
    cols = []
    for f in schema["draws"]:
        n, t, dims = f[0], f[1], f[2]
        if t not in ("f64", "f32", "i64", "u64"):
            continue
        if not dims:
            cols.append((n, n, 0))
        else:
            shp = [sizes[d] for d in dims]
            for lin, idx in enumerate(itertools.product(*[range(s_) for s_ in shp])):
                cols.append(("%s.%s" % (n, ".".join(str(i + 1) for i in idx)), n, lin))
    return cols


def cmp_csv(c, o, chain, hist, model, real):
    diffs, bad = [], []
    schema = o["schema"]
    sw = c.get("store_warmup", True)
    prec = c.get("precision", 6)
    text = real["chains"][chain] if real else None
    if text is None:
        return ["no file for chain %d" % chain], [(None, "chain_%d.csv missing" % chain)]
    lines = text.split("\n")
    if lines and lines[-1] == "":
        lines = lines[:-1]
    elif text != "":
        bad.append((None, "file does not end with a newline"))
    hdr, rows = model
    mlines = []
    if hdr is not None:
        mlines.append(",".join(hdr[1]))
    for row in rows:
        cells = []
        for tcode, (z, s) in row:
            if tcode == -1:
                cells.append(s)
            else:
                t = TY_INT[tcode]
                cells.append(csv_fmt(t, mtok(t, (z, s)), prec))
        mlines.append(",".join(cells))
    if mlines != lines:
        for i, (a, b_) in enumerate(itertools.zip_longest(mlines, lines)):
            if a != b_:
                diffs.append("line %d: model %r file %r" % (i, a, b_))
                break
    # oracle: per column, the recorded values at the printed precision
    kp = kept(hist, sw)
    cols = csv_header_names(schema)
    if not kp:
        if lines:
            bad.append((None, "no stored draw but the file has %d lines" % len(lines)))
        return diffs, bad
    want_hdr = CSV_FIXED + [x[0] for x in cols]
    if not lines or lines[0].split(",") != want_hdr:
        bad.append((None, "header %r, expected %r" % (lines[:1], want_hdr)))
        return diffs, bad
    data = [l.split(",") for l in lines[1:]]
    if len(data) != len(kp):
        bad.append((None, "chain %d: %d data rows for %d stored draws" % (chain, len(data), len(kp))))
        return diffs, bad
    for j, sn in enumerate(CSV_STATS):
        for r, row in zip(kp, data):
            if sn is None:
                v = lookup(r, "stats", "diverging")
                want = "1" if (v is not None and v["v"] == ["1"]) else "0"
            else:
                v = lookup(r, "stats", sn)
                want = "NA" if v is None else csv_fmt(v["t"], tk(v["t"], v["v"][0]), prec)
            if row[j] != want:
                bad.append((None, "chain %d column %s: %r, recorded %r" % (chain, CSV_FIXED[j], row[j], want)))
                break
    for j, (cn, vn, lin) in enumerate(cols):
        for r, row in zip(kp, data):
            v = lookup(r, "draws", vn)
            want = csv_fmt(v["t"], tk(v["t"], v["v"][lin]), prec)
            if row[7 + j] != want:
                bad.append((None, "chain %d column %s: %r, recorded %r" % (chain, cn, row[7 + j], want)))
                break
    return diffs, bad


ZGROUPS = [("warmup_sample_stats", "stats", True), ("sample_stats", "stats", False),
           ("warmup_posterior", "draws", True), ("posterior", "draws", False)]


def zarr_rows(arr, chain, t):
    shape = arr["shape"]
    rowlen = 1
    for s_ in shape[2:]:
        rowlen *= s_
    n = shape[1]
    base = chain * n * rowlen
    return [[tk(t, x) for x in arr["v"][base + i * rowlen: base + (i + 1) * rowlen]] for i in range(n)]


def cmp_zarr(c, o, hists, models, real, final=True):
    """all chains at once (array lengths depend on every chain)"""
    diffs, bad = [], []
    schema = o["schema"]
    nch = schema["num_chains"]
    sw = c.get("store_warmup", True)
    nt, nd_ = schema["hint_tune"], schema["hint_draws"]
    if real is None:
        return ["no read-back"], bad
    mvals = models
    if any(m is None for m in mvals):
        return ["model predicts a panic for a chain, backend accepted every record"], bad
    mcols = []   # per chain: kind -> name -> (warm rows, samp rows) raw model tokens
    mcounts = []
    for m in mvals:
        st, dr, cnts = m
        mcols.append({"stats": {e[0]: (e[1], e[2]) for e in st}, "draws": {e[0]: (e[1], e[2]) for e in dr}})
        mcounts.append({e[0]: (e[1][0], e[1][1]) for e in cnts})
    for g, k, warm in ZGROUPS:
        sizes = sizes_of(schema, k)
        for f in schema[k]:
            n, t, dims, ev = f[0], f[1], f[2], f[3]
            arr = real["groups"][g].get(n)
            if is_skip(n):
                if arr is not None and "missing" not in arr:
                    bad.append((None, "%s/%s exists" % (g, n)))
                continue
            if arr is None or "missing" in arr or "error" in arr:
                bad.append((None, "%s/%s cannot be read: %s" % (g, n, str(arr)[:200])))
                continue
            ln = field_len(f, sizes)
            fillrow = [Z_FILL[t]] * ln
            # ---- conformance with the model
            if final and ev is not None:
                n_model = max([mc.get(ev, (0, 0))[0 if warm else 1] for mc in mcounts] + [0])
            else:
                n_model = nt if warm else nd_
            if arr["shape"][1] != n_model:
                diffs.append("%s/%s: length %d, model %d" % (g, n, arr["shape"][1], n_model))
            # ---- declared type and shape
            if ZARR_DT.get(arr["dtype"].split(" ")[0]) != t:
                bad.append((None, "%s/%s dtype %s, declared %s" % (g, n, arr["dtype"], t)))
            if arr["shape"][0] != nch or arr["shape"][2:] != [sizes[d] for d in dims]:
                bad.append((None, "%s/%s shape %s, declared chains %d and %s" % (g, n, arr["shape"], nch, dims)))
                continue
            want_dims = ["chain", ev if ev is not None else "draw"] + list(dims)
            if arr["dims"] != want_dims:
                bad.append((None, "%s/%s dimension names %s, expected %s" % (g, n, arr["dims"], want_dims)))
            N = arr["shape"][1]
            for ch in range(nch):
                rows = zarr_rows(arr, ch, t)
                mw, ms = mcols[ch][k][n]
                mrows = [[mtok(t, p) for p in row] for row in (mw if warm else ms)]
                mread = (mrows + [fillrow] * max(0, N - len(mrows)))[:N]
                if not final and c["backend"] == "zarr_async":
                    # queued chunk writes may still be pending at an inspect (joined only by flush /
                    # finalize, C15): every visible row is the model's row or still the fill value
                    if len(rows) != len(mread) or any(a != b_ and a != fillrow for a, b_ in zip(rows, mread)):
                        diffs.append("%s/%s chain %d (async, pending writes allowed): store %s, model %s" % (g, n, ch, str(rows)[:200], str(mread)[:200]))
                elif rows != mread:
                    diffs.append("%s/%s chain %d: store %s, model %s" % (g, n, ch, str(rows)[:200], str(mread)[:200]))
                # ---- oracle
                part = [r for r in hists[ch] if r["t"] == warm]
                exp = [val_tokens(v) for v in present(part, k, n)]
                if not final:
                    # inspect without flush: a prefix of the recorded values, fill values after it
                    # (async: any subset of the complete chunks may already be written)
                    if c["backend"] == "zarr_async":
                        okp = all(r == fillrow or (i < len(exp) and r == exp[i]) for i, r in enumerate(rows))
                    else:
                        j = 0
                        while j < min(len(rows), len(exp)) and rows[j] == exp[j]:
                            j += 1
                        okp = not any(r != fillrow for r in rows[j:])
                    if not okp:
                        bad.append((None, "inspect: %s/%s chain %d shows %s which is not a prefix of the recorded %s" % (g, n, ch, str(rows)[:200], str(exp)[:200])))
                    continue
                if warm and not sw and exp:
                    bad.append(("C14-zarr-store-warmup-ignored", "store_warmup(false): %s/%s holds %d warmup values" % (g, n, len(exp))))
                if ev is None:
                    declared = nt if warm else nd_
                    if N != declared:
                        bad.append((None, "%s/%s length %d, declared %d" % (g, n, N, declared)))
                    if rows[:len(exp)] != exp or any(r != fillrow for r in rows[len(exp):]):
                        bad.append((None, "%s/%s chain %d: %s, recorded %s" % (g, n, ch, str(rows)[:200], str(exp)[:200])))
                else:
                    # events of this chain / dimension: the largest count among the dimension's fields
                    cnt_dim = [max([len(present([r for r in hists[x] if r["t"] == warm], "stats", f2[0]))
                                    for f2 in schema["stats"] if f2[3] == ev] + [0]) for x in range(nch)]
                    if N < len(exp):
                        bad.append((None, "%s/%s chain %d: %d events recorded, array length %d (events lost)" % (g, n, ch, len(exp), N)))
                    elif N > max(cnt_dim):
                        bad.append((None, "%s/%s: array length %d exceeds the largest number of %s events %d (phantom events)" % (g, n, N, ev, max(cnt_dim))))
                    elif rows[:len(exp)] != exp or any(r != fillrow for r in rows[len(exp):]):
                        bad.append((None, "%s/%s chain %d: %s, recorded events %s" % (g, n, ch, str(rows)[:200], str(exp)[:200])))
                    elif cnt_dim[ch] < N:
                        bad.append(("C14-zarr-event-padding", "%s/%s: chain %d had %d %s events, the array has %d entries per chain (fill values look like events)" % (g, n, ch, cnt_dim[ch], ev, N)))
    return diffs, bad


# ------------------------------------------------------------------------------------------------
def known_class(c):
    """known findings that make the backend reject a record: (key, text) or None"""
    vars_ = (c.get("schema") or {}).get("vars", [])
    if c["backend"].startswith("zarr") and any(v[1] == "string" and v[2] for v in vars_):
        return ("C14-zarr-string-vector-panics", "a string draw variable with dims makes the Zarr backend panic (SampleBuffer::push has no Value::Strings arm)")
    if c["backend"] == "ndarray" and any(len(v[2]) >= 2 for v in vars_):
        return ("C14-ndarray-matrix-unsupported", "a draw variable with two or more dims makes the ndarray backend panic in set_value (slice of a single extra dim), poisoning the shared arrays")
    return None


PRELUDE = ("From NutsV Require Import model.Storage.\nFrom Coq Require Import ZArith List String.\n"
           "Import ListNotations.\nOpen Scope string_scope.\nOpen Scope list_scope.\nOpen Scope nat_scope.\n")


def run(ctx):
    quick = ctx.tier == "quick"
    audit_forbidden(ctx)
    check_property_file(ctx, "C14", allow_axioms=AX)
    if os.environ.get("VERIF_HARNESS_DIR"):
        # mutation experiments: a copy of the harness whose path dependency points to a scratch
        # copy of the crate (never /repo itself)
        import vlib as _v
        _v.HARNESS = os.environ["VERIF_HARNESS_DIR"]
        _v.TARGET = os.environ.get("VERIF_TARGET_DIR", _v.TARGET)
        ctx.notes["harness_override"] = [_v.HARNESS, _v.TARGET]
    ok, out = build_harness(["storage"])
    ctx.oblig("harness-build", ok, out[-3000:])
    if not ok:
        return
    n = 320 if quick else 2000
    cases = gen_cases(ctx, n)
    if getattr(ctx, "replay", None):
        rp = json.load(open(ctx.replay))
        if "case" in rp:
            rc_ = dict(rp["case"])
            rc_["id"] = 0
            cases = [rc_]
    outs, errs = run_harness_parallel("storage", cases, workers=12)
    missing = [c["id"] for c in cases if c["id"] not in outs]
    # a backend panic inside the parallel Sampler poisons the trace mutex and surfaces as a panic of
    # the calling thread (sampler.rs finalize_many): for the known rejecting classes this IS the
    # known finding
    known_panics = [c for c in cases if c["id"] in outs and "harness_panic" in outs[c["id"]]
                    and c.get("mode") == "sampler" and known_class(c)]
    for c in known_panics:
        kc = known_class(c)
        ctx.evaluations += 1
        violation(ctx, kc[1] + " -- parallel Sampler: " + outs[c["id"]]["harness_panic"][:160], {"case": c}, found_input=True, key=kc[0])
    kp_ids = {c["id"] for c in known_panics}
    crashed = [c["id"] for c in cases if c["id"] in outs and c["id"] not in kp_ids and ("harness_panic" in outs[c["id"]] or outs[c["id"]].get("new_trace") != "ok" or "error" in outs[c["id"]])]
    ctx.oblig("harness-run", not missing and not crashed,
              "missing %s crashed %s: %s %s" % (missing[:5], crashed[:5], json.dumps(outs.get(crashed[0]) if crashed else "")[:600], (errs or [""])[0][-600:]))
    todo = [c for c in cases if c["id"] in outs and c["id"] not in crashed and c["id"] not in kp_ids]
    # ---- model evaluation: one expression per (case, chain)
    exprs, index = [], []
    for c in todo:
        o = outs[c["id"]]
        insp = o.get("inspect")
        for ch, hist in enumerate(o["history"]):
            k = insp["counts"][ch] if insp else None
            exprs.append(model_expr(c, o, ch, hist, k))
            index.append((c["id"], ch))
    shard = max(1, (len(exprs) + 47) // 48)
    vals, err = coq_eval_shards("C14_storage", PRELUDE, exprs, shard_size=shard, workers=16)
    ctx.oblig("model-eval", err is None, err or "")
    if err:
        return
    models = {}
    for (cid, ch), v in zip(index, vals):
        models.setdefault(cid, {})[ch] = v
    ndiff = nbad = 0
    nwf = 0
    stats = {"backends": {}, "presets": {}, "records": 0, "events": 0, "chains": {}, "modes": {}, "aborted": 0,
             "inspected": 0, "types": {}, "shapes": {}, "counts": {}, "specials": 0, "store_warmup_false": 0,
             "compared_final_chains": 0, "compared_inspect_chains": 0, "rejected_records": 0}
    for c in todo:
        o = outs[c["id"]]
        b = c["backend"]
        ctx.evaluations += 1
        hists = o["history"]
        stats["backends"][b] = stats["backends"].get(b, 0) + 1
        stats["presets"][c["preset"]] = stats["presets"].get(c["preset"], 0) + 1
        stats["modes"][o.get("mode")] = stats["modes"].get(o.get("mode"), 0) + 1
        stats["chains"][str(len(hists))] = stats["chains"].get(str(len(hists)), 0) + 1
        stats["counts"]["%d+%d" % (c["num_tune"], c["num_draws"])] = stats["counts"].get("%d+%d" % (c["num_tune"], c["num_draws"]), 0) + 1
        stats["records"] += sum(len(h) for h in hists)
        if c.get("abort_after") or c.get("abort_after_ms") is not None:
            stats["aborted"] += 1
        if o.get("inspect"):
            stats["inspected"] += 1
        if not c.get("store_warmup", True):
            stats["store_warmup_false"] += 1
        for f in o["schema"]["draws"]:
            stats["types"][f[1]] = stats["types"].get(f[1], 0) + 1
            stats["shapes"][str(len(f[2]))] = stats["shapes"].get(str(len(f[2])), 0) + 1
        nev = 0
        for h in hists:
            for r in h:
                for n_, v in r["s"]:
                    if v is not None and n_.startswith(("divergence_", "transformation_update", "mass_matrix")):
                        nev += 1
                for n_, v in r["d"]:
                    if v is not None and v["t"] in ("f64", "f32") and any(x in ("9221120237041090560", "2143289344", "9218868437227405312", "2139095040") for x in v["v"]):
                        stats["specials"] += 1
        stats["events"] += nev
        if sum(len(h) for h in hists) > 0:
            ctx.nontrivial.add((b, c["preset"], c["num_tune"], c["num_draws"], len(hists), json.dumps(c.get("schema"), sort_keys=True), c.get("store_warmup", True)))
        if len(ctx.samples) < 3 and sum(len(h) for h in hists) > 2:
            ctx.samples.append({"case": c, "records_per_chain": [len(h) for h in hists], "chain_status": o.get("chain_status"),
                                "final_status": o["final"].get("status") if o.get("final") else None})
        ms = models[c["id"]]
        diffs, bad = [], []

        def unsome(x):
            return None if x is None else x[1]

        wf_m, fin_m, ins_m = {}, {}, {}
        for ch in range(len(hists)):
            v = ms[ch]
            wf_m[ch] = unsome(v[0])
            f_ = unsome(v[1])
            i_ = unsome(v[2])
            if b == "ndarray":
                fin_m[ch] = unsome(f_[0])
            elif b == "csv":
                fin_m[ch] = f_
            else:
                fin_m[ch] = unsome(f_)
            ins_m[ch] = None if (i_ == 0 or b == "csv") else unsome(i_)
        # well-formedness of the logged histories (hypothesis of the theorems), evaluated by the model
        for ch in range(len(hists)):
            wfs, wfh = wf_m[ch]
            if not (wfs and wfh):
                nwf += 1
                bad.append((None, "the recorded history of chain %d is not well-formed (schema order / types / tuning prefix): wf_schema=%s wf_hist=%s" % (ch, wfs, wfh)))
            if not tuning_prefix(hists[ch]):
                bad.append((None, "tuning flags of chain %d are not of the form true^a false^b" % ch))
        failed = [(ch, r_) for ch, h in enumerate(hists) for r_ in h if r_["r"] != "ok"]
        kc = known_class(c)
        fin = o.get("final") or {}
        if failed:
            stats["rejected_records"] += len(failed)
            # a record was rejected by the backend: the model must reject the same record
            for ch, r_ in failed:
                if fin_m[ch] is not None:
                    diffs.append("chain %d: backend rejected a record (%s), the model accepts the history" % (ch, r_["r"][:100]))
            what = "record_sample failed: %s" % failed[0][1]["r"][:160] if failed[0][1]["r"] != "pending" else "record_sample panicked: %s" % str(o.get("chain_status"))[:200]
            bad.append((kc[0] if kc else None, (kc[1] + " -- " if kc else "") + what))
        elif fin.get("status") != "ok":
            bad.append((None, "finalize failed: %s" % fin.get("status")))
        elif fin.get("chain_error") and not (o.get("mode") == "sampler"):
            bad.append((None, "finalize reported a chain error: %s" % fin.get("chain_error")))
        else:
            real = fin.get("read")
            stats["compared_final_chains"] += len(hists)
            if b in ("zarr", "zarr_async"):
                d_, b_ = cmp_zarr(c, o, hists, [fin_m[ch] for ch in range(len(hists))], real, final=True)
                diffs += d_
                bad += b_
            else:
                fn = {"hashmap": cmp_hashmap, "arrow": cmp_arrow, "ndarray": cmp_ndarray, "csv": cmp_csv}[b]
                for ch, h in enumerate(hists):
                    d_, b_ = fn(c, o, ch, h, fin_m[ch], real)
                    diffs += d_
                    bad += b_
            if o.get("flush_errors"):
                bad.append((None, "flush failed: %s" % o["flush_errors"][0][:200]))
            insp = o.get("inspect")
            if insp:
                if insp.get("status") != "ok":
                    bad.append((None, "inspect failed: %s" % insp.get("status")))
                else:
                    ireal = insp.get("read")
                    stats["compared_inspect_chains"] += len(hists)
                    pre = [h[:k] for h, k in zip(hists, insp["counts"])]
                    if b in ("zarr", "zarr_async"):
                        d_, b_ = cmp_zarr(c, o, pre, [ins_m[ch] for ch in range(len(hists))], ireal, final=False)
                        diffs += ["inspect: " + x for x in d_]
                        bad += b_
                    elif b == "csv":
                        for ch in range(len(hists)):
                            a_ = (ireal["chains"][ch] or "") if ireal else ""
                            z_ = (real["chains"][ch] or "") if real else ""
                            if not z_.startswith(a_):
                                bad.append((None, "inspect: chain_%d.csv at inspect time is not a prefix of the final file" % ch))
                    else:
                        fn = {"hashmap": cmp_hashmap, "arrow": cmp_arrow, "ndarray": cmp_ndarray}[b]
                        for ch, h in enumerate(pre):
                            d_, b_ = fn(c, o, ch, h, ins_m[ch], ireal)
                            diffs += ["inspect: " + x for x in d_]
                            bad += [(k_, "inspect: " + t_) for k_, t_ in b_]
        known = [(k_, t_) for k_, t_ in bad if k_ is not None]
        hard = [t_ for k_, t_ in bad if k_ is None]
        seen = set()
        for k_, t_ in known:
            if k_ in seen:
                continue
            seen.add(k_)
            violation(ctx, t_, {"case": c}, found_input=True, key=k_)
        if hard:
            nbad += 1
            if nbad <= 4:
                violation(ctx, "implementation violates C14: %s" % hard[0],
                          {"case": c, "failures": hard[:8], "chain_status": o.get("chain_status"),
                           "records_per_chain": [len(h) for h in hists]}, found_input=True)
        elif diffs:
            ndiff += 1
            if ndiff <= 4:
                violation(ctx, "model/implementation conformance broken (storage %s): %s" % (b, diffs[0]),
                          {"case": c, "differences": diffs[:8],
                           "correspondence": "model/Storage.v %s model evaluated on the logged record_sample history vs the read-back of the real backend" % b},
                          found_input=False)
    ctx.oblig("conformance-storage-models", ndiff == 0, "%d cases differ" % ndiff)
    ctx.oblig("impl-audit-C14", nbad == 0, "%d cases" % nbad)
    ctx.oblig("histories-wellformed", nwf == 0, "%d chains" % nwf)
    if not getattr(ctx, "replay", None):
        for b in BACKENDS:
            ctx.oblig("coverage-backend-%s" % b, stats["backends"].get(b, 0) > 0, "")
        for p in PRESETS:
            ctx.oblig("coverage-preset-%s" % p, stats["presets"].get(p, 0) > 0, "")
        ctx.oblig("coverage-events", stats["events"] > 0, "no event statistic was ever present")
    ctx.notes["input_distribution"] = stats


TRUSTED = {"C14": [
    "Coq 8.16.1 kernel; vm_compute for evaluating the backend models on logged histories",
    "hand-written models coq/model/Storage.v of hashmap.rs, arrow.rs, ndarray.rs, csv.rs, zarr/{common,sync_impl,async_impl}.rs (buffer logic as written); tied to the code by evaluating them on the exact record_sample argument sequences of real runs and comparing with the complete read-back of the real backend",
    "the recording reference: harness LogConfig/LogTrace/LogChain wrap the backend's StorageConfig/TraceStorage/ChainStorage, forward every call unchanged and log the arguments (verif_harness::value_to_json, floats as bit patterns)",
    "read-back code of the harness: arrow (downcasts of the primitive / LargeList arrays), ndarray iteration order, zarrs Array::open + retrieve_array_subset on the same MemoryStore / a re-opened FilesystemStore, CSV files re-read from the temp directory; library internals of arrow 59, zarrs 0.23 (codecs, chunk grid), ndarray 0.17 are trusted, their observable behaviour is what the read-back compares",
    "CSV number formatting is abstract in the model (a cell is a typed token); the check formats the recorded value with Python's correctly rounded '%.*f' at the configured precision (NaN -> NA, +-inf -> Inf/-Inf) and compares the text exactly",
    "the Zarr async writer queue is not modelled (chunk writes are applied immediately); flush points / completion orders are C15's subject",
    "harness/src/bin/storage.rs, harness/src/lib.rs (TestLogp, synth_value), tools/props/storage.py",
]}
ASSUMPTIONS = {"C14": [
    "well-formed histories: every record lists the schema's names in schema order, every present value has the declared item type / scalar-ness / length, every draw value is present, tuning flags have the form true^a false^b, names are unique per kind (checked on every logged history by evaluating wf_schema / wf_hist in Coq)",
    "HashMap: the result has keys `draw` and `chain` with EMPTY vectors (pushes of these two statistics are skipped by design); values are flat vectors (shape from the schema); no store_warmup flag",
    "Arrow: one row per stored draw, null where a statistic was absent; event statistics = the non-null rows",
    "CSV: coordinates (HasDims::coords labels in column names) and the `expanded_parameter` fallback numbering are not modelled / not exercised (the test density defines neither)",
    "CSV (CmdStan layout): only the 7 CmdStan statistics and the F64/F32/I64/U64 draw variables are written (bool / string variables and all other statistics, incl. every event statistic, are not representable); no header line when no draw is stored; `inspect` returns nothing and does not flush",
    "Zarr async: at an `inspect` queued chunk writes may still be pending (joined by flush / finalize only), so any subset of the complete chunks is visible; after finalize everything is compared exactly",
    "Zarr: arrays have the declared length (n_tune / n_draws; event arrays: the largest event count over chains and fields of the dimension), unwritten entries read as the fill value (NaN / 0 / false / \"\"): aborted chains and optional event fields with fewer values are padded; `inspect` does not flush (only complete chunks are visible)",
    "ndarray: arrays [chain, n_tune + n_draws, dims] pre-filled with 0 / false / \"\"; no store_warmup flag; aborted chains leave the default values",
    "known findings routed by key: C14-ndarray-events-dense, C14-ndarray-matrix-unsupported, C14-zarr-store-warmup-ignored, C14-zarr-string-vector-panics, C14-zarr-event-padding",
]}
RULE = {"C14": "seeded cases: 6 backends x 6 presets x (num_tune, num_draws) incl. 0 and 1 x 1-3 chains x draw schemas (default vector; scalar / vector / matrix / zero-size dims; f64 f32 i64 u64 bool string; NaN, +-inf, -0, empty strings) x statistics flags x store_warmup x chunk sizes / precision x fault regions producing divergences x aborted prefixes x inspect points x sequential / parallel Sampler driver; non-trivial = at least one record; distinct by (backend, preset, counts, chains, schema, store_warmup)"}
