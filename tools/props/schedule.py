"""C06 / C09: warmup schedule.  Proof (Properties/C06.v, C09.v over model/Schedule.v) plus
correspondence of the executable model with the real chains (harness binary `schedule`)."""
import json
import math
import struct

from vlib import *  # noqa

AX = STDLIB_AXIOMS

EUCLID = ["diag_nuts", "lowrank_nuts", "diag_mclmc", "lowrank_mclmc"]
FLOW = ["flow_nuts", "flow_mclmc"]
DIAG = ["diag_nuts", "diag_mclmc"]
# src/transform/adapt/diagonal.rs: LOWER_LIMIT / UPPER_LIMIT (= INIT_*), fill value of init()
LOWER_LIMIT, UPPER_LIMIT, INIT_FILL = 1e-20, 1e20, 1.0


def f2bits(x):
    return struct.unpack("<Q", struct.pack("<d", float(x)))[0]


def bits2f(b):
    return struct.unpack("<d", struct.pack("<Q", int(b)))[0]


def gen_content_cases(ctx, n, cid0):
    import random
    r = random.Random(ctx.rnd().getrandbits(48) + 909)
    out = []
    for k in range(n):
        preset = "diag_mclmc" if k % 3 == 2 else "diag_nuts"
        if k % 4 == 3:
            preset = "lowrank_nuts"
        dim = r.randint(2, 3) if preset == "diag_mclmc" else r.randint(1, 3)
        nt = r.choice([40, 50, 64, 80, 100, 130, 160, 200]) if r.random() < 0.6 else r.randint(40, 200)
        prec = [r.choice([0.25, 1.0, 4.0, 100.0]) for _ in range(dim)]
        mu = [r.choice([0.0, 0.0, 1.5, -3.0, 10.0]) for _ in range(dim)]
        sd0 = 1.0 / math.sqrt(prec[0])
        c = {"id": cid0 + k, "preset": preset, "num_tune": nt, "num_draws": 2, "dim": dim,
             "seed": r.randint(0, 2 ** 32), "maxdepth": r.randint(3, 5), "content": True,
             "use_grad_based_estimate": (k % 2 == 0),
             "early_window": r.choice([0.1, 0.3, 0.5]), "step_size_window": r.choice([0.05, 0.15, 0.3]),
             "switch_freq": r.choice([3, 5, 8, 12, 20]), "early_switch_freq": r.choice([2, 3, 5, 10]),
             "update_freq": r.choice([1, 1, 2, 5, 7]), "growth": r.choice([1.0, 1.1, 1.5, 2.0]),
             "prec": prec, "mu": mu,
             "init": [mu[i] + r.choice([-0.5, -0.2, 0.3]) / math.sqrt(prec[i]) for i in range(dim)]}
        c["init"][0] = mu[0] - 0.3 * sd0
        if preset in ("diag_nuts", "lowrank_nuts"):
            c["method"] = r.choice(["dual", "dual", "adam"])
            c["jitter"] = r.choice([None, 0.1])
        else:
            c["jitter"] = None
            c["fixed_step"] = r.choice([0.25, 0.5])
            c["store_divergences"] = True
        if r.random() < 0.5:
            # every evaluation with x[0] above the threshold is faulty -> rejected draws
            c["region_fault"] = [mu[0] + r.choice([0.5, 1.0, 1.5]) * sd0, r.choice(["rec", "nan_logp", "huge_energy"])]
        out.append(c)
    return out


def gen_cases(ctx, n, n_content=0):
    r = ctx.rnd()
    cases = []
    tune_pool = [0, 1, 2, 3, 4, 5, 7, 10, 13, 20, 27, 35, 50, 64, 90, 130]
    cid = 0
    # a fixed corpus first: boundary values of num_tune for every preset
    for preset in EUCLID + FLOW:
        for nt in [0, 1, 2, 3, 7, 20]:
            cases.append({"id": cid, "preset": preset, "num_tune": nt, "num_draws": 3, "dim": 2,
                          "seed": 11 + cid, "maxdepth": 4})
            cid += 1
    # no jitter and an empty final step-size window: the averaged step size must still be installed
    # after warmup (floor(step_size_window * num_tune) = 0 for small num_tune, or window 0.0)
    for preset in EUCLID:
        for nt, ssw in [(3, None), (6, None), (50, 0.0), (120, 0.0), (1, None)]:
            c = {"id": cid, "preset": preset, "num_tune": nt, "num_draws": 4, "dim": 2, "seed": 900 + cid,
                 "maxdepth": 4, "jitter": None}
            if ssw is not None:
                c["step_size_window"] = ssw
            if preset.endswith("nuts"):
                c["method"] = "dual"
            else:
                c["fixed_step"] = 0.25
            cases.append(c)
            cid += 1
    # flow presets: the final step-size window starts exactly on a scheduled update draw
    # (multiples of 10 below draw 100, multiples of update_freq afterwards) and just beside one
    for preset in FLOW:
        for nt, ssw, upd in [(80, 0.25, 128), (40, 0.5, 128), (41, 0.5, 128), (400, 0.5, 50), (400, 0.5, 100),
                             (300, 0.5, 50), (402, 0.5, 50), (20, 0.5, 7), (250, 0.2, 40)]:
            c = {"id": cid, "preset": preset, "num_tune": nt, "num_draws": 2, "dim": 2, "seed": 500 + cid,
                 "maxdepth": 3, "step_size_window": ssw, "update_freq": upd}
            if preset == "flow_mclmc":
                c["fixed_step"] = 0.25
            cases.append(c)
            cid += 1
    # content tie (C09): diagonal presets with several window switches, both estimators
    # (gradient based / draw based), rejected draws, non-zero means
    for c in gen_content_cases(ctx, n_content, cid):
        cases.append(c)
        cid += 1
    while len(cases) < n:
        preset = r.choice(EUCLID * 3 + FLOW)
        nt = r.choice(tune_pool) if r.random() < 0.7 else r.randint(0, 200)
        c = {"id": cid, "preset": preset, "num_tune": nt, "num_draws": r.randint(1, 5),
             "dim": r.randint(1, 3), "seed": r.randint(0, 2 ** 32), "maxdepth": r.randint(2, 5)}
        if r.random() < 0.7:
            c["early_window"] = r.choice([0.0, 0.1, 0.3, 0.5, 0.7, 0.95, r.random() * 0.99])
            c["step_size_window"] = r.choice([0.0, 0.05, 0.15, 0.3, 0.5, 1.0, r.random()])
            c["switch_freq"] = r.choice([1, 2, 3, 5, 8, 10, 20, 80])
            c["early_switch_freq"] = r.choice([1, 2, 3, 5, 10, 20])
            c["update_freq"] = r.choice([1, 1, 2, 3, 5, 20])
            c["growth"] = r.choice([1.0, 1.1, 1.5, 2.0, 3.0])
        if preset in ("diag_nuts", "lowrank_nuts", "flow_nuts"):
            c["method"] = r.choice(["dual", "dual", "adam", "fixed"])
            c["jitter"] = r.choice([None, 0.1, 0.3, 0.01])
        else:
            c["jitter"] = r.choice([None, 0.1])
            c["fixed_step"] = r.choice([0.25, 0.5])
            c["dim"] = max(2, c["dim"])  # ESH dynamics needs at least two dimensions
        if r.random() < 0.35:
            # a fault region makes some trajectories diverge -> rejected draws
            c["region_fault"] = [r.choice([0.5, 1.0, 1.5]), r.choice(["rec", "nan_logp", "huge_energy"])]
        c["prec"] = [r.choice([0.25, 1.0, 4.0, 100.0]) for _ in range(c["dim"])]
        if preset in DIAG:
            c["content"] = True
            c["use_grad_based_estimate"] = r.random() < 0.5
            if preset == "diag_mclmc":
                c["store_divergences"] = True
        cases.append(c)
        cid += 1
    return cases


def case_opts(c):
    """Effective Euclidean options of a case (defaults per preset as in sampler.rs)."""
    d = {"early_window": 0.3, "step_size_window": 0.15, "switch_freq": 80, "early_switch_freq": 10,
         "update_freq": 1, "growth": 1.5}
    if c["preset"] == "lowrank_nuts":
        d["update_freq"] = 20
    if c["preset"] == "lowrank_mclmc":
        d["early_switch_freq"] = 20
    for k in d:
        if k in c:
            d[k] = c[k]
    return d


def goods_of(c, out):
    goods = []
    mclmc = c["preset"].endswith("mclmc")
    for d in out["draws"]:
        if "draw" not in d:
            break
        if mclmc:
            g = (d["num_steps"] > 4) if d["diverging"] else (d["num_steps"] != 0)
        else:
            idx = d["idx"]
            g = (abs(idx) > 4) if d["diverging"] else (idx != 0)
        goods.append(g)
    return goods


def wants_content(c, prop):
    return prop == "C09" and (c["preset"] in DIAG or c["preset"] == "lowrank_nuts") and bool(c.get("content"))


def content_tie_lowrank(ctx, todo, outs, models, broken, stats):
    """The window of the low-rank estimator (positions and gradients it holds, oldest first, and
    the start of its background part) equals, after every warmup draw, the draws listed in the
    model's foreground / background windows (the eigen-decomposition built from them is not tied)."""
    nbad, ncmp, ncases, nsw = 0, 0, 0, 0
    for c in todo:
        if c["preset"] != "lowrank_nuts" or not wants_content(c, ctx.prop) or c["id"] in broken:
            continue
        out, model = outs[c["id"]], models[c["id"]]
        if out.get("set_position") != "ok" or not model or model[0][0] == -2:
            continue
        ci = out.get("content_init")
        draws = [d for d in out["draws"] if "draw" in d]
        if not ci or any(not d["hook"].get("content") for d in draws):
            continue
        ncases += 1
        pts = {-1: (ci["x"], ci["g"])}
        for i, d in enumerate(draws):
            pts[i] = (d["hook"]["content"]["x"], d["hook"]["content"]["g"])
        prev_split = None
        for i, d in enumerate(draws):
            if i >= c["num_tune"]:
                break
            m = model[i + 2]
            if -3 not in m:
                continue
            k = m.index(-3)
            fg, bg_len = m[k + 1:], m[k - 1]
            ct = d["hook"]["content"]
            want_x = [pts[t][0] for t in fg]
            want_g = [pts[t][1] for t in fg]
            ncmp += 1
            what = None
            if len(ct["lr_draws"]) != len(fg):
                what = "holds %d draws, the schedule's foreground window has %d (%s)" % (len(ct["lr_draws"]), len(fg), fg)
            elif any(not all(_same_bits(a, b) for a, b in zip(u, w)) for u, w in zip(ct["lr_draws"], want_x)):
                j = next(j for j, (u, w) in enumerate(zip(ct["lr_draws"], want_x)) if not all(_same_bits(a, b) for a, b in zip(u, w)))
                what = "position %d of its window is not the state of draw %s (window %s)" % (j, fg[j], fg)
            elif any(not all(_same_bits(a, b) for a, b in zip(u, w)) for u, w in zip(ct["lr_grads"], want_g)):
                j = next(j for j, (u, w) in enumerate(zip(ct["lr_grads"], want_g)) if not all(_same_bits(a, b) for a, b in zip(u, w)))
                what = "gradient %d of its window is not the gradient at draw %s (window %s)" % (j, fg[j], fg)
            elif ct["lr_split"] != len(fg) - bg_len:
                what = "background part starts at %d, the schedule says %d (foreground %d, background %d draws)" % (ct["lr_split"], len(fg) - bg_len, len(fg), bg_len)
            if prev_split is not None and ct["lr_split"] != prev_split:
                nsw += 1
            prev_split = ct["lr_split"]
            if what:
                nbad += 1
                if nbad <= 3:
                    violation(ctx, "implementation violates C09: after draw %d the low-rank estimator %s" % (i, what),
                              {"case": c, "draw": i, "window_tags": fg, "replay": "echo '<case json>' | build/target/debug/schedule"}, found_input=True)
                break
    stats["content_lowrank"] = {"cases": ncases, "windows_compared": ncmp, "switches_seen": nsw}
    ctx.oblig("content-tie-lowrank-window", nbad == 0 and ncases > 0 and nsw > 0, json.dumps(stats["content_lowrank"]))


def model_expr(c, out, prop=None):
    if c["preset"] in FLOW:
        ssw = c.get("step_size_window", 0.07)
        upd = c.get("update_freq", 128)
        n = len([d for d in out.get("draws", []) if "draw" in d])
        return "flow_trace (of_bits %d) %d%%N %d%%N %d%%nat" % (f2bits(ssw), upd, c["num_tune"], n)
    o = case_opts(c)
    goods = goods_of(c, out) if "draws" in out else []
    fn = "global_trace_fg" if wants_content(c, prop) else "global_trace"
    return ("%s {| o_early_sw := %d; o_main_sw := %d; o_upd := %d |}%%N (of_bits %d) (of_bits %d) "
            "(of_bits %d) %d%%N %s" % (fn, o["early_switch_freq"], o["switch_freq"], o["update_freq"],
                                      f2bits(o["early_window"]), f2bits(o["step_size_window"]),
                                      f2bits(o["growth"]), c["num_tune"],
                                      coq_list([coq_bool(g) for g in goods])))


def impl_ids(out):
    ids = []
    cur = None
    for d in out["draws"]:
        if "draw" not in d:
            break
        if d.get("update_id") is not None:
            cur = d["update_id"]
        ids.append(cur)
    return ids


def oracle(c, out, prop):
    """Implementation-side oracle taken directly from the property statement.  Returns a list of
    (what, detail) for concrete failures on this input."""
    bad = []
    nt = c["num_tune"]
    if out.get("new_chain") != "ok":
        bad.append(("new_chain fails for num_tune=%d: %s" % (nt, out.get("new_chain")), {}))
        return bad
    if out.get("set_position") != "ok":
        bad.append(("set_position fails: %s" % out.get("set_position"), {}))
        return bad
    draws = out["draws"]
    for i, d in enumerate(draws):
        if "draw" not in d:
            bad.append(("draw %d failed: %s" % (i, json.dumps(d)[:200]), {}))
            return bad
    total = nt + c["num_draws"]
    if len(draws) != total:
        bad.append(("expected %d draws, got %d" % (total, len(draws)), {}))
    if prop == "C06":
        for i, d in enumerate(draws):
            if d["tuning"] != (i < nt):
                bad.append(("Progress.tuning of draw %d is %s with num_tune=%d" % (i, d["tuning"], nt), {"draw": i}))
                break
            if d["stat_tuning"] is not None and bool(d["stat_tuning"]) != (i < nt):
                bad.append(("tuning statistic of draw %d is %s with num_tune=%d" % (i, d["stat_tuning"], nt), {"draw": i}))
                break
        # transformation frozen from the final window on
        if c["preset"] in EUCLID:
            o = case_opts(c)
            final = nt - min(nt, int(o["step_size_window"] * float(nt)))
            ids = impl_ids(out)
            scheds = [d["hook"]["sched"] for d in draws]
            for i in range(final, len(draws)):
                prev_id = ids[i - 1] if i >= 1 else 0  # after init() the id is 0
                if ids[i] != prev_id:
                    bad.append(("transformation id changed at draw %d >= final window start %d" % (i, final), {"draw": i}))
                    break
            for i in range(max(final, 1), len(draws)):
                if scheds[i][6:8] != scheds[i - 1][6:8] or scheds[i][3] != scheds[i - 1][3]:
                    bad.append(("estimator windows changed at draw %d >= final window start %d" % (i, final), {"draw": i}))
                    break
        else:
            ssw = c.get("step_size_window", 0.07)
            final = int(math.floor(float(nt) * (1.0 - ssw)))
            for i, d in enumerate(draws):
                if i >= final and d["flow_updates"] != 0:
                    bad.append(("flow transformation updated at draw %d >= final window start %d" % (i, final), {"draw": i}))
                    break
        # after warmup: averaged step constant, step within the jitter band
        post = draws[nt:]
        if post and post[0].get("step_size_bar") is not None:
            bars = set(d["step_size_bar"] for d in post)
            # the bar reported after the last warmup draw must be the same one
            if nt >= 1:
                bars.add(draws[nt - 1]["step_size_bar"])
            if len(bars) != 1:
                bad.append(("step_size_bar changes after warmup: %s" % sorted(bars)[:3], {}))
            bar = bits2f(post[0]["step_size_bar"])
            j = c.get("jitter", 0.1)
            nuts = not c["preset"].endswith("mclmc")
            for i, d in enumerate(post):
                # Progress.step_size (NUTS: the step installed by this draw's adapt call)
                s = bits2f(d["step_size"])
                if j is None:
                    okb = s == bar if nuts else abs(s - bar) <= 1e-12 * abs(bar)
                else:
                    okb = bar * (1 - j) * (1 - 1e-12) <= s <= bar * (1 + j) * (1 + 1e-12)
                if not okb and (nuts or i > 0 or nt > 0):
                    bad.append(("post-warmup step size %r outside jitter band of %r (j=%r) at draw %d" % (s, bar, j, nt + i), {"draw": nt + i}))
                    break
    if prop == "C09" and c["preset"] in EUCLID:
        o = case_opts(c)
        final = nt - min(nt, int(o["step_size_window"] * float(nt)))
        early_end = int(o["early_window"] * float(nt))
        scheds = [out["sched_init"]] + [d["hook"]["sched"] for d in draws]
        goods = goods_of(c, out)
        for i in range(len(draws)):
            before, after = scheds[i], scheds[i + 1]
            pre_bg = before[7] + (1 if (goods[i] and i < final and i < nt) else 0)
            switched = i < nt and after[7] == 0 and pre_bg > 0
            if switched:
                if i >= final:
                    bad.append(("window switch at draw %d inside the final step-size window (starts %d)" % (i, final), {"draw": i}))
                    break
                # fg after switch == bg before (+1 if good)
                exp_fg = before[7] + (1 if goods[i] else 0)
                if after[6] != exp_fg:
                    bad.append(("after the switch at draw %d the foreground holds %d draws, background held %d" % (i, after[6], exp_fg), {"draw": i}))
                    break
                # a full next window must still fit
                cur = after[3] if i >= early_end else o["early_switch_freq"]
                if i + cur > final:
                    bad.append(("switch at draw %d although the next window (%d) does not fit before %d" % (i, cur, final), {"draw": i}))
                    break
            else:
                if i < nt:
                    inc = 1 if (goods[i] and i < final) else 0
                    if after[6] != before[6] + inc or after[7] != before[7] + inc:
                        bad.append(("estimator counts moved by %s at draw %d (good=%s, final=%d)" % ([after[6] - before[6], after[7] - before[7]], i, goods[i], final), {"draw": i}))
                        break
    return bad


def compare(c, out, model, prop):
    """Model trace vs implementation log.  Returns list of difference descriptions."""
    diffs = []
    if c["preset"] in FLOW:
        if out.get("new_chain") != "ok" or out.get("set_position") != "ok":
            return ["flow chain did not start: %s" % json.dumps(out)[:200]]
        draws = [d for d in out["draws"] if "draw" in d]
        if len(model) != len(draws) + 1:
            return ["model trace has %d lines for %d draws" % (len(model), len(draws))]
        for i, d in enumerate(draws):
            m = model[i + 1]
            if bool(m[0]) != d["tuning"]:
                diffs.append("draw %d: model tuning %s, implementation %s" % (i, bool(m[0]), d["tuning"]))
            upd = 1 if 1 in m[1:] else 0
            if upd != d["flow_updates"]:
                diffs.append("draw %d: model flow update %d, implementation %d" % (i, upd, d["flow_updates"]))
            # late/early via the dual-averaging count is checked in C07
        return diffs
    if model and model[0][0] == -2:
        if out.get("new_chain") == "ok":
            diffs.append("model: new panics at site %d; implementation constructs the chain" % model[0][1])
        return diffs
    if out.get("new_chain") != "ok":
        return ["implementation: %s; model constructs the strategy" % out.get("new_chain")]
    if out.get("set_position") != "ok":
        return ["implementation set_position: %s" % out.get("set_position")]
    if model[0] != out["sched_new"]:
        diffs.append("state after new: model %s implementation %s" % (model[0], out["sched_new"]))
    if model[1] != out["sched_init"]:
        diffs.append("state after init: model %s implementation %s" % (model[1], out["sched_init"]))
    draws = [d for d in out["draws"] if "draw" in d]
    if len(model) != len(draws) + 2:
        return diffs + ["model trace has %d lines for %d draws" % (len(model), len(draws))]
    ids = impl_ids(out)
    diag = c["preset"].startswith("diag")
    for i, d in enumerate(draws):
        m = model[i + 2]
        if -3 in m:  # global_trace_fg: ... ++ [-3] ++ foreground window
            m = m[:m.index(-3)]
        sep = m.index(-1)
        head, state = m[:sep], m[sep + 1:]
        if bool(head[0]) != d["tuning"]:
            diffs.append("draw %d: model tuning %s, implementation Progress.tuning %s" % (i, bool(head[0]), d["tuning"]))
        if d["stat_tuning"] is not None and bool(head[0]) != bool(d["stat_tuning"]):
            diffs.append("draw %d: model tuning %s, implementation tuning statistic %s" % (i, bool(head[0]), d["stat_tuning"]))
        # C06's theorems only use the model from the final window on (and the tuning flag
        # everywhere); C09 ties the whole warmup.
        relevant = prop == "C09" or i >= model[0][2]
        if relevant and state != d["hook"]["sched"]:
            diffs.append("draw %d: model state %s, implementation %s" % (i, state, d["hook"]["sched"]))
        if relevant and diag and ids[i] is not None and head[1] != ids[i]:
            diffs.append("draw %d: model transformation id %d, implementation %s" % (i, head[1], ids[i]))
        if len(diffs) > 5:
            break
    return diffs


def hbar_checks(cases, outs, models):
    """Expressions for the binary64 check of which acceptance statistic was used (early / late)."""
    exprs = []
    meta = []
    for c in cases:
        out = outs.get(c["id"])
        model = models.get(c["id"])
        if not out or not model or c["preset"] in FLOW or out.get("set_position") != "ok":
            continue
        if model and model[0][0] == -2:
            continue
        draws = [d for d in out["draws"] if "draw" in d]
        target = c.get("target_accept", 0.8)
        for i in range(1, len(draws)):
            prev, cur = draws[i - 1]["hook"]["adapt"], draws[i]["hook"]["adapt"]
            if not prev or not cur or i + 2 >= len(model) + 0:
                continue
            m = model[i + 2]
            evs = m[2:m.index(-1)]
            if 6 in evs:  # EStepInit: the adaptation state may have been re-created
                continue
            if 5 in evs:
                stat = draws[i]["mean_tree_accept_sym"]
            elif 4 in evs:
                stat = draws[i]["mean_tree_accept"]
            else:
                continue  # no advance (after warmup): state must be unchanged
            if draws[i]["mean_tree_accept"] == draws[i]["mean_tree_accept_sym"]:
                continue
            if prev["kind"] == 0:
                exprs.append("to_bits (da_hbar_next (of_bits %d) (of_bits %s) %d%%N (of_bits %s) (of_bits %d))"
                             % (f2bits(10.0), prev["v"][2], prev["count"], stat, f2bits(target)))
                meta.append((c["id"], i, int(cur["v"][2]), "hbar"))
            else:
                exprs.append("to_bits (adam_m_next (of_bits %d) (of_bits %s) (of_bits %s) (of_bits %d))"
                             % (f2bits(0.9), prev["v"][1], stat, f2bits(target)))
                meta.append((c["id"], i, int(cur["v"][1]), "adam m"))
    return exprs, meta


# ------------------------------------------------------------------------------------------------
# C09 content tie (diagonal presets): every installed transformation is recomputed, bit for bit,
# from exactly the draws of the model's foreground window
# ------------------------------------------------------------------------------------------------
def _nan(b):
    b = int(b)
    return (b & 0x7FF0000000000000) == 0x7FF0000000000000 and (b & 0x000FFFFFFFFFFFFF) != 0


def _same_bits(a, b):
    a, b = int(a), int(b)
    return a == b or (_nan(a) and _nan(b))


def _zl(bits):
    return coq_list(["%d%%Z" % int(b) for b in bits])


def content_plan(c, out, model):
    """What the content tie has to establish for one case.  Returns a dict with
       fails   : concrete failures that need no model evaluation,
       init    : (x, g, installed) of the initial point,
       updates : [(draw, window tags, installed before, installed after)] for every draw at which
                 the transformation id changed,
       points  : tag -> (x bits, g bits) or None when the fed point is not observable."""
    draws = [d for d in out["draws"] if "draw" in d]
    mclmc = c["preset"].endswith("mclmc")
    ci = out.get("content_init")
    plan = {"fails": [], "updates": [], "points": {}, "init": None, "unknown_points": 0, "div_tags": set()}
    if not ci or any(not d["hook"].get("content") for d in draws):
        plan["fails"].append(("harness did not report the estimator content", {}))
        return plan
    plan["points"][-1] = (ci["x"], ci["g"])
    plan["init"] = (ci["x"], ci["g"], ci)
    for i, d in enumerate(draws):
        ct = d["hook"]["content"]
        if mclmc and d["diverging"]:
            # MclmcChain hands the last state of the failed trajectory to the collector while the
            # chain itself stays at the start of the draw: that state is the start of the
            # diverging leapfrog step, reported by the divergence statistics
            if d.get("div_start") and d.get("div_start_grad"):
                plan["points"][i] = (d["div_start"], d["div_start_grad"])
                plan["div_tags"].add(i)
            else:
                plan["points"][i] = None
        else:
            plan["points"][i] = (ct["x"], ct["g"])
    trs = [ci] + [d["hook"]["content"] for d in draws]
    for i in range(len(draws)):
        prev, cur = trs[i], trs[i + 1]
        if cur["id"] != prev["id"]:
            m = model[i + 2]
            fg = m[m.index(-3) + 1:] if -3 in m else None
            if fg is None:
                plan["fails"].append(("model printed no window for draw %d" % i, {"draw": i}))
                continue
            if cur["id"] != prev["id"] + 1:
                plan["fails"].append(("transformation id jumps from %d to %d at draw %d" % (prev["id"], cur["id"], i), {"draw": i}))
            plan["updates"].append((i, fg, prev, cur))
        else:
            for key in ("stds", "inv_stds", "mean"):
                if any(not _same_bits(a, b) for a, b in zip(prev[key], cur[key])):
                    plan["fails"].append(("the diagonal transformation (%s) changed at draw %d although its id stayed %d"
                                          % (key, i, cur["id"]), {"draw": i}))
                    break
    return plan


def content_chains(plan):
    """Groups the windows of all updates of a case into maximal lists: the window of a later update
    of the same estimator extends the earlier one, so one scan per estimator lifetime serves all
    its prefixes.  Returns (chains, where) with where[k] = (chain index, prefix length) for update
    k, or None when a fed point of the window is not observable."""
    chains = []
    where = []
    pts = plan["points"]
    for (i, fg, prev, cur) in plan["updates"]:
        if any(pts.get(t) is None for t in fg):
            where.append(None)
            plan["unknown_points"] += 1
            continue
        hit = None
        for ci_, ch in enumerate(chains):
            n = min(len(ch), len(fg))
            if ch[:n] == fg[:n] and n > 0:
                hit = ci_
                break
        if hit is None:
            chains.append(list(fg))
            hit = len(chains) - 1
        elif len(fg) > len(chains[hit]):
            chains[hit] = list(fg)
        where.append((hit, len(fg)))
    return chains, where


def balanced(exprs, costs, bins=16):
    """Order expressions so that contiguous shards of equal length have similar cost."""
    order = sorted(range(len(exprs)), key=lambda i: -costs[i])
    perm = [order[i] for b in range(bins) for i in range(b, len(order), bins)]
    return perm


def eval_balanced(name, prelude, exprs, costs):
    if not exprs:
        return [], None
    perm = balanced(exprs, costs)
    vals, err = coq_eval_shards(name, prelude, [exprs[i] for i in perm], shard_size=max(1, -(-len(exprs) // 16)), timeout=1500)
    if err:
        return None, err
    res = [None] * len(exprs)
    for j, i in enumerate(perm):
        res[i] = vals[j]
    return res, None


def content_tie(ctx, todo, outs, models, broken, stats):
    """todo: cases; broken: ids of cases whose schedule tie already failed (their windows are not
    trusted).  Registers violations and the obligation content-tie-diag."""
    import time
    budget = 60000 if ctx.tier == "quick" else 450000   # element updates of the binary64 model
    prelude = "From NutsV Require Import lib.Fp model.Estimator.\nFrom Coq Require Import ZArith NArith List.\nImport ListNotations.\n"
    lo, hi, fill = f2bits(LOWER_LIMIT), f2bits(UPPER_LIMIT), f2bits(INIT_FILL)
    plans = {}
    exprs, costs, meta = [], [], []
    spent = 0
    skipped_budget = 0
    cs = [c for c in todo if wants_content(c, ctx.prop) and c["preset"] in DIAG and c["id"] not in broken]
    # dedicated content cases (several switches) first, then the random ones
    cs.sort(key=lambda c: (0 if "mu" in c else 1, c["id"]))
    byid = {c["id"]: c for c in cs}
    nfail = 0
    for c in cs:
        out, model = outs[c["id"]], models[c["id"]]
        if out.get("set_position") != "ok" or not model or model[0][0] == -2:
            continue
        plan = content_plan(c, out, model)
        for what, extra in plan["fails"]:
            nfail += 1
            violation(ctx, "implementation violates C09: %s" % what,
                      dict({"case": c, "replay": "echo '<case json>' | build/target/debug/schedule"}, **extra), found_input=True)
        if plan["init"] is None:
            continue
        chains, where = content_chains(plan)
        gb = bool(c.get("use_grad_based_estimate", True))
        dim = c["dim"]
        cost = sum(len(ch) for ch in chains) * dim * (2 if gb else 1)
        if spent + cost > budget and plans:
            skipped_budget += 1
            continue
        spent += cost
        plan["chains"], plan["where"], plan["gb"] = chains, where, gb
        plans[c["id"]] = plan
        x0, g0, ci = plan["init"]
        for j in range(dim):
            exprs.append("diag_install_init %s" % _zl([x0[j], g0[j], fill, lo, hi]))
            costs.append(1)
            meta.append(("init", c["id"], j))
        # requests per estimator lifetime: the distinct sample counts at which an update happened,
        # with the scales installed before the first update at that count (a repeated update over
        # an unchanged window has the same inputs and, the first one matching, the same old scales)
        for k, ch in enumerate(chains):
            first = {}
            for u, w in enumerate(where):
                if w is not None and w[0] == k and w[1] not in first:
                    first[w[1]] = u
            ns = sorted(first)
            plan.setdefault("reqs", {})[k] = ns
            for j in range(dim):
                reqs = coq_list(["(%d%%N, (%d%%Z, %d%%Z))" % (n, int(plan["updates"][first[n]][2]["stds"][j]),
                                                              int(plan["updates"][first[n]][2]["inv_stds"][j])) for n in ns])
                xs = _zl([plan["points"][t][0][j] for t in ch])
                gs = _zl([plan["points"][t][1][j] for t in ch]) if gb else "[]"
                exprs.append("diag_window %s %d%%Z %d%%Z %s %s %s" % (coq_bool(gb), lo, hi, xs, gs, reqs))
                costs.append(len(ch) * (2 if gb else 1) + 4 * len(ns))
                meta.append(("win", c["id"], k, j))
    t0 = time.time()
    vals, err = eval_balanced(ctx.prop + "_window", prelude, exprs, costs)
    t1 = time.time()
    ctx.oblig("model-eval-content", err is None, err or "")
    if err:
        return
    bad_cases = set()
    expected = {}
    for m, v in zip(meta, vals):
        if m[0] == "init":
            # initial transformation = estimate from the initial point alone
            _, cid, j = m
            ctx.evaluations += 1
            ci = plans[cid]["init"][2]
            obs = [ci["stds"][j], ci["inv_stds"][j], ci["mean"][j]]
            if (ci["id"] != 0 or any(not _same_bits(a, b) for a, b in zip(v, obs))) and cid not in bad_cases:
                bad_cases.add(cid)
                violation(ctx, "implementation violates C09: transformation installed by init() (id %s) is not the estimate from the initial point: "
                          "coordinate %d model [std, 1/std, mean] bits %s, implementation %s" % (ci["id"], j, v, obs),
                          {"case": byid[cid], "coordinate": j, "expected_bits": v, "observed_bits": obs}, found_input=True)
        else:
            _, cid, k, j = m
            ns = plans[cid]["reqs"][k]
            if len(v) != len(ns):
                ctx.oblig("model-eval-content-shape", False, "case %s lifetime %d: %d results for %d requests" % (cid, k, len(v), len(ns)))
                return
            for n, r in zip(ns, v):
                expected[(cid, k, n, j)] = r
    nchecked = 0
    nupd = {True: 0, False: 0}
    multi_switch = 0
    for cid, plan in plans.items():
        c = byid[cid]
        for u, (i, fg, prev, cur) in enumerate(plan["updates"]):
            w = plan["where"][u]
            if w is None:
                continue
            nupd[plan["gb"]] += 1
            for j in range(c["dim"]):
                v = expected[(cid, w[0], w[1], j)]
                obs = [cur["stds"][j], cur["inv_stds"][j], cur["mean"][j]]
                ctx.evaluations += 1
                nchecked += 1
                if any(not _same_bits(a, b) for a, b in zip(v, obs)) and cid not in bad_cases:
                    bad_cases.add(cid)
                    violation(ctx, "implementation violates C09: transformation installed at draw %d is not the estimate over the window %s: "
                              "coordinate %d has std %r (1/std %r, mean %r), the %s estimate over exactly these %d draws is std %r (1/std %r, mean %r)"
                              % (i, fg, j, bits2f(obs[0]), bits2f(obs[1]), bits2f(obs[2]),
                                 "gradient based" if plan["gb"] else "draw based", len(fg), bits2f(v[0]), bits2f(v[1]), bits2f(v[2])),
                              {"case": c, "draw": i, "window_tags": fg, "coordinate": j, "expected_bits": v, "observed_bits": obs,
                               "window_points": {str(t): plan["points"][t] for t in fg},
                               "replay": "echo '<case json>' | build/target/debug/schedule"}, found_input=True)
        if len(plan["chains"]) >= 3:
            multi_switch += 1
    stats["content"] = {"cases": len(plans), "cases_skipped_budget": skipped_budget,
                        "updates_checked_grad_based": nupd[True], "updates_checked_draw_based": nupd[False],
                        "coordinate_comparisons": nchecked, "window_elements": spent,
                        "cases_with_three_or_more_estimator_lifetimes": multi_switch,
                        "updates_with_unobservable_point": sum(p["unknown_points"] for p in plans.values()),
                        "window_points_from_mclmc_divergence_statistics":
                            sum(len([t for ch in p["chains"] for t in ch if t in p["div_tags"]]) for p in plans.values()),
                        "cases_with_rejected_draws": len([1 for cid in plans if not all(goods_of(byid[cid], outs[cid]))]),
                        "presets": sorted(set(byid[cid]["preset"] for cid in plans)),
                        "model_seconds": round(t1 - t0, 1)}
    enough = nupd[True] > 0 and nupd[False] > 0 and multi_switch > 0
    ctx.oblig("content-tie-diag", not bad_cases and nfail == 0 and enough,
              "%d cases with a transformation that is not the estimate over the model's window; %d other failures; coverage %s"
              % (len(bad_cases), nfail, json.dumps(stats["content"])))


def run(ctx):
    prop = ctx.prop
    n_cases = 174 if ctx.tier == "quick" else 780
    n_content = 24 if ctx.tier == "quick" else 120
    # 1. proofs + audit
    audit_forbidden(ctx)
    check_property_file(ctx, prop, allow_axioms=AX)
    # 2. harness
    ok, out = build_harness(["schedule"])
    ctx.oblig("harness-build", ok, out[-3000:])
    if not ok:
        return
    cases = gen_cases(ctx, n_cases, n_content)
    outs, errs = run_harness_parallel("schedule", cases)
    ctx.oblig("harness-run", not errs and len(outs) == len(cases), "\n".join(errs)[:2000])
    # 3. model on the same inputs
    prelude = "From NutsV Require Import lib.Fp model.Schedule model.DualAvg.\nFrom Coq Require Import ZArith NArith List.\nImport ListNotations.\n"
    okm, outm = coq_make(["model/DualAvg.vo", "model/Estimator.vo"])
    ctx.oblig("coq-build:models", okm, outm[-3000:] if not okm else "")
    if not okm:
        return
    todo = [c for c in cases if c["id"] in outs]
    exprs = [model_expr(c, outs[c["id"]], prop) for c in todo]
    vals, err = coq_eval_shards(prop + "_sched", prelude, exprs, shard_size=max(1, len(exprs) // 16 + 1))
    ctx.oblig("model-eval", err is None, err or "")
    if err:
        return
    models = {c["id"]: v for c, v in zip(todo, vals)}
    ndiff = 0
    broken = set()
    stats = {"presets": {}, "num_tune_zero": 0, "with_rejected_draws": 0, "with_switch": 0, "draws": 0}
    for c in todo:
        o = outs[c["id"]]
        m = models[c["id"]]
        ctx.evaluations += 1
        stats["presets"][c["preset"]] = stats["presets"].get(c["preset"], 0) + 1
        if c["num_tune"] == 0:
            stats["num_tune_zero"] += 1
        if "draws" in o:
            gs = goods_of(c, o)
            stats["draws"] += len(gs)
            if not all(gs):
                stats["with_rejected_draws"] += 1
            key = (c["preset"], c["num_tune"], tuple(gs), json.dumps(case_opts(c), sort_keys=True))
            if c["num_tune"] + c["num_draws"] >= 2:
                ctx.nontrivial.add(hash(key))
        if any(1 in line[2:(line.index(-1) if -1 in line else 2)] for line in m[2:] if isinstance(line, list) and -1 in line):
            stats["with_switch"] += 1
        diffs = compare(c, o, m, prop)
        bad = oracle(c, o, prop)
        if len(ctx.samples) < 3 and "draws" in o:
            ctx.samples.append({"case": c, "goods": goods_of(c, o), "model_trace_head": m[:4]})
        if bad or diffs:
            broken.add(c["id"])
        if bad:
            violation(ctx, "implementation violates %s: %s" % (prop, bad[0][0]),
                      {"case": c, "failures": [b[0] for b in bad], "model_differences": diffs,
                       "replay": "echo '<case json>' | build/target/debug/schedule"}, found_input=True)
        elif diffs:
            ndiff += 1
            violation(ctx, "model/implementation correspondence broken (schedule): %s" % diffs[0],
                      {"case": c, "differences": diffs, "correspondence": "model/Schedule.v global_trace vs harness schedule",
                       "theorems_no_longer_tied": ctx.notes.get("theorems", {}).get(prop, [])}, found_input=False)
    ctx.oblig("correspondence-schedule", ndiff == 0, "%d cases differ" % ndiff)
    # 3b. content of the estimators behind every installed diagonal transformation
    if prop == "C09":
        content_tie(ctx, todo, outs, models, broken, stats)
        content_tie_lowrank(ctx, todo, outs, models, broken, stats)
    # 4. which acceptance statistic feeds the step-size adaptation (binary64, bit-exact)
    exprs2, meta = hbar_checks(todo, outs, models)
    if exprs2 and prop == "C09":
        step = max(1, len(exprs2) // 400)
        exprs2, meta = exprs2[::step], meta[::step]
        vals2, err2 = coq_eval_shards(prop + "_hbar", prelude, exprs2, shard_size=max(1, len(exprs2) // 16 + 1))
        ctx.oblig("model-eval-hbar", err2 is None, err2 or "")
        nbad = 0
        if not err2:
            for v, (cid, i, obs, what) in zip(vals2, meta):
                ctx.evaluations += 1
                if v != obs:
                    nbad += 1
                    c = [x for x in todo if x["id"] == cid][0]
                    violation(ctx, "step-size adaptation at draw %d was not advanced with the statistic the schedule prescribes (%s: model bits %d, implementation %d)" % (i, what, v, obs),
                              {"case": c, "draw": i, "expected_bits": v, "observed_bits": obs}, found_input=True)
                    if nbad > 3:
                        break
        ctx.oblig("correspondence-early-late-statistic", nbad == 0, "%d mismatches of %d" % (nbad, len(meta)))
        stats["early_late_checks"] = len(meta)
    ctx.notes["input_distribution"] = stats


_TB = [
    "Coq 8.16.1 kernel: coqc full .vo build, vm_compute for model evaluation and closed decidable obligations; no native_compute",
    "axioms (Print Assumptions): theorems not mentioning binary64 are closed under the global context; those that do depend on Flocq and through it on ClassicalDedekindReals.sig_forall_dec, ClassicalDedekindReals.sig_not_dec, FunctionalExtensionality.functional_extensionality_dep, Classical_Prop.classic (all Coq standard library)",
    "hand-written model coq/model/Schedule.v (GlobalStrategy::new/adapt, ExternalTransformAdaptation::new/adapt, estimator windows, chain draw order) - tied to /repo only by the correspondence run",
    "correspondence harness /verif/harness/src/bin/schedule.rs, hook accessors (cfg nuts_rs_verif) verif_schedule_state / verif_adapt_state / verif_state / verif_data / DiagMassMatrix::verif_params, python glue tools/vlib.py, tools/props/schedule.py",
    "C09 content tie: binary64 model of RunningVariance / the diagonal update kernels in coq/model/Estimator.v (frv_add, diag_install, diag_window; kernels tied bit-exactly to CpuMath by C08 as well), constants LOWER_LIMIT / UPPER_LIMIT / init fill copied from src/transform/adapt/diagonal.rs",
    "not modelled: the step-size search and dual averaging internals (abstract state SS in C06_stepsize_frozen; see C07), libm, ChaCha8, faer",
]
TRUSTED = {"C06": _TB, "C09": _TB}
ASSUMPTIONS = {
    "C06": ["draws are numbered 0,1,2,... by the chain (checked by correspondence: Progress.draw)",
            "jitter factor of each draw lies in [1-j, 1+j) (rand Uniform::new contract)",
            "jitter = Some(0.0) is rejected by rand (EmptyRange) and is not generated; MCLMC presets are run with dim >= 2"],
    "C09": ["is_good of a draw is derived from the reported index_in_trajectory / divergence flag exactly as DrawGradCollector does",
            "low-rank estimator: the transformation id is not compared (an update may be refused by the finiteness guards); its content is not tied (diagonal presets only)",
            "content tie: the point fed for draw k is the state the chain is at after draw k (NutsChain; MclmcChain on a non-diverging draw); for a diverging MclmcChain draw it is the start of the diverging leapfrog step as reported by the divergence statistics (store_divergences), which is the state MclmcChain registers with the collector",
            "content tie: the foreground window is the one printed by the model (global_trace_fg), trusted only for cases whose schedule tie (all counts, ids) holds on every draw"],
}
RULE = {
    "C06": "cases: fixed boundary corpus (6 presets x num_tune in {0,1,2,3,7,20}) then seeded random presets/num_tune/window fractions/frequencies/growth/method/jitter/fault regions; each case runs the real chain through the public API and the Coq model (vm_compute) on the logged good/rejected history; non-trivial = at least 2 draws, distinct by (preset, num_tune, options, good-history)",
    "C09": "same case stream as C06 (plus dedicated diagonal cases: num_tune 40..200, small switch frequencies, gradient based and draw based estimates, non-zero means, fault regions); compared per draw: all 8 schedule state components (counts, window size, last_update, has_initial), tuning, transformation id (diagonal), and bit-exact hbar / Adam m to decide which acceptance statistic advanced the adaptation; content tie (diag_nuts, diag_mclmc): at every draw where the transformation id changes, std / 1/std / mean of every coordinate are recomputed bit-exactly (coq/model/Estimator.v, vm_compute) from the positions and gradients of exactly the draws in the model's foreground window and compared with the installed DiagMassMatrix; between updates the installed values must not move; the transformation installed by init() is recomputed from the initial point",
}
