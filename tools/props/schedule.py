"""C06 / C09: warmup schedule.  Proof (Properties/C06.v, C09.v over model/Schedule.v) plus
correspondence of the executable model with the real chains (harness binary `schedule`)."""
import json
import math
import struct

from vlib import *  # noqa

AX = STDLIB_AXIOMS

EUCLID = ["diag_nuts", "lowrank_nuts", "diag_mclmc", "lowrank_mclmc"]
FLOW = ["flow_nuts", "flow_mclmc"]


def f2bits(x):
    return struct.unpack("<Q", struct.pack("<d", float(x)))[0]


def bits2f(b):
    return struct.unpack("<d", struct.pack("<Q", int(b)))[0]


def gen_cases(ctx, n):
    r = ctx.rnd()
    cases = []
    tune_pool = [0, 1, 2, 3, 4, 5, 7, 10, 13, 20, 27, 35, 50, 64, 90, 130]
    cid = 0
    # a fixed corpus first: boundary values of num_tune for every preset
    for preset in EUCLID + FLOW:
        for nt in [0, 1, 2, 3, 7, 20]:
            cases.append({"id": cid, "preset": preset, "num_tune": nt, "num_draws": 3, "dim": 2,
                          "seed": 11 + cid, "maxdepth": 4})
            cid += 1
    # no jitter and an empty final step-size window: the averaged step size must still be installed
    # after warmup (floor(step_size_window * num_tune) = 0 for small num_tune, or window 0.0)
    for preset in EUCLID:
        for nt, ssw in [(3, None), (6, None), (50, 0.0), (120, 0.0), (1, None)]:
            c = {"id": cid, "preset": preset, "num_tune": nt, "num_draws": 4, "dim": 2, "seed": 900 + cid,
                 "maxdepth": 4, "jitter": None}
            if ssw is not None:
                c["step_size_window"] = ssw
            if preset.endswith("nuts"):
                c["method"] = "dual"
            else:
                c["fixed_step"] = 0.25
            cases.append(c)
            cid += 1
    # flow presets: the final step-size window starts exactly on a scheduled update draw
    # (multiples of 10 below draw 100, multiples of update_freq afterwards) and just beside one
    for preset in FLOW:
        for nt, ssw, upd in [(80, 0.25, 128), (40, 0.5, 128), (41, 0.5, 128), (400, 0.5, 50), (400, 0.5, 100),
                             (300, 0.5, 50), (402, 0.5, 50), (20, 0.5, 7), (250, 0.2, 40)]:
            c = {"id": cid, "preset": preset, "num_tune": nt, "num_draws": 2, "dim": 2, "seed": 500 + cid,
                 "maxdepth": 3, "step_size_window": ssw, "update_freq": upd}
            if preset == "flow_mclmc":
                c["fixed_step"] = 0.25
            cases.append(c)
            cid += 1
    while len(cases) < n:
        preset = r.choice(EUCLID * 3 + FLOW)
        nt = r.choice(tune_pool) if r.random() < 0.7 else r.randint(0, 200)
        c = {"id": cid, "preset": preset, "num_tune": nt, "num_draws": r.randint(1, 5),
             "dim": r.randint(1, 3), "seed": r.randint(0, 2 ** 32), "maxdepth": r.randint(2, 5)}
        if r.random() < 0.7:
            c["early_window"] = r.choice([0.0, 0.1, 0.3, 0.5, 0.7, 0.95, r.random() * 0.99])
            c["step_size_window"] = r.choice([0.0, 0.05, 0.15, 0.3, 0.5, 1.0, r.random()])
            c["switch_freq"] = r.choice([1, 2, 3, 5, 8, 10, 20, 80])
            c["early_switch_freq"] = r.choice([1, 2, 3, 5, 10, 20])
            c["update_freq"] = r.choice([1, 1, 2, 3, 5, 20])
            c["growth"] = r.choice([1.0, 1.1, 1.5, 2.0, 3.0])
        if preset in ("diag_nuts", "lowrank_nuts", "flow_nuts"):
            c["method"] = r.choice(["dual", "dual", "adam", "fixed"])
            c["jitter"] = r.choice([None, 0.1, 0.3, 0.01])
        else:
            c["jitter"] = r.choice([None, 0.1])
            c["fixed_step"] = r.choice([0.25, 0.5])
            c["dim"] = max(2, c["dim"])  # ESH dynamics needs at least two dimensions
        if r.random() < 0.35:
            # a fault region makes some trajectories diverge -> rejected draws
            c["region_fault"] = [r.choice([0.5, 1.0, 1.5]), r.choice(["rec", "nan_logp", "huge_energy"])]
        c["prec"] = [r.choice([0.25, 1.0, 4.0, 100.0]) for _ in range(c["dim"])]
        cases.append(c)
        cid += 1
    return cases


def case_opts(c):
    """Effective Euclidean options of a case (defaults per preset as in sampler.rs)."""
    d = {"early_window": 0.3, "step_size_window": 0.15, "switch_freq": 80, "early_switch_freq": 10,
         "update_freq": 1, "growth": 1.5}
    if c["preset"] == "lowrank_nuts":
        d["update_freq"] = 20
    if c["preset"] == "lowrank_mclmc":
        d["early_switch_freq"] = 20
    for k in d:
        if k in c:
            d[k] = c[k]
    return d


def goods_of(c, out):
    goods = []
    mclmc = c["preset"].endswith("mclmc")
    for d in out["draws"]:
        if "draw" not in d:
            break
        if mclmc:
            g = (d["num_steps"] > 4) if d["diverging"] else (d["num_steps"] != 0)
        else:
            idx = d["idx"]
            g = (abs(idx) > 4) if d["diverging"] else (idx != 0)
        goods.append(g)
    return goods


def model_expr(c, out):
    if c["preset"] in FLOW:
        ssw = c.get("step_size_window", 0.07)
        upd = c.get("update_freq", 128)
        n = len([d for d in out.get("draws", []) if "draw" in d])
        return "flow_trace (of_bits %d) %d%%N %d%%N %d%%nat" % (f2bits(ssw), upd, c["num_tune"], n)
    o = case_opts(c)
    goods = goods_of(c, out) if "draws" in out else []
    return ("global_trace {| o_early_sw := %d; o_main_sw := %d; o_upd := %d |}%%N (of_bits %d) (of_bits %d) "
            "(of_bits %d) %d%%N %s" % (o["early_switch_freq"], o["switch_freq"], o["update_freq"],
                                      f2bits(o["early_window"]), f2bits(o["step_size_window"]),
                                      f2bits(o["growth"]), c["num_tune"],
                                      coq_list([coq_bool(g) for g in goods])))


def impl_ids(out):
    ids = []
    cur = None
    for d in out["draws"]:
        if "draw" not in d:
            break
        if d.get("update_id") is not None:
            cur = d["update_id"]
        ids.append(cur)
    return ids


def oracle(c, out, prop):
    """Implementation-side oracle taken directly from the property statement.  Returns a list of
    (what, detail) for concrete failures on this input."""
    bad = []
    nt = c["num_tune"]
    if out.get("new_chain") != "ok":
        bad.append(("new_chain fails for num_tune=%d: %s" % (nt, out.get("new_chain")), {}))
        return bad
    if out.get("set_position") != "ok":
        bad.append(("set_position fails: %s" % out.get("set_position"), {}))
        return bad
    draws = out["draws"]
    for i, d in enumerate(draws):
        if "draw" not in d:
            bad.append(("draw %d failed: %s" % (i, json.dumps(d)[:200]), {}))
            return bad
    total = nt + c["num_draws"]
    if len(draws) != total:
        bad.append(("expected %d draws, got %d" % (total, len(draws)), {}))
    if prop == "C06":
        for i, d in enumerate(draws):
            if d["tuning"] != (i < nt):
                bad.append(("Progress.tuning of draw %d is %s with num_tune=%d" % (i, d["tuning"], nt), {"draw": i}))
                break
            if d["stat_tuning"] is not None and bool(d["stat_tuning"]) != (i < nt):
                bad.append(("tuning statistic of draw %d is %s with num_tune=%d" % (i, d["stat_tuning"], nt), {"draw": i}))
                break
        # transformation frozen from the final window on
        if c["preset"] in EUCLID:
            o = case_opts(c)
            final = nt - min(nt, int(o["step_size_window"] * float(nt)))
            ids = impl_ids(out)
            scheds = [d["hook"]["sched"] for d in draws]
            for i in range(final, len(draws)):
                prev_id = ids[i - 1] if i >= 1 else 0  # after init() the id is 0
                if ids[i] != prev_id:
                    bad.append(("transformation id changed at draw %d >= final window start %d" % (i, final), {"draw": i}))
                    break
            for i in range(max(final, 1), len(draws)):
                if scheds[i][6:8] != scheds[i - 1][6:8] or scheds[i][3] != scheds[i - 1][3]:
                    bad.append(("estimator windows changed at draw %d >= final window start %d" % (i, final), {"draw": i}))
                    break
        else:
            ssw = c.get("step_size_window", 0.07)
            final = int(math.floor(float(nt) * (1.0 - ssw)))
            for i, d in enumerate(draws):
                if i >= final and d["flow_updates"] != 0:
                    bad.append(("flow transformation updated at draw %d >= final window start %d" % (i, final), {"draw": i}))
                    break
        # after warmup: averaged step constant, step within the jitter band
        post = draws[nt:]
        if post and post[0].get("step_size_bar") is not None:
            bars = set(d["step_size_bar"] for d in post)
            # the bar reported after the last warmup draw must be the same one
            if nt >= 1:
                bars.add(draws[nt - 1]["step_size_bar"])
            if len(bars) != 1:
                bad.append(("step_size_bar changes after warmup: %s" % sorted(bars)[:3], {}))
            bar = bits2f(post[0]["step_size_bar"])
            j = c.get("jitter", 0.1)
            nuts = not c["preset"].endswith("mclmc")
            for i, d in enumerate(post):
                # Progress.step_size (NUTS: the step installed by this draw's adapt call)
                s = bits2f(d["step_size"])
                if j is None:
                    okb = s == bar if nuts else abs(s - bar) <= 1e-12 * abs(bar)
                else:
                    okb = bar * (1 - j) * (1 - 1e-12) <= s <= bar * (1 + j) * (1 + 1e-12)
                if not okb and (nuts or i > 0 or nt > 0):
                    bad.append(("post-warmup step size %r outside jitter band of %r (j=%r) at draw %d" % (s, bar, j, nt + i), {"draw": nt + i}))
                    break
    if prop == "C09" and c["preset"] in EUCLID:
        o = case_opts(c)
        final = nt - min(nt, int(o["step_size_window"] * float(nt)))
        early_end = int(o["early_window"] * float(nt))
        scheds = [out["sched_init"]] + [d["hook"]["sched"] for d in draws]
        goods = goods_of(c, out)
        for i in range(len(draws)):
            before, after = scheds[i], scheds[i + 1]
            pre_bg = before[7] + (1 if (goods[i] and i < final and i < nt) else 0)
            switched = i < nt and after[7] == 0 and pre_bg > 0
            if switched:
                if i >= final:
                    bad.append(("window switch at draw %d inside the final step-size window (starts %d)" % (i, final), {"draw": i}))
                    break
                # fg after switch == bg before (+1 if good)
                exp_fg = before[7] + (1 if goods[i] else 0)
                if after[6] != exp_fg:
                    bad.append(("after the switch at draw %d the foreground holds %d draws, background held %d" % (i, after[6], exp_fg), {"draw": i}))
                    break
                # a full next window must still fit
                cur = after[3] if i >= early_end else o["early_switch_freq"]
                if i + cur > final:
                    bad.append(("switch at draw %d although the next window (%d) does not fit before %d" % (i, cur, final), {"draw": i}))
                    break
            else:
                if i < nt:
                    inc = 1 if (goods[i] and i < final) else 0
                    if after[6] != before[6] + inc or after[7] != before[7] + inc:
                        bad.append(("estimator counts moved by %s at draw %d (good=%s, final=%d)" % ([after[6] - before[6], after[7] - before[7]], i, goods[i], final), {"draw": i}))
                        break
    return bad


def compare(c, out, model, prop):
    """Model trace vs implementation log.  Returns list of difference descriptions."""
    diffs = []
    if c["preset"] in FLOW:
        if out.get("new_chain") != "ok" or out.get("set_position") != "ok":
            return ["flow chain did not start: %s" % json.dumps(out)[:200]]
        draws = [d for d in out["draws"] if "draw" in d]
        if len(model) != len(draws) + 1:
            return ["model trace has %d lines for %d draws" % (len(model), len(draws))]
        for i, d in enumerate(draws):
            m = model[i + 1]
            if bool(m[0]) != d["tuning"]:
                diffs.append("draw %d: model tuning %s, implementation %s" % (i, bool(m[0]), d["tuning"]))
            upd = 1 if 1 in m[1:] else 0
            if upd != d["flow_updates"]:
                diffs.append("draw %d: model flow update %d, implementation %d" % (i, upd, d["flow_updates"]))
            # late/early via the dual-averaging count is checked in C07
        return diffs
    if model and model[0][0] == -2:
        if out.get("new_chain") == "ok":
            diffs.append("model: new panics at site %d; implementation constructs the chain" % model[0][1])
        return diffs
    if out.get("new_chain") != "ok":
        return ["implementation: %s; model constructs the strategy" % out.get("new_chain")]
    if out.get("set_position") != "ok":
        return ["implementation set_position: %s" % out.get("set_position")]
    if model[0] != out["sched_new"]:
        diffs.append("state after new: model %s implementation %s" % (model[0], out["sched_new"]))
    if model[1] != out["sched_init"]:
        diffs.append("state after init: model %s implementation %s" % (model[1], out["sched_init"]))
    draws = [d for d in out["draws"] if "draw" in d]
    if len(model) != len(draws) + 2:
        return diffs + ["model trace has %d lines for %d draws" % (len(model), len(draws))]
    ids = impl_ids(out)
    diag = c["preset"].startswith("diag")
    for i, d in enumerate(draws):
        m = model[i + 2]
        sep = m.index(-1)
        head, state = m[:sep], m[sep + 1:]
        if bool(head[0]) != d["tuning"]:
            diffs.append("draw %d: model tuning %s, implementation Progress.tuning %s" % (i, bool(head[0]), d["tuning"]))
        if d["stat_tuning"] is not None and bool(head[0]) != bool(d["stat_tuning"]):
            diffs.append("draw %d: model tuning %s, implementation tuning statistic %s" % (i, bool(head[0]), d["stat_tuning"]))
        # C06's theorems only use the model from the final window on (and the tuning flag
        # everywhere); C09 ties the whole warmup.
        relevant = prop == "C09" or i >= model[0][2]
        if relevant and state != d["hook"]["sched"]:
            diffs.append("draw %d: model state %s, implementation %s" % (i, state, d["hook"]["sched"]))
        if relevant and diag and ids[i] is not None and head[1] != ids[i]:
            diffs.append("draw %d: model transformation id %d, implementation %s" % (i, head[1], ids[i]))
        if len(diffs) > 5:
            break
    return diffs


def hbar_checks(cases, outs, models):
    """Expressions for the binary64 check of which acceptance statistic was used (early / late)."""
    exprs = []
    meta = []
    for c in cases:
        out = outs.get(c["id"])
        model = models.get(c["id"])
        if not out or not model or c["preset"] in FLOW or out.get("set_position") != "ok":
            continue
        if model and model[0][0] == -2:
            continue
        draws = [d for d in out["draws"] if "draw" in d]
        target = c.get("target_accept", 0.8)
        for i in range(1, len(draws)):
            prev, cur = draws[i - 1]["hook"]["adapt"], draws[i]["hook"]["adapt"]
            if not prev or not cur or i + 2 >= len(model) + 0:
                continue
            m = model[i + 2]
            evs = m[2:m.index(-1)]
            if 6 in evs:  # EStepInit: the adaptation state may have been re-created
                continue
            if 5 in evs:
                stat = draws[i]["mean_tree_accept_sym"]
            elif 4 in evs:
                stat = draws[i]["mean_tree_accept"]
            else:
                continue  # no advance (after warmup): state must be unchanged
            if draws[i]["mean_tree_accept"] == draws[i]["mean_tree_accept_sym"]:
                continue
            if prev["kind"] == 0:
                exprs.append("to_bits (da_hbar_next (of_bits %d) (of_bits %s) %d%%N (of_bits %s) (of_bits %d))"
                             % (f2bits(10.0), prev["v"][2], prev["count"], stat, f2bits(target)))
                meta.append((c["id"], i, int(cur["v"][2]), "hbar"))
            else:
                exprs.append("to_bits (adam_m_next (of_bits %d) (of_bits %s) (of_bits %s) (of_bits %d))"
                             % (f2bits(0.9), prev["v"][1], stat, f2bits(target)))
                meta.append((c["id"], i, int(cur["v"][1]), "adam m"))
    return exprs, meta


def run(ctx):
    prop = ctx.prop
    n_cases = 150 if ctx.tier == "quick" else 700
    # 1. proofs + audit
    audit_forbidden(ctx)
    check_property_file(ctx, prop, allow_axioms=AX)
    # 2. harness
    ok, out = build_harness(["schedule"])
    ctx.oblig("harness-build", ok, out[-3000:])
    if not ok:
        return
    cases = gen_cases(ctx, n_cases)
    outs, errs = run_harness_parallel("schedule", cases)
    ctx.oblig("harness-run", not errs and len(outs) == len(cases), "\n".join(errs)[:2000])
    # 3. model on the same inputs
    prelude = "From NutsV Require Import lib.Fp model.Schedule model.DualAvg.\nFrom Coq Require Import ZArith NArith List.\nImport ListNotations.\n"
    todo = [c for c in cases if c["id"] in outs]
    exprs = [model_expr(c, outs[c["id"]]) for c in todo]
    vals, err = coq_eval_shards(prop + "_sched", prelude, exprs, shard_size=max(1, len(exprs) // 16 + 1))
    ctx.oblig("model-eval", err is None, err or "")
    if err:
        return
    models = {c["id"]: v for c, v in zip(todo, vals)}
    ndiff = 0
    stats = {"presets": {}, "num_tune_zero": 0, "with_rejected_draws": 0, "with_switch": 0, "draws": 0}
    for c in todo:
        o = outs[c["id"]]
        m = models[c["id"]]
        ctx.evaluations += 1
        stats["presets"][c["preset"]] = stats["presets"].get(c["preset"], 0) + 1
        if c["num_tune"] == 0:
            stats["num_tune_zero"] += 1
        if "draws" in o:
            gs = goods_of(c, o)
            stats["draws"] += len(gs)
            if not all(gs):
                stats["with_rejected_draws"] += 1
            key = (c["preset"], c["num_tune"], tuple(gs), json.dumps(case_opts(c), sort_keys=True))
            if c["num_tune"] + c["num_draws"] >= 2:
                ctx.nontrivial.add(hash(key))
        if any(1 in line[2:(line.index(-1) if -1 in line else 2)] for line in m[2:] if isinstance(line, list) and -1 in line):
            stats["with_switch"] += 1
        diffs = compare(c, o, m, prop)
        bad = oracle(c, o, prop)
        if len(ctx.samples) < 3 and "draws" in o:
            ctx.samples.append({"case": c, "goods": goods_of(c, o), "model_trace_head": m[:4]})
        if bad:
            violation(ctx, "implementation violates %s: %s" % (prop, bad[0][0]),
                      {"case": c, "failures": [b[0] for b in bad], "model_differences": diffs,
                       "replay": "echo '<case json>' | build/target/debug/schedule"}, found_input=True)
        elif diffs:
            ndiff += 1
            violation(ctx, "model/implementation correspondence broken (schedule): %s" % diffs[0],
                      {"case": c, "differences": diffs, "correspondence": "model/Schedule.v global_trace vs harness schedule",
                       "theorems_no_longer_tied": ctx.notes.get("theorems", {}).get(prop, [])}, found_input=False)
    ctx.oblig("correspondence-schedule", ndiff == 0, "%d cases differ" % ndiff)
    # 4. which acceptance statistic feeds the step-size adaptation (binary64, bit-exact)
    exprs2, meta = hbar_checks(todo, outs, models)
    if exprs2 and prop == "C09":
        step = max(1, len(exprs2) // 400)
        exprs2, meta = exprs2[::step], meta[::step]
        vals2, err2 = coq_eval_shards(prop + "_hbar", prelude, exprs2, shard_size=max(1, len(exprs2) // 16 + 1))
        ctx.oblig("model-eval-hbar", err2 is None, err2 or "")
        nbad = 0
        if not err2:
            for v, (cid, i, obs, what) in zip(vals2, meta):
                ctx.evaluations += 1
                if v != obs:
                    nbad += 1
                    c = [x for x in todo if x["id"] == cid][0]
                    violation(ctx, "step-size adaptation at draw %d was not advanced with the statistic the schedule prescribes (%s: model bits %d, implementation %d)" % (i, what, v, obs),
                              {"case": c, "draw": i, "expected_bits": v, "observed_bits": obs}, found_input=True)
                    if nbad > 3:
                        break
        ctx.oblig("correspondence-early-late-statistic", nbad == 0, "%d mismatches of %d" % (nbad, len(meta)))
        stats["early_late_checks"] = len(meta)
    ctx.notes["input_distribution"] = stats


_TB = [
    "Coq 8.16.1 kernel: coqc full .vo build, vm_compute for model evaluation and closed decidable obligations; no native_compute",
    "axioms (Print Assumptions): theorems not mentioning binary64 are closed under the global context; those that do depend on Flocq and through it on ClassicalDedekindReals.sig_forall_dec, ClassicalDedekindReals.sig_not_dec, FunctionalExtensionality.functional_extensionality_dep, Classical_Prop.classic (all Coq standard library)",
    "hand-written model coq/model/Schedule.v (GlobalStrategy::new/adapt, ExternalTransformAdaptation::new/adapt, estimator windows, chain draw order) - tied to /repo only by the correspondence run",
    "correspondence harness /verif/harness/src/bin/schedule.rs, hook accessors (cfg nuts_rs_verif) verif_schedule_state / verif_adapt_state, python glue tools/vlib.py, tools/props/schedule.py",
    "not modelled: the step-size search and dual averaging internals (abstract state SS in C06_stepsize_frozen; see C07), libm, ChaCha8, faer",
]
TRUSTED = {"C06": _TB, "C09": _TB}
ASSUMPTIONS = {
    "C06": ["draws are numbered 0,1,2,... by the chain (checked by correspondence: Progress.draw)",
            "jitter factor of each draw lies in [1-j, 1+j) (rand Uniform::new contract)",
            "jitter = Some(0.0) is rejected by rand (EmptyRange) and is not generated; MCLMC presets are run with dim >= 2"],
    "C09": ["is_good of a draw is derived from the reported index_in_trajectory / divergence flag exactly as DrawGradCollector does",
            "low-rank estimator: the transformation id is not compared (an update may be refused by the finiteness guards)"],
}
RULE = {
    "C06": "cases: fixed boundary corpus (6 presets x num_tune in {0,1,2,3,7,20}) then seeded random presets/num_tune/window fractions/frequencies/growth/method/jitter/fault regions; each case runs the real chain through the public API and the Coq model (vm_compute) on the logged good/rejected history; non-trivial = at least 2 draws, distinct by (preset, num_tune, options, good-history)",
    "C09": "same case stream as C06; compared per draw: all 8 schedule state components (counts, window size, last_update, has_initial), tuning, transformation id (diagonal), and bit-exact hbar / Adam m to decide which acceptance statistic advanced the adaptation",
}
