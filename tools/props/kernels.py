"""C17: vector kernels.  Theorems over model/Kernel.v (generic in lane count and number type);
bit-exact correspondence of the binary64 instance with CpuMath for every length 0..=130."""
import json
import struct

from vlib import *  # noqa

AX = STDLIB_AXIOMS

OPS = {
    "multiply": (1, 2, 0), "multiply_inplace": (1, 2, 0), "axpy": (2, 2, 1), "axpy_out": (2, 2, 1),
    "vector_dot": (3, 2, 0), "scalar_prods2": (4, 4, 0), "scalar_prods3": (5, 5, 0),
    "std_norm_flow": (6, 2, 1), "std_norm_grad_flow": (7, 3, 1), "std_norm_grad_flow_inplace": (7, 3, 1),
    "sq_norm_sum": (8, 2, 0), "all_finite": (9, 1, 0), "all_finite_and_nonzero": (10, 1, 0),
    "recip": (11, 1, 0), "normalize": (12, 1, 0),
}
VNAMES = ["x", "y", "z", "w", "u"]


def f2b(x):
    return struct.unpack("<Q", struct.pack("<d", float(x)))[0]


def b2f(b):
    return struct.unpack("<d", struct.pack("<Q", int(b)))[0]


SPECIAL = [0x0000000000000000, 0x8000000000000000, 0x7FF0000000000000, 0xFFF0000000000000,
           0x7FF8000000000000, 0x0000000000000001, 0x800FFFFFFFFFFFFF, 0x7FEFFFFFFFFFFFFF,
           0x43B0000000000000, 0xC3B0000000000000, 0x3FF0000000000000, 0xBFF0000000000000]


def gen_value(r, mode):
    if mode == "int":
        return f2b(float(r.randint(-8, 8)))
    if mode == "order":
        # order-revealing: huge +-2^60 and ones
        return r.choice([f2b(2.0 ** 60), f2b(-2.0 ** 60), f2b(1.0), f2b(1.0), f2b(3.0), f2b(2.0 ** -30)])
    if mode == "moderate":
        return f2b((r.random() - 0.5) * 8)
    # full range bit patterns with a sprinkle of specials
    if r.random() < 0.08:
        return r.choice(SPECIAL)
    return r.getrandbits(64)


def gen_cases(ctx, lengths, modes):
    r = ctx.rnd()
    cases = []
    cid = 0
    for op, (code, nv, ns) in OPS.items():
        for n in lengths:
            for mode in modes:
                if op == "normalize" and n == 0:
                    continue
                c = {"id": cid, "op": op, "n": n, "mode": mode}
                for k in range(nv):
                    c[VNAMES[k]] = [str(gen_value(r, mode)) for _ in range(n)]
                if ns:
                    if op.startswith("std_norm_flow"):
                        c["a"] = str(f2b(r.choice([0.125, 0.3, 1.0, -0.7, 2.5])))
                    else:
                        c["a"] = str(gen_value(r, mode if mode != "full" else "moderate"))
                        if mode == "full" and r.random() < 0.15:
                            # a step of exactly +0 / -0 together with non-finite entries: 0 * inf = NaN
                            c["a"] = str(f2b(r.choice([0.0, -0.0])))
                cases.append(c)
                cid += 1
    return cases


def model_expr(c, o, lanes, fused):
    code, nv, ns = OPS[c["op"]]
    scal = []
    if c["op"] == "std_norm_flow":
        scal = [o["sin"], o["cos"]]
    elif ns:
        scal = [c["a"]]
    vecs = [c[VNAMES[k]] for k in range(nv)]
    if c["op"] == "multiply_inplace":
        vecs = [vecs[1], vecs[0]]  # out = x * out with out initialised from "x", x = "y"
    return "run_kernel %d%%N %d%%nat %s %s %s" % (
        code, lanes, coq_bool(fused), coq_list(["%s%%Z" % s for s in scal]),
        coq_list([coq_list(["%s%%Z" % b for b in v]) for v in vecs]))


def impl_result(c, o):
    if "panic" in o:
        return ("panic", o["panic"])
    if "b" in o:
        return [[1 if o["b"] else 0]]
    if "s" in o and "v" not in o:
        return [[int(x) for x in o["s"]]]
    res = [[int(x) for x in o["v"]]]
    if "v2" in o:
        res.append([int(x) for x in o["v2"]])
    return res


def is_nan_bits(b):
    return (b & 0x7FF0000000000000) == 0x7FF0000000000000 and (b & 0x000FFFFFFFFFFFFF) != 0


def same(a, b):
    """bit equality, except that all NaN payloads are identified"""
    if len(a) != len(b):
        return False
    for x, y in zip(a, b):
        if len(x) != len(y):
            return False
        for p, q in zip(x, y):
            if p != q and not (is_nan_bits(p) and is_nan_bits(q)):
                return False
    return True


def scalar_reference(c, o):
    """plain element-by-element formula in exact rational arithmetic on small-integer inputs: catches
    a skipped or doubled element independently of the Coq model"""
    from fractions import Fraction
    if c["mode"] != "int":
        return None
    V = [[Fraction(b2f(b)) for b in c.get(VNAMES[k], [])] for k in range(5)]
    a = Fraction(b2f(c["a"])) if "a" in c and not c["op"].startswith("std_norm") else None
    op = c["op"]
    if op in ("multiply", "multiply_inplace"):
        return [[x * y for x, y in zip(V[0], V[1])]]
    if op in ("axpy", "axpy_out"):
        return [[a * x + y for x, y in zip(V[0], V[1])]]
    if op == "vector_dot":
        return [[sum(x * y for x, y in zip(V[0], V[1]))]]
    if op == "scalar_prods2":
        return [[sum((p + q) * x for p, q, x in zip(V[0], V[1], V[2])),
                 sum((p + q) * y for p, q, y in zip(V[0], V[1], V[3]))]]
    if op == "scalar_prods3":
        return [[sum((p - m + q) * x for p, m, q, x in zip(V[0], V[1], V[2], V[3])),
                 sum((p - m + q) * y for p, m, q, y in zip(V[0], V[1], V[2], V[4]))]]
    if op == "sq_norm_sum":
        return [[sum((x + y) ** 2 for x, y in zip(V[0], V[1]))]]
    return None


def run(ctx):
    prop = ctx.prop
    audit_forbidden(ctx)
    check_property_file(ctx, prop, allow_axioms=AX)
    ok, out = build_harness(["kernels"])
    ctx.oblig("harness-build", ok, out[-3000:])
    if not ok:
        return
    rc, res, raw = run_harness("kernels", [{"id": 0, "op": "arch", "n": 0}])
    arch = res[0]["arch"] if res else "?"
    lanes, fused = (4, True) if arch.startswith("V3") else (8, True) if arch.startswith("V4") else (1, False)
    ctx.notes["host_arch"] = arch.split("(")[0]
    ctx.notes["lanes"] = lanes
    lengths = list(range(0, 131))
    modes = ["full", "int"] if ctx.tier == "quick" else ["full", "int", "order", "moderate", "full"]
    if ctx.tier == "quick":
        # every length for every operation once, alternating the two value modes
        cases = gen_cases(ctx, lengths, ["full"])
        for i, c in enumerate(gen_cases(ctx, lengths, ["int"])):
            if c["n"] % 2 == 1 or c["n"] in (0, 4, 16, 32, 64, 128, 130):
                c["id"] = len(cases)
                cases.append(c)
    else:
        cases = gen_cases(ctx, lengths, modes)
    outs, errs = run_harness_parallel("kernels", cases)
    ctx.oblig("harness-run", not errs and len(outs) == len(cases), "\n".join(errs)[:2000])
    prelude = "From NutsV Require Import lib.Fp model.Kernel model.KernelF64.\nFrom Coq Require Import ZArith NArith List.\nImport ListNotations.\n"
    todo = [c for c in cases if c["id"] in outs and "panic" not in outs[c["id"]]]
    # balance the shards by total vector length
    todo.sort(key=lambda c: -c["n"])
    shards = [[] for _ in range(16)]
    for i, c in enumerate(todo):
        shards[i % 16].append(c)
    order = [c for sh_ in shards for c in sh_]
    exprs = [model_expr(c, outs[c["id"]], lanes, fused) for c in order]
    vals, err = coq_eval_shards(prop + "_kern", prelude, exprs, shard_size=max(1, (len(exprs) + 15) // 16), timeout=1500)
    ctx.oblig("model-eval", err is None, err or "")
    if err:
        return
    nbad = 0
    stats = {"ops": {}, "lengths": len(set(c["n"] for c in cases)), "with_nan_or_inf": 0, "modes": {}}
    for c, m in zip(order, vals):
        o = outs[c["id"]]
        ctx.evaluations += 1
        stats["ops"][c["op"]] = stats["ops"].get(c["op"], 0) + 1
        stats["modes"][c["mode"]] = stats["modes"].get(c["mode"], 0) + 1
        if c["n"] >= 1:
            ctx.nontrivial.add((c["op"], c["n"], c["mode"]))
        im = impl_result(c, o)
        if any(is_nan_bits(int(b)) or (int(b) & 0x7FFFFFFFFFFFFFFF) == 0x7FF0000000000000 for k in range(5) for b in c.get(VNAMES[k], [])):
            stats["with_nan_or_inf"] += 1
        if len(ctx.samples) < 3 and c["n"] in (5, 13) and c["mode"] == "int":
            ctx.samples.append({"op": c["op"], "n": c["n"], "x": c.get("x"), "y": c.get("y"), "a": c.get("a"), "implementation": im, "model": m})
        ref = scalar_reference(c, o)
        ref_bad = None
        if ref is not None and not isinstance(im, tuple):
            from fractions import Fraction
            got = [[Fraction(b2f(b)) for b in row] for row in im]
            if got != ref:
                ref_bad = "result differs from the plain element-by-element formula on small integers"
        if c["op"] in ("all_finite", "all_finite_and_nonzero") and not isinstance(im, tuple):
            # the predicates have an exact meaning for every input: decide them from the bit patterns
            xs = [int(b) for b in c.get(VNAMES[0], [])]
            fin = all((b & 0x7FF0000000000000) != 0x7FF0000000000000 for b in xs)
            nz = all((b & 0x7FFFFFFFFFFFFFFF) != 0 for b in xs)
            want = fin if c["op"] == "all_finite" else (fin and nz)
            if im != [[1 if want else 0]]:
                ref_bad = "%s returned %s on an array for which the predicate is %s" % (c["op"], bool(im[0][0]), want)
                ref = [[int(want)]]
        if isinstance(im, tuple):
            nbad += 1
            violation(ctx, "kernel %s panicked for n=%d: %s" % (c["op"], c["n"], im[1]), {"case": c}, found_input=True)
        elif ref_bad:
            nbad += 1
            violation(ctx, "kernel %s, n=%d: %s" % (c["op"], c["n"], ref_bad),
                      {"case": c, "implementation": im, "expected": [[str(x) for x in row] for row in ref]}, found_input=True)
        elif not same(im, m):
            nbad += 1
            # decide whether this is a property violation: compare against the scalar formula in
            # high precision with a generous summation bound; otherwise the tie is broken only
            violation(ctx, "kernel %s, n=%d (%s values): binary64 model and implementation differ bit-wise" % (c["op"], c["n"], c["mode"]),
                      {"case": c, "implementation": im, "model": m, "lanes": lanes,
                       "correspondence": "model/KernelF64.v run_kernel vs CpuMath"}, found_input=False)
        if nbad > 5:
            break
    ctx.oblig("correspondence-kernels", nbad == 0, "%d cases differ" % nbad)
    ctx.notes["input_distribution"] = stats


_TB = [
    "Coq 8.16.1 kernel, vm_compute for model evaluation",
    "Flocq binary64 operations (b64_plus/mult/div/sqrt/fma, round to nearest even) with the 4 standard-library axioms Flocq depends on",
    "hand-written model coq/model/Kernel.v of the pulp WithSimd bodies; tied by bit-exact correspondence on this host's instruction set (lane count and fused mul_add_e read from pulp::Arch at run time)",
    "harness/src/bin/kernels.rs, tools/props/kernels.py",
    "not modelled: faer matmul inside apply_lowrank_transform (see C02), libm sin/cos/exp/ln (passed as inputs)",
]
TRUSTED = {"C17": _TB}
ASSUMPTIONS = {"C17": ["NaN payloads are not compared (any NaN equals any NaN)",
                       "other SIMD widths than this host's are covered by the lane-generic theorems, not by the correspondence"]}
RULE = {"C17": "every operation x every length 0..=130 x value modes (full-range random bit patterns with NaN/inf/zeros/subnormals, small integers compared exactly with the plain formula); distinct non-trivial = (operation, length>=1, mode)"}
