"""Common machinery of the /verif checks: Coq build + audit, harness build/run, model evaluation
through coqc/vm_compute, evidence files, replay files, known findings."""
import concurrent.futures
import hashlib
import json
import os
import re
import subprocess
import sys
import time

VERIF = os.path.dirname(os.path.dirname(os.path.abspath(__file__)))
COQ = os.path.join(VERIF, "coq")
BUILD = os.path.join(VERIF, "build")
HARNESS = os.path.join(VERIF, "harness")
TARGET = os.path.join(BUILD, "target")
REPO = "/repo"

FORBIDDEN = re.compile(
    r"\b(Admitted|admit|Axiom|Axioms|Parameter|Parameters|Conjecture|Conjectures|Unset Guard Checking|"
    r"bypass_check|Admit Obligations|type-in-type|impredicative-set|Unset Positivity Checking|"
    r"Unset Universe Checking)\b"
)

# axioms of the Coq standard library that theorems on the binary64 / Reals layer may depend on
STDLIB_AXIOMS = {
    "ClassicalDedekindReals.sig_forall_dec",
    "ClassicalDedekindReals.sig_not_dec",
    "FunctionalExtensionality.functional_extensionality_dep",
    "Classical_Prop.classic",
}


class Ctx:
    def __init__(self, prop, tier, seed):
        self.prop = prop
        self.tier = tier
        self.seed = seed
        self.t0 = time.time()
        self.obligations = []  # (name, ok, detail)
        self.violations = []  # (what, replay dict, found_input)
        self.known = []
        self.samples = []
        self.evaluations = 0
        self.nontrivial = set()
        self.notes = {}
        self.trusted = []
        self.assumptions = []
        self.checker_cmds = []
        self.level = "proof"

    def oblig(self, name, ok, detail=""):
        self.obligations.append((name, bool(ok), detail))
        return ok

    def rnd(self):
        import random

        return random.Random(self.seed)


def sh(cmd, cwd=None, timeout=3600, env=None, input=None):
    e = dict(os.environ)
    e.setdefault("CARGO_NET_OFFLINE", "true")
    if env:
        e.update(env)
    try:
        p = subprocess.run(
            cmd,
            cwd=cwd,
            shell=isinstance(cmd, str),
            stdout=subprocess.PIPE,
            stderr=subprocess.STDOUT,
            timeout=timeout,
            env=e,
            input=input,
            text=True,
        )
        return p.returncode, p.stdout
    except subprocess.TimeoutExpired as ex:
        out = ex.stdout or ""
        if isinstance(out, bytes):
            out = out.decode("utf-8", "replace")
        return 124, out + "\n[timeout]"


# ------------------------------------------------------------------------------------------------
# Coq
# ------------------------------------------------------------------------------------------------
def coq_files():
    res = []
    for root, _, files in os.walk(COQ):
        for f in files:
            if f.endswith(".v"):
                res.append(os.path.join(root, f))
    return sorted(res)


def grep_forbidden():
    """Returns list of (file, line, text) of forbidden vernacular in the development."""
    bad = []
    for f in coq_files():
        txt = open(f).read()
        # strip comments (nested)
        out = []
        depth = 0
        i = 0
        while i < len(txt):
            if txt.startswith("(*", i):
                depth += 1
                i += 2
            elif txt.startswith("*)", i) and depth > 0:
                depth -= 1
                i += 2
            else:
                if depth == 0:
                    out.append(txt[i])
                elif txt[i] == "\n":
                    out.append("\n")
                i += 1
        code = "".join(out)
        for n, line in enumerate(code.split("\n"), 1):
            if FORBIDDEN.search(line):
                bad.append((os.path.relpath(f, VERIF), n, line.strip()))
            # Variable/Hypothesis outside a section are checked structurally below
        # crude section tracking for Variable/Hypothesis
        depth = 0
        for n, line in enumerate(code.split("\n"), 1):
            s = line.strip()
            if re.match(r"^Section\b", s):
                depth += 1
            elif re.match(r"^End\b", s) and depth > 0:
                depth -= 1
            elif depth == 0 and re.match(r"^(Variable|Variables|Hypothesis|Hypotheses|Context)\b", s):
                bad.append((os.path.relpath(f, VERIF), n, s))
    return bad


def ensure_makefile():
    mk = os.path.join(COQ, "Makefile")
    cp = os.path.join(COQ, "_CoqProject")
    if not os.path.exists(mk) or os.path.getmtime(mk) < os.path.getmtime(cp):
        sh("coq_makefile -f _CoqProject -o Makefile", cwd=COQ)


def coq_make(targets, timeout=1500):
    """Full .vo build of the given targets (paths relative to coq/, .vo)."""
    ensure_makefile()
    rc, out = sh(["make", "-j16"] + list(targets), cwd=COQ, timeout=timeout)
    return rc == 0, out


def coqc_file(path, timeout=900):
    """Compile one file with coqc (always, to capture its output)."""
    rc, out = sh(
        ["coqc", "-Q", ".", "NutsV", "-w",
         "-notation-overridden,-deprecated-hint-without-locality,-deprecated-instance-without-locality,-ambiguous-paths",
         path],
        cwd=COQ, timeout=timeout)
    return rc == 0, out


def parse_assumptions(out):
    """Parse the output of the Print Assumptions commands of a Properties file.
    Returns list of (closed?, [axiom names])."""
    res = []
    blocks = re.split(r"(?m)^(?=Closed under the global context|Axioms:)", out)
    for b in blocks:
        if b.startswith("Closed under the global context"):
            res.append((True, []))
        elif b.startswith("Axioms:"):
            names = re.findall(r"(?m)^([A-Za-z_][\w\.']*)\s*\n?\s*:", b[len("Axioms:"):])
            res.append((False, names))
    return res


def check_property_file(ctx, name, allow_axioms=()):
    """Builds Properties/<name>.v (and its cone), audits assumptions, registers obligations."""
    rel = "Properties/%s.v" % name
    ok, out = coq_make([rel + "o"])
    ctx.checker_cmds.append("make -C coq -j16 %so && coqc %s (Print Assumptions audit)" % (rel, rel))
    ctx.oblig("coq-build:%s" % rel, ok, out[-3000:] if not ok else "")
    if not ok:
        return False, out
    ok2, out2 = coqc_file(rel)
    ctx.oblig("coqc:%s" % rel, ok2, out2[-3000:] if not ok2 else "")
    if not ok2:
        return False, out2
    src = open(os.path.join(COQ, rel)).read()
    n_thm = len(re.findall(r"(?m)^(Theorem|Corollary|Example)\b", src))
    n_print = len(re.findall(r"(?m)^Print Assumptions\b", src))
    ass = parse_assumptions(out2)
    ctx.oblig("print-assumptions-count:%s" % name, len(ass) == n_print and n_print >= 1,
              "found %d blocks for %d commands" % (len(ass), n_print))
    allowed = set(allow_axioms)
    used = set()
    good = True
    for closed, names in ass:
        for a in names:
            used.add(a)
            if a not in allowed:
                good = False
    ctx.oblig("axiom-allowlist:%s" % name, good, "used=%s allowed=%s" % (sorted(used), sorted(allowed)))
    for i in range(n_thm):
        ctx.oblig("theorem:%s#%d" % (name, i), True)
    if ctx.tier == "thorough":
        # independent re-check of the compiled property file and everything it depends on
        rc3, out3 = sh(["coqchk", "-o", "-silent", "-Q", ".", "NutsV", "NutsV.Properties.%s" % name], cwd=COQ, timeout=2400)
        ctx.checker_cmds.append("coqchk -o -silent -Q coq NutsV NutsV.Properties.%s" % name)
        axs = []
        m = re.search(r"\* Axioms:(.*?)\n\s*\n", out3, re.S)
        if m:
            axs = [a.strip() for a in m.group(1).split("\n") if a.strip() and a.strip() != "<none>"]
        short = set(a.replace("Coq.Logic.", "").replace("Coq.Reals.", "") for a in axs)
        clean = rc3 == 0 and short <= allowed and all(
            re.search(r"\* %s: <none>" % re.escape(k), out3) for k in
            ("Constants/Inductives relying on type-in-type", "Constants/Inductives relying on unsafe (co)fixpoints",
             "Inductives whose positivity is assumed"))
        ctx.oblig("coqchk:%s" % name, clean, out3[-1500:])
        ctx.notes.setdefault("coqchk_axioms", {})[name] = sorted(short)
    ctx.notes.setdefault("axioms_used", {})[name] = sorted(used)
    ctx.notes.setdefault("theorems", {})[name] = re.findall(r"(?m)^(?:Theorem|Corollary|Example)\s+(\w+)", src)
    return good and ok2, out2


def audit_forbidden(ctx):
    bad = grep_forbidden()
    ctx.oblig("no-admitted-axiom-grep", not bad, json.dumps(bad[:10]))
    return not bad


# ---- model evaluation -------------------------------------------------------------------------
_tok = re.compile(r"\s+")


def parse_coq_value(txt):
    """Parse a printed Coq value made of lists, pairs, numbers (with %Z/%N/%positive scopes),
    booleans and strings into Python lists/tuples/ints/bools/strs."""
    s = txt
    s = re.sub(r"%(Z|N|nat|positive|string)", "", s)
    pos = 0
    n = len(s)

    def skip():
        nonlocal pos
        while pos < n and s[pos].isspace():
            pos += 1

    def val():
        nonlocal pos
        skip()
        c = s[pos]
        if c == "[":
            pos += 1
            items = []
            skip()
            if s[pos] == "]":
                pos += 1
                return items
            while True:
                items.append(val())
                skip()
                if s[pos] == ";":
                    pos += 1
                elif s[pos] == "]":
                    pos += 1
                    return items
                else:
                    raise ValueError("bad list at %d: %r" % (pos, s[pos:pos + 30]))
        if c == "(":
            pos += 1
            items = [val()]
            skip()
            while s[pos] == ",":
                pos += 1
                items.append(val())
                skip()
            if s[pos] != ")":
                raise ValueError("bad tuple at %d: %r" % (pos, s[pos:pos + 30]))
            pos += 1
            return items[0] if len(items) == 1 else tuple(items)
        if c == '"':
            pos += 1
            out = []
            while True:
                if s[pos] == '"':
                    if pos + 1 < n and s[pos + 1] == '"':
                        out.append('"')
                        pos += 2
                        continue
                    pos += 1
                    break
                out.append(s[pos])
                pos += 1
            return "".join(out)
        m = re.match(r"-?\d+", s[pos:])
        if m:
            pos += len(m.group(0))
            return int(m.group(0))
        m = re.match(r"[A-Za-z_][\w']*", s[pos:])
        if m:
            w = m.group(0)
            pos += len(w)
            if w == "true":
                return True
            if w == "false":
                return False
            if w in ("Some",):
                return ("Some", val())
            if w == "None":
                return None
            return w
        raise ValueError("cannot parse at %d: %r" % (pos, s[pos:pos + 40]))

    v = val()
    return v


def split_evals(out):
    """Split coqc output into the values printed by successive Eval commands."""
    parts = re.split(r"(?m)^\s*= ", out)
    vals = []
    for p in parts[1:]:
        # value ends at the line starting with ': type'
        m = re.search(r"(?m)^\s*: ", p)
        body = p[: m.start()] if m else p
        vals.append(body)
    return vals


def coq_eval_shards(name, prelude, exprs, shard_size=200, timeout=900, workers=16):
    """Evaluate Coq expressions with vm_compute.  `exprs` is a list of Coq terms (strings).
    Returns (values, error) where values is a list of parsed Python values, one per expr."""
    d = os.path.join(BUILD, "cases", "p%d" % os.getpid())
    os.makedirs(d, exist_ok=True)
    shards = [exprs[i:i + shard_size] for i in range(0, len(exprs), shard_size)]
    files = []
    for i, sh_exprs in enumerate(shards):
        fn = os.path.join(d, "%s_%d.v" % (name, i))
        with open(fn, "w") as f:
            f.write(prelude + "\nSet Printing Width 1000000.\nSet Printing Depth 10000000.\n")
            for e in sh_exprs:
                f.write("Eval vm_compute in (%s).\n" % e)
        files.append(fn)

    def run(fn):
        rc, out = sh(["coqc", "-noglob", "-Q", COQ, "NutsV", "-w", "none", fn], cwd=d, timeout=timeout)
        return rc, out

    results = [None] * len(files)
    with concurrent.futures.ThreadPoolExecutor(max_workers=workers) as ex:
        futs = {ex.submit(run, fn): i for i, fn in enumerate(files)}
        for fu in concurrent.futures.as_completed(futs):
            results[futs[fu]] = fu.result()
    import shutil
    vals = []
    if all(rc == 0 for rc, _ in results):
        shutil.rmtree(d, ignore_errors=True)
    for i, (rc, out) in enumerate(results):
        if rc != 0:
            return None, "coqc failed on %s:\n%s" % (files[i], out[-3000:])
        pv = split_evals(out)
        if len(pv) != len(shards[i]):
            return None, "expected %d values from %s, got %d\n%s" % (len(shards[i]), files[i], len(pv), out[-2000:])
        for b in pv:
            vals.append(parse_coq_value(b))
    return vals, None


# ------------------------------------------------------------------------------------------------
# Harness
# ------------------------------------------------------------------------------------------------
def build_harness(bins, timeout=3000):
    os.makedirs(BUILD, exist_ok=True)
    lock_src = os.path.join(REPO, "Cargo.lock")
    args = ["cargo", "build", "--offline"]
    for b in bins:
        args += ["--bin", b]
    rc, out = sh(args, cwd=HARNESS, timeout=timeout, env={"CARGO_TARGET_DIR": TARGET})
    return rc == 0, out


def run_harness(binname, cases, timeout=1800, env=None):
    """Feeds JSON cases (one per line) to a harness binary; returns list of parsed JSON outputs."""
    exe = os.path.join(TARGET, "debug", binname)
    inp = "\n".join(json.dumps(c) for c in cases) + "\n"
    rc, out = sh([exe], input=inp, timeout=timeout, env=env)
    res = []
    for line in out.split("\n"):
        line = line.strip()
        if line.startswith("{"):
            try:
                res.append(json.loads(line))
            except Exception:
                pass
    return rc, res, out


def run_harness_parallel(binname, cases, workers=16, timeout=1800, env=None):
    chunks = [cases[i::workers] for i in range(workers)]
    chunks = [c for c in chunks if c]
    outs = {}
    errs = []
    with concurrent.futures.ThreadPoolExecutor(max_workers=workers) as ex:
        futs = [ex.submit(run_harness, binname, c, timeout, env) for c in chunks]
        for fu in futs:
            rc, res, out = fu.result()
            if rc != 0:
                errs.append(out[-2000:])
            for r in res:
                outs[r.get("id")] = r
    return outs, errs


# ------------------------------------------------------------------------------------------------
# Evidence, replays, known findings
# ------------------------------------------------------------------------------------------------
def load_known():
    p = os.path.join(VERIF, "KNOWN_FINDINGS.json")
    if os.path.exists(p):
        return json.load(open(p))
    return {"findings": [], "fixed": []}


def write_replay(ctx, payload):
    d = os.path.join(VERIF, "replays")
    os.makedirs(d, exist_ok=True)
    h = hashlib.sha1(json.dumps(payload, sort_keys=True, default=str).encode()).hexdigest()[:10]
    p = os.path.join(d, "%s-%s.json" % (ctx.prop, h))
    with open(p, "w") as f:
        json.dump(payload, f, indent=1, default=str)
    return p


def violation(ctx, what, payload, found_input=True, key=None):
    """Registers a violation unless it matches a known finding (by key)."""
    known = load_known()
    for k in known.get("findings", []):
        if k.get("property") == ctx.prop and key is not None and k.get("key") == key:
            ctx.known.append((k, what))
            return
    payload = dict(payload)
    payload["property"] = ctx.prop
    payload["what"] = what
    payload["seed"] = ctx.seed
    payload["tier"] = ctx.tier
    ctx.violations.append((what, payload, found_input))


def finish(ctx, rule, assumptions, trusted_base, explanation=None):
    wall = time.time() - ctx.t0
    n_ob = len(ctx.obligations)
    n_ok = sum(1 for o in ctx.obligations if o[1])
    failed = [o for o in ctx.obligations if not o[1]]
    # a failed obligation with no concrete violation registered is itself a violation
    if failed and not ctx.violations:
        violation(ctx, "proof obligation or tie no longer checks: " + ", ".join(o[0] for o in failed[:5]),
                  {"failed_obligations": [(o[0], o[2][-1500:]) for o in failed[:5]]}, found_input=False)
    cov = {
        "obligations": max(n_ob, 1),
        "discharged": n_ok if not ctx.violations else min(n_ok, max(n_ob - 1, 0)),
        "checker_cmd": "; ".join(dict.fromkeys(ctx.checker_cmds)) or "./check %s" % ctx.prop,
        "trusted_base": trusted_base,
        "evaluations": max(ctx.evaluations, 1),
        "distinct_nontrivial": len(ctx.nontrivial),
        "rule": rule,
        "samples": ctx.samples[:6] if ctx.samples else [{"note": "no correspondence cases in this run"}],
        "obligation_names": [o[0] for o in ctx.obligations],
        "failed_obligations": [o[0] for o in failed],
        "exhaustive": False,
    }
    cov.update(ctx.notes)
    if explanation:
        cov["explanation"] = explanation
    ev = {
        "property_id": ctx.prop,
        "tier": ctx.tier,
        "seed": ctx.seed,
        "level": ctx.level,
        "coverage": cov,
        "assumptions": assumptions,
        "wall_s": round(wall, 2),
        "violations": len(ctx.violations),
        "known_findings": [k[0].get("key") for k in ctx.known],
    }
    os.makedirs(os.path.join(VERIF, "evidence"), exist_ok=True)
    with open(os.path.join(VERIF, "evidence", "%s.json" % ctx.prop), "w") as f:
        json.dump(ev, f, indent=1, default=str)
    seen = set()
    for k, what in ctx.known:
        if k.get("key") in seen:
            continue
        seen.add(k.get("key"))
        print("KNOWN-FINDING: property=%s %s" % (ctx.prop, k.get("what", what)))
    if ctx.violations:
        # concrete failing inputs first; a broken proof / tie without one is still reported
        conc = [v for v in ctx.violations if v[2]]
        tie = [v for v in ctx.violations if not v[2]]
        for what, payload, found in (conc[:5] + tie[:2] if conc else tie[:5]):
            p = write_replay(ctx, payload)
            tail = "" if found else " no-failing-input-found"
            print("VIOLATION property=%s replay=%s%s" % (ctx.prop, p, tail))
            print("  " + what[:400])
        return 1
    print("OK property=%s tier=%s obligations=%d/%d evaluations=%d wall=%.1fs" % (
        ctx.prop, ctx.tier, n_ok, n_ob, ctx.evaluations, wall))
    return 0


def coq_bool(b):
    return "true" if b else "false"


def coq_list(items):
    return "[" + "; ".join(items) + "]"


def zlit(n):
    n = int(n)
    return "(%d)%%Z" % n


def nlit(n):
    return "%d%%N" % int(n)
