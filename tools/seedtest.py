#!/usr/bin/env python3
"""Confirm a seeded mutation in its scratch worktree and run checks against it in /repo.
usage: seedtest.py confirm <Cxx> <n>          (in /tmp/mut_Cxx with /tmp/mut_Cxx_out)
       seedtest.py detect  <Cxx> <n> <check ids...>   (applies to /repo, runs checks, reverts)
"""
import json
import os
import re
import shutil
import subprocess
import sys

ENV = dict(os.environ, CARGO_NET_OFFLINE="true")


def sh(cmd, cwd=None, timeout=3600):
    p = subprocess.run(cmd, cwd=cwd, shell=True, stdout=subprocess.PIPE, stderr=subprocess.STDOUT, text=True, env=ENV, timeout=timeout)
    return p.returncode, p.stdout


def demo_cmd(out, n):
    howto = open(os.path.join(out, "demo_%s_howto.txt" % n)).read()
    m = re.findall(r"(cargo (?:test|run)[^\n]*(?:demo[a-z0-9_]*_%s|--example)[^\n]*)" % n, howto)
    cmds = [c.strip() for c in m if "cp " not in c and "--workspace" not in c]
    return re.split(r"\s+[;#]", cmds[0])[0].strip() if cmds else None


def append_target(out, n):
    howto = open(os.path.join(out, "demo_%s_howto.txt" % n)).read()
    m = re.findall(r"cat \S*demo_%s\.rs\s*>>\s*(src/\S+)" % n, howto)
    return m[0] if m else None


def confirm(prop, n):
    wt, out = "/tmp/mut_%s" % prop, "/tmp/mut_%s_out" % prop
    sh("git checkout -- . ", cwd=wt)
    res = {"property": prop, "n": n}
    # place demo files
    app = append_target(out, n)
    res["append_to"] = app

    def place_appended():
        if app:
            with open(os.path.join(wt, app), "a") as fh:
                fh.write(open(os.path.join(out, "demo_%s.rs" % n)).read())
    place_appended()
    for f in os.listdir(out):
        if app:
            break
        if f.startswith("demo_%s" % n) and f.endswith(".rs"):
            dst = os.path.join(wt, "tests", f)
            if not os.path.exists(dst) and not os.path.exists(os.path.join(wt, "examples", f)):
                shutil.copy(os.path.join(out, f), dst)
    cmd = demo_cmd(out, n)
    res["demo_cmd"] = cmd
    if not cmd:
        res["error"] = "no demo command found in howto"
        return res
    if "--offline" not in cmd:
        cmd += " --offline"
    rc0, _ = sh(cmd, cwd=wt)
    res["demo_without_patch_rc"] = rc0
    if app:
        sh("git checkout -- .", cwd=wt)
    rc, o = sh("git apply %s/patch_%s.diff" % (out, n), cwd=wt)
    res["apply_rc"] = rc
    rc, o = sh("cargo build --offline --features zarr,arrow,ndarray 2>&1 | tail -3", cwd=wt)
    # baseline with the patch but without the demonstration files
    stash = []
    for f in os.listdir(os.path.join(wt, "tests")):
        if f.startswith("demo"):
            shutil.move(os.path.join(wt, "tests", f), os.path.join("/tmp", "seedtest_" + prop + "_" + f))
            stash.append(f)
    rcb, ob = sh("cargo test --workspace --no-fail-fast --offline 2>&1 | grep -E '^test result'", cwd=wt)
    for f in stash:
        shutil.move(os.path.join("/tmp", "seedtest_" + prop + "_" + f), os.path.join(wt, "tests", f))
    lines = [l for l in ob.strip().split("\n") if l.startswith("test result")]
    res["baseline_with_patch"] = lines
    npass = sum(int(re.search(r"(\d+) passed", l).group(1)) for l in lines)
    res["baseline_passed"] = npass
    res["baseline_ok"] = bool(lines) and all(" 0 failed" in l for l in lines) and npass >= 45
    place_appended()
    rc2, o2 = sh(cmd, cwd=wt)
    res["demo_with_patch_rc"] = rc2
    res["demo_with_patch_tail"] = o2[-600:]
    sh("git checkout -- .", cwd=wt)
    res["confirmed"] = bool(res["apply_rc"] == 0 and res["baseline_ok"] and rc0 == 0 and rc2 != 0)
    return res


def detect(prop, n, checks):
    out = "/tmp/mut_%s_out" % prop
    patch = os.path.join(out, "patch_%s.diff" % n)
    kept = os.path.join("/verif/seeded", "%s-%s" % (prop, n), "patch.diff")
    if os.path.exists(kept):
        patch = kept
    rc, o = sh("git -C /repo status --short | grep -v '^??' | head", cwd="/repo")
    if o.strip():
        return {"error": "/repo not clean: " + o}
    rc, o = sh("git -C /repo apply %s" % patch)
    res = {"apply_rc": rc, "apply_out": o[-300:], "checks": {}}
    try:
        if rc == 0:
            for c in checks:
                rcc, oc = sh("./check %s" % c, cwd="/verif", timeout=3000)
                lines = [l for l in oc.split("\n") if l.startswith("VIOLATION") or l.startswith("OK")]
                detail = [l for l in oc.split("\n") if l.startswith("  ")][:3]
                res["checks"][c] = {"rc": rcc, "lines": lines[:4], "detail": detail}
    finally:
        sh("git -C /repo checkout -- .")
        # evidence files describe the unchanged tree: put them back
        sh("git -C /verif checkout -- evidence")
        # ... and the regenerated declarations were translated from the patched source
        sh("git -C /verif checkout -- coq/gen")
    return res


def keep(prop, n):
    """store a confirmed change under /verif/seeded/<prop>-<n>/ (patch.diff, demonstration, meta.json)"""
    out = os.environ.get("SEED_OUT", "/tmp/mut_%s_out" % prop)
    dst = os.path.join("/verif/seeded", "%s-%s" % (prop, n))
    os.makedirs(dst, exist_ok=True)
    shutil.copy(os.path.join(out, "patch_%s.diff" % n), os.path.join(dst, "patch.diff"))
    for f in os.listdir(out):
        if f.startswith("demo_%s" % n) and not f.endswith(".log"):
            shutil.copy(os.path.join(out, f), os.path.join(dst, f))
    meta = json.load(open(os.path.join(out, "meta_%s.json" % n)))
    meta["seeded_id"] = "%s-%s" % (prop, n)
    for kind in ("confirm", "detect"):
        p = "/tmp/seedres/%s_%s_%s.json" % (kind, prop, n)
        if os.path.exists(p):
            r = json.load(open(p))
            if kind == "confirm":
                meta["confirmed_by_me"] = {k: r.get(k) for k in ("demo_cmd", "append_to", "demo_without_patch_rc", "demo_with_patch_rc", "baseline_passed", "baseline_ok", "confirmed")}
                meta["confirmed_by_me"]["how"] = "tools/seedtest.py confirm in a scratch git worktree of /repo: baseline suite with the patch, demonstration with and without the patch"
            else:
                meta["checks_run"] = {c: {"exit": v["rc"], "lines": v["lines"], "detail": v["detail"]} for c, v in r.get("checks", {}).items()}
                meta["detected_by"] = [c for c, v in r.get("checks", {}).items()
                                       if v["rc"] == 1 and (any(l.startswith("VIOLATION") for l in v["lines"]) or any("violates" in x or "broken" in x for x in v["detail"]))]
                meta["concrete_input"] = [c for c, v in r.get("checks", {}).items() if v["rc"] == 1 and any("implementation violates" in x or "kernel " in x for x in v["detail"])]
    json.dump(meta, open(os.path.join(dst, "meta.json"), "w"), indent=1)
    return meta


if __name__ == "__main__":
    mode, prop, n = sys.argv[1], sys.argv[2], sys.argv[3]
    if mode == "confirm":
        print(json.dumps(confirm(prop, n), indent=1))
    elif mode == "keepverdict":
        mp = os.path.join("/verif/seeded", "%s-%s" % (prop, n), "meta.json")
        meta = json.load(open(mp))
        r = json.load(open("/tmp/seedres/detect_%s_%s.json" % (prop, n)))
        meta["checks_run"] = {c: {"exit": v["rc"], "lines": v["lines"], "detail": v["detail"]} for c, v in r.get("checks", {}).items()}
        meta["detected_by"] = [c for c, v in r.get("checks", {}).items()
                               if v["rc"] == 1 and (any(l.startswith("VIOLATION") for l in v["lines"]) or any("violates" in x or "broken" in x for x in v["detail"]))]
        meta["concrete_input"] = [c for c, v in r.get("checks", {}).items() if v["rc"] == 1 and any("implementation violates" in x or "kernel " in x for x in v["detail"])]
        json.dump(meta, open(mp, "w"), indent=1)
        print(meta["detected_by"])
    elif mode == "keep":
        print(json.dumps(keep(prop, n), indent=1)[:400])
    else:
        print(json.dumps(detect(prop, n, sys.argv[4:]), indent=1))
