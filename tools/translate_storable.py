#!/usr/bin/env python3
"""Translator for C16: reads the CURRENT sources of the crate (default /repo, override with the
environment variable VERIF_REPO or --repo) and regenerates coq/gen/StorableDecls.v:

  * `raw_structs`  - a deep embedding of every struct that carries `#[derive(.. Storable ..)]`
                     (also `nuts_derive::Storable`): struct name, module, generic parameters with
                     their bounds, and per field: name, canonical Rust type string (the string
                     `quote!(#ty).to_string()` gives: tokens separated by one blank),
                     `dims(..)`, `event = ".."`, `flatten`, `ignore`, Option?, generic parameter?
  * one Gallina definition per struct (`decl` of model/Derive.v); a struct with generic
    parameters that carry a `Storable` bound becomes a function of those parameters
  * `macro_table_src` - the rows of the `match ty_str.as_str()` table of nuts-derive/src/lib.rs
                     (pattern, ItemType, shape of value_expr)
  * `preset_*` / `presets` - how the six settings presets instantiate the generic parameters.

The field classification repeats the decision sequence of the macro (ignore, flatten, generic
parameter, table lookup, `_` arm).  The parser is a tolerant hand parser for the syntax that
occurs in /repo; anything it does not understand raises TranslateError (the check then fails).

Preset instantiation: hand-written table PRESETS / STATS_IMPLS below, derived from reading
src/sampler.rs (`type Chain<M> = ...` of the six `impl Settings for ...`, the aliases
DiagNutsChain / LowRankNutsChain / DiagMclmcChain / LowRankMclmcChain) and the
`type Stats = ...` lines of the `impl SamplerStats<M> for ...` blocks.  Every entry of the table
carries the source text it was read from; the translator re-reads these anchors on every run and
fails when one of them no longer matches (the table would be outdated then).
"""
import json
import os
import re
import sys


class TranslateError(Exception):
    pass


# ------------------------------------------------------------------------------------------------
# lexing helpers
# ------------------------------------------------------------------------------------------------
def strip_comments(src):
    """Removes // and /* */ comments (nested), keeps string and char literals."""
    out = []
    i, n = 0, len(src)
    while i < n:
        c = src[i]
        if src.startswith("//", i):
            j = src.find("\n", i)
            i = n if j < 0 else j
        elif src.startswith("/*", i):
            depth = 1
            i += 2
            while i < n and depth:
                if src.startswith("/*", i):
                    depth += 1
                    i += 2
                elif src.startswith("*/", i):
                    depth -= 1
                    i += 2
                else:
                    if src[i] == "\n":
                        out.append("\n")
                    i += 1
        elif c == '"':
            j = i + 1
            while j < n and src[j] != '"':
                j += 2 if src[j] == "\\" else 1
            out.append(src[i:j + 1])
            i = j + 1
        elif c == "r" and re.match(r'r#*"', src[i:]) and (i == 0 or not (src[i - 1].isalnum() or src[i - 1] == "_")):
            m = re.match(r'r(#*)"', src[i:])
            close = '"' + m.group(1)
            j = src.find(close, i + len(m.group(0)))
            if j < 0:
                raise TranslateError("unterminated raw string")
            out.append(src[i:j + len(close)])
            i = j + len(close)
        elif c == "'":
            m = re.match(r"'(\\.|[^\\'])'", src[i:])
            if m:
                out.append(m.group(0))
                i += len(m.group(0))
            else:  # lifetime
                out.append(c)
                i += 1
        else:
            out.append(c)
            i += 1
    return "".join(out)


TOKEN = re.compile(r"""
    \s+
  | (?P<str>"(?:\\.|[^"\\])*")
  | (?P<life>'[A-Za-z_]\w*)
  | (?P<id>[A-Za-z_]\w*)
  | (?P<num>\d\w*)
  | (?P<op>::|->|=>|==|[<>(){}\[\],:;=#!&+*?.|$@-])
  | (?P<other>.)
""", re.X)


def tokenize(s, what=""):
    toks = []
    i = 0
    while i < len(s):
        m = TOKEN.match(s, i)
        if not m:
            raise TranslateError("cannot tokenize %s at %r" % (what, s[i:i + 30]))
        i = m.end()
        if m.lastgroup:
            toks.append(m.group(m.lastgroup))
    return toks


OPEN = {"(": ")", "[": "]", "{": "}", "<": ">"}
CLOSE = {v: k for k, v in OPEN.items()}


def split_top(toks, sep=","):
    """Split a token list at top-level separators (angle brackets count, `->` is one token)."""
    parts, cur, stack = [], [], []
    for t in toks:
        if t in OPEN:
            stack.append(t)
        elif t in CLOSE:
            if not stack or stack[-1] != CLOSE[t]:
                raise TranslateError("unbalanced %r in %s" % (t, " ".join(toks)))
            stack.pop()
        if t == sep and not stack:
            parts.append(cur)
            cur = []
        else:
            cur.append(t)
    if stack:
        raise TranslateError("unbalanced brackets in %s" % " ".join(toks))
    if cur:
        parts.append(cur)
    return parts


def matching(toks, i):
    """Index of the token closing the bracket at toks[i]."""
    stack = []
    for j in range(i, len(toks)):
        t = toks[j]
        if t in OPEN:
            stack.append(t)
        elif t in CLOSE:
            if not stack or stack[-1] != CLOSE[t]:
                raise TranslateError("unbalanced bracket near %s" % " ".join(toks[max(0, j - 8):j + 1]))
            stack.pop()
            if not stack:
                return j
    raise TranslateError("no closing bracket for %s" % " ".join(toks[i:i + 8]))


# ------------------------------------------------------------------------------------------------
# struct parsing
# ------------------------------------------------------------------------------------------------
def parse_attr_storable(toks, where):
    """toks: the tokens inside storable( ... ).  Mirrors `impl Parse for StorableAttr`."""
    dims, event = [], None
    for meta in split_top(toks):
        if not meta:
            continue
        if len(meta) == 1 and meta[0] == "flatten":
            return {"flatten": True}
        if len(meta) == 1 and meta[0] == "ignore":
            return {"ignore": True}
        if meta[0] == "dims" and len(meta) >= 3 and meta[1] == "(" and meta[-1] == ")":
            dims = []
            for d in split_top(meta[2:-1]):
                if len(d) != 1 or not d[0].startswith('"'):
                    raise TranslateError("%s: dims(..) expects string literals, got %s" % (where, " ".join(d)))
                dims.append(json.loads(d[0]))
            continue
        if meta[0] == "event" and len(meta) == 3 and meta[1] == "=" and meta[2].startswith('"'):
            event = json.loads(meta[2])
            continue
        raise TranslateError("%s: unsupported storable attribute `%s`" % (where, " ".join(meta)))
    return {"dims": dims, "event": event}


def parse_generics(toks, where):
    """toks between < and > of the struct header -> [(name, [bound strings])]."""
    res = []
    for p in split_top(toks):
        if not p:
            continue
        if p[0].startswith("'") or p[0] == "const":
            raise TranslateError("%s: lifetime/const generic parameters are not supported" % where)
        name = p[0]
        bounds = []
        rest = p[1:]
        default = None
        if "=" in rest:
            k = rest.index("=")
            default = rest[k + 1:]
            rest = rest[:k]
        if default is not None:
            raise TranslateError("%s: defaulted generic parameter %s not supported" % (where, name))
        if rest:
            if rest[0] != ":":
                raise TranslateError("%s: cannot parse generic parameter `%s`" % (where, " ".join(p)))
            bounds = [" ".join(b) for b in split_top(rest[1:], "+")]
        res.append((name, bounds))
    return res


def bound_last_segment(b):
    toks = b.split(" ")
    # path up to the first `<`
    path = []
    for t in toks:
        if t == "<":
            break
        path.append(t)
    segs = [t for t in path if t != "::"]
    return segs[-1] if segs else "", len(segs)


def parse_structs(src, module):
    """All structs of one file that carry the Storable derive."""
    code = strip_comments(src)
    toks = tokenize(code, module)
    res = []
    i = 0
    n = len(toks)
    while i < n:
        if toks[i] == "#" and i + 1 < n and toks[i + 1] == "[":
            # collect the run of outer attributes
            attrs = []
            j = i
            while j < n and toks[j] == "#" and toks[j + 1] == "[":
                e = matching(toks, j + 1)
                attrs.append(toks[j + 2:e])
                j = e + 1
            derives = False
            for a in attrs:
                if a and a[0] == "derive":
                    inner = a[2:-1]
                    for d in split_top(inner):
                        if d and d[-1] == "Storable":
                            derives = True
            if derives:
                # visibility
                k = j
                if toks[k] == "pub":
                    k += 1
                    if toks[k] == "(":
                        k = matching(toks, k) + 1
                if toks[k] != "struct":
                    raise TranslateError("%s: Storable derived on something that is not a struct (%s)"
                                         % (module, " ".join(toks[k:k + 4])))
                name = toks[k + 1]
                k += 2
                where = "%s::%s" % (module, name)
                generics = []
                if toks[k] == "<":
                    e = matching(toks, k)
                    generics = parse_generics(toks[k + 1:e], where)
                    k = e + 1
                if toks[k] == "where":
                    raise TranslateError("%s: where clauses on Storable structs are not supported" % where)
                if toks[k] != "{":
                    raise TranslateError("%s: only structs with named fields are supported" % where)
                e = matching(toks, k)
                fields = parse_fields(toks[k + 1:e], where, generics)
                res.append({"name": name, "module": module, "generics": generics, "fields": fields})
                i = e + 1
                continue
            i = j
            continue
        i += 1
    return res


def parse_fields(toks, where, generics):
    fields = []
    for ft in split_top(toks):
        if not ft:
            continue
        k = 0
        storable = None
        while k < len(ft) and ft[k] == "#":
            if ft[k + 1] != "[":
                raise TranslateError("%s: unexpected attribute syntax" % where)
            e = matching(ft, k + 1)
            a = ft[k + 2:e]
            if a and a[0] == "storable":
                if storable is None:  # the macro takes the first storable attribute
                    if len(a) < 3 or a[1] != "(" or a[-1] != ")":
                        raise TranslateError("%s: storable attribute without arguments" % where)
                    storable = parse_attr_storable(a[2:-1], where)
            k = e + 1
        if ft[k] == "pub":
            k += 1
            if ft[k] == "(":
                k = matching(ft, k) + 1
        fname = ft[k]
        if not re.match(r"^[A-Za-z_]\w*$", fname) or ft[k + 1] != ":":
            raise TranslateError("%s: cannot parse field `%s`" % (where, " ".join(ft[k:k + 6])))
        ty = ft[k + 2:]
        if not ty:
            raise TranslateError("%s.%s: missing type" % (where, fname))
        fields.append(classify_field(fname, ty, storable, where, generics))
    return fields


def table_patterns(repo):
    return [r[0] for r in parse_macro_table(repo)]


_MACRO_CACHE = {}


def parse_macro_table(repo):
    """Rows of `match ty_str.as_str() { "pat" => StorableField::Basic(.. item_type: quote!{..ItemType::X},
    value_expr: quote!{..} ..) }` of nuts-derive/src/lib.rs, in source order."""
    if repo in _MACRO_CACHE:
        return _MACRO_CACHE[repo]
    p = os.path.join(repo, "nuts-derive", "src", "lib.rs")
    src = strip_comments(open(p).read())
    m = re.search(r"match\s+ty_str\s*\.\s*as_str\s*\(\s*\)\s*\{", src)
    if not m:
        raise TranslateError("nuts-derive: `match ty_str.as_str()` table not found")
    # body up to the matching brace
    depth, i = 1, m.end()
    while depth:
        if i >= len(src):
            raise TranslateError("nuts-derive: unbalanced table")
        if src[i] == '"':
            j = i + 1
            while src[j] != '"':
                j += 2 if src[j] == "\\" else 1
            i = j + 1
            continue
        if src[i] == "{":
            depth += 1
        elif src[i] == "}":
            depth -= 1
        i += 1
    body = src[m.end():i - 1]
    rows = []
    arm = re.compile(r'"((?:[^"\\]|\\.)*)"\s*=>\s*StorableField::Basic\s*\(\s*StorableBasicField\s*\{(.*?)\}\s*\)\s*,', re.S)
    pos = 0
    for a in arm.finditer(body):
        between = body[pos:a.start()].strip()
        if between:
            raise TranslateError("nuts-derive: unparsed text in the type table: %r" % between[:80])
        pos = a.end()
        pat, inner = a.group(1), a.group(2)
        it = re.search(r"item_type\s*:\s*quote!\s*\{\s*nuts_storable\s*::\s*ItemType\s*::\s*(\w+)\s*\}", inner)
        ve = re.search(r"value_expr\s*:\s*quote!\s*\{(.*?)\}\s*,\s*dims", inner, re.S)
        if not it or not ve:
            raise TranslateError("nuts-derive: cannot parse table row for %r" % pat)
        v = re.sub(r"\s+", "", ve.group(1))
        shapes = {
            "Some(nuts_storable::Value::from(self.#field_name))": "VSomeFrom",
            "self.#field_name.map(nuts_storable::Value::from)": "VMapFrom",
            "Some(nuts_storable::Value::ScalarString(self.#field_name.clone()))": "VSomeString",
            "self.#field_name.as_ref().map(|v|nuts_storable::Value::ScalarString(v.clone()))": "VMapString",
            "Some(nuts_storable::Value::from(self.#field_name.clone()))": "VSomeFromClone",
            "self.#field_name.as_ref().map(|v|nuts_storable::Value::from(v.clone()))": "VMapFromClone",
        }
        if v not in shapes:
            raise TranslateError("nuts-derive: unknown value_expr shape for %r: %s" % (pat, v))
        tags = {"U64": "TU64", "I64": "TI64", "F64": "TF64", "F32": "TF32", "Bool": "TBool", "String": "TString"}
        if it.group(1) not in tags:
            raise TranslateError("nuts-derive: unsupported ItemType::%s for %r" % (it.group(1), pat))
        rows.append((pat, tags[it.group(1)], shapes[v]))
    rest = body[pos:].strip()
    if not rest.startswith("_"):
        raise TranslateError("nuts-derive: expected the `_` arm after the table, found %r" % rest[:60])
    if not rows:
        raise TranslateError("nuts-derive: empty type table")
    _MACRO_CACHE[repo] = rows
    return rows


REPO = None


def classify_field(fname, ty, storable, where, generics):
    """Repeats the macro's decisions for one field."""
    ty_str = " ".join(ty)
    gnames = [g[0] for g in generics]

    def storable_bound(g):  # has_storable_bound: a bound whose path is the single segment `Storable`
        for name, bounds in generics:
            if name == g:
                for b in bounds:
                    last, nseg = bound_last_segment(b)
                    if last == "Storable" and nseg == 1:
                        return True
        return False

    is_option = ty[0] == "Option" and len(ty) > 3 and ty[1] == "<" and ty[-1] == ">"
    inner = ty[2:-1] if is_option else ty
    is_generic = len(inner) == 1 and inner[0] in gnames
    f = {"name": fname, "ty": ty_str, "dims": [], "event": None, "flatten": False, "ignore": False,
         "is_option": is_option, "is_generic": is_generic, "kind": None, "target": None}
    if storable and storable.get("ignore"):
        f["ignore"] = True
        f["kind"] = "ignored"
        return f
    if storable and storable.get("flatten"):
        f["flatten"] = True
        # Type::Path required
        if not re.match(r"^[A-Za-z_]", ty[0]):
            raise TranslateError("%s.%s: unsupported field type with flatten: %s" % (where, fname, ty_str))
        f["kind"] = "flatten"
        f["flat_option"] = is_option
        f["target"] = inner
        return f
    if storable:
        f["dims"] = storable.get("dims", [])
        f["event"] = storable.get("event")
    if len(ty) == 1 and ty[0] in gnames and storable_bound(ty[0]):
        raise TranslateError(
            "%s.%s: generic parameter field without #[storable(flatten)] takes the macro's "
            "StorableField::Generic path (event_dim of its names would hit the panic arm); not modelled"
            % (where, fname))
    if is_option and len(inner) == 1 and inner[0] in gnames and storable_bound(inner[0]):
        raise TranslateError("%s.%s: Option<generic parameter> without flatten (ItemType::Generic) is not modelled"
                             % (where, fname))
    if ty_str in table_patterns(REPO):
        f["kind"] = "basic"
        return f
    # the `_` arm: any other path type is treated as a flattened (non-Option) struct
    if not re.match(r"^[A-Za-z_]", ty[0]) or ty[0] in ("fn", "dyn", "impl"):
        raise TranslateError("%s.%s: unsupported field type %s" % (where, fname, ty_str))
    if f["dims"] or f["event"]:
        raise TranslateError("%s.%s: dims/event on a field the macro treats as a nested struct (%s)"
                             % (where, fname, ty_str))
    f["kind"] = "flatten"
    f["flat_option"] = False
    f["target"] = ty
    return f


# ------------------------------------------------------------------------------------------------
# Preset instantiation (hand-written, anchored in the source text)
# ------------------------------------------------------------------------------------------------
def norm(s):
    return re.sub(r"\s+", "", s)


# (file, anchor text that must occur in the file modulo white space)
ANCHORS = [
    ("chain.rs", "impl<M: Math, R: rand::Rng, A: AdaptStrategy<M>> SamplerStats<M> for NutsChain<M, R, A> {"
                 " type Stats = NutsStats< StatsDims, <A::Hamiltonian as SamplerStats<M>>::Stats, A::Stats,"
                 " <<A::Hamiltonian as Hamiltonian<M>>::Point as SamplerStats<M>>::Stats, >;"),
    ("mclmc.rs", "type Stats = MclmcStats< StatsDims, <TransformedHamiltonian<M, T> as SamplerStats<M>>::Stats,"
                 " A::Stats, <TransformedPoint<M> as SamplerStats<M>>::Stats, >;"),
    ("dynamics/transformed_hamiltonian.rs",
     "impl<M: Math, T: Transformation<M>> SamplerStats<M> for TransformedHamiltonian<M, T> {"
     " type Stats = HamiltonianStats<StatsDims, T::Stats>;"),
    ("dynamics/transformed_hamiltonian.rs",
     "impl<M: Math> SamplerStats<M> for TransformedPoint<M> { type Stats = PointStats;"),
    ("dynamics/transformed_hamiltonian.rs", "type Point = TransformedPoint<M>;"),
    ("transform/diagonal.rs", "impl<M: Math> SamplerStats<M> for DiagMassMatrix<M> { type Stats = DiagMassMatrixStats;"),
    ("transform/low_rank.rs", "impl<M: Math> SamplerStats<M> for LowRankMassMatrix<M> { type Stats = MatrixStats;"),
    ("transform/external.rs",
     "impl<M: Math> SamplerStats<M> for ExternalTransformation<M> { type Stats = ExternalTransformationStats;"),
    ("adapt_strategy.rs",
     "type Stats = GlobalStrategyStats<StatsDims, <StepSizeStrategy as SamplerStats<M>>::Stats, A::Stats>;"),
    ("adapt_strategy.rs", "type Hamiltonian = TransformedHamiltonian<M, A::Transformation>;"),
    ("stepsize/adapt.rs", "impl<M: Math> SamplerStats<M> for Strategy { type Stats = Stats;"),
    ("transform/adapt/diagonal.rs", "impl<M: Math> SamplerStats<M> for Strategy<M> { type Stats = Stats;"),
    ("transform/adapt/diagonal.rs", "type Transformation = DiagMassMatrix<M>;"),
    ("transform/adapt/low_rank.rs", "impl<M: Math> SamplerStats<M> for LowRankMassMatrixStrategy { type Stats = ();"),
    ("transform/adapt/low_rank.rs", "type Transformation = LowRankMassMatrix<M>;"),
    ("external_adapt_strategy.rs",
     "impl<M: Math> SamplerStats<M> for ExternalTransformAdaptation {"
     " type Stats = Stats<StatsDims, <StepSizeStrategy as SamplerStats<M>>::Stats>;"),
    ("external_adapt_strategy.rs", "type Hamiltonian = TransformedHamiltonian<M, ExternalTransformation<M>>;"),
    ("sampler.rs", "type DiagNutsChain<M> = NutsChain<M, ChaCha8Rng, GlobalStrategy<M, DiagAdaptStrategy<M>>>;"),
    ("sampler.rs", "type LowRankNutsChain<M> = NutsChain<M, ChaCha8Rng, GlobalStrategy<M, LowRankMassMatrixStrategy>>;"),
    ("sampler.rs", "type DiagMclmcChain<M> = crate::mclmc::MclmcChain< M, ChaCha8Rng,"
                   " GlobalStrategy<M, DiagAdaptStrategy<M>>, DiagMassMatrix<M>, >;"),
    ("sampler.rs", "type LowRankMclmcChain<M> = crate::mclmc::MclmcChain< M, ChaCha8Rng,"
                   " GlobalStrategy<M, LowRankMassMatrixStrategy>, LowRankMassMatrix<M>, >;"),
    ("sampler.rs", "impl Settings for DiagNutsSettings { type Chain<M: Math> = DiagNutsChain<M>;"),
    ("sampler.rs", "impl Settings for LowRankNutsSettings { type Chain<M: Math> = LowRankNutsChain<M>;"),
    ("sampler.rs", "impl Settings for FlowNutsSettings {"
                   " type Chain<M: Math> = NutsChain<M, ChaCha8Rng, ExternalTransformAdaptation>;"),
    ("sampler.rs", "impl Settings for DiagMclmcSettings { type Chain<M: Math> = DiagMclmcChain<M>;"),
    ("sampler.rs", "impl Settings for LowRankMclmcSettings { type Chain<M: Math> = LowRankMclmcChain<M>;"),
    ("sampler.rs", "impl Settings for FlowMclmcSettings { type Chain<M: Math> = crate::mclmc::MclmcChain<"
                   " M, ChaCha8Rng, ExternalTransformAdaptation, ExternalTransformation<M>, >;"),
    ("transform/adapt/mod.rs", "pub use diagonal::Strategy as DiagAdaptStrategy;"),
    ("adapt_strategy.rs", "use super::stepsize::{StepSizeSettings, Strategy as StepSizeStrategy};"),
    ("external_adapt_strategy.rs", "use crate::stepsize::{StepSizeSettings, Strategy as StepSizeStrategy};"),
    ("stepsize/mod.rs", "pub use adapt::{"),
]

# struct keys are (module file, struct name); "()" is the unit implementation of nuts-storable
S_NUTS = ("chain.rs", "NutsStats")
S_MCLMC = ("mclmc.rs", "MclmcStats")
S_HAM = ("dynamics/transformed_hamiltonian.rs", "HamiltonianStats")
S_POINT = ("dynamics/transformed_hamiltonian.rs", "PointStats")
S_DIAG = ("transform/diagonal.rs", "DiagMassMatrixStats")
S_LOWRANK = ("transform/low_rank.rs", "MatrixStats")
S_EXT = ("transform/external.rs", "ExternalTransformationStats")
S_GLOBAL = ("adapt_strategy.rs", "GlobalStrategyStats")
S_STEP = ("stepsize/adapt.rs", "Stats")
S_DIAGADAPT = ("transform/adapt/diagonal.rs", "Stats")
S_EXTADAPT = ("external_adapt_strategy.rs", "Stats")
UNIT = "()"


def ham(t):
    return (S_HAM, [t])


def glob(mm_adapt):
    return (S_GLOBAL, [(S_STEP, []), mm_adapt])


EXT_ADAPT = (S_EXTADAPT, [(S_STEP, [])])

# preset -> (top struct, [Storable arguments in declaration order])
PRESETS = [
    ("diag_nuts", (S_NUTS, [ham((S_DIAG, [])), glob((S_DIAGADAPT, [])), (S_POINT, [])])),
    ("lowrank_nuts", (S_NUTS, [ham((S_LOWRANK, [])), glob(UNIT), (S_POINT, [])])),
    ("flow_nuts", (S_NUTS, [ham((S_EXT, [])), EXT_ADAPT, (S_POINT, [])])),
    ("diag_mclmc", (S_MCLMC, [ham((S_DIAG, [])), glob((S_DIAGADAPT, [])), (S_POINT, [])])),
    ("lowrank_mclmc", (S_MCLMC, [ham((S_LOWRANK, [])), glob(UNIT), (S_POINT, [])])),
    ("flow_mclmc", (S_MCLMC, [ham((S_EXT, [])), EXT_ADAPT, (S_POINT, [])])),
]


def check_anchors(repo):
    cache = {}
    missing = []
    for f, text in ANCHORS:
        p = os.path.join(repo, "src", f)
        if p not in cache:
            try:
                cache[p] = norm(strip_comments(open(p).read()))
            except OSError:
                cache[p] = ""
        if norm(text) not in cache[p]:
            missing.append("%s: %s" % (f, text))
    if missing:
        raise TranslateError("preset instantiation table is outdated; source no longer contains:\n  " +
                             "\n  ".join(missing))


# ------------------------------------------------------------------------------------------------
# Coq output
# ------------------------------------------------------------------------------------------------
def cstr(s):
    return '"' + s.replace('"', '""') + '"'


def clist(items):
    return "[" + "; ".join(items) + "]"


def copt(x):
    return "None" if x is None else "Some %s" % cstr(x)


def cbool(b):
    return "true" if b else "false"


def ident_of(module, name):
    m = re.sub(r"\.rs$", "", module)
    m = re.sub(r"[^A-Za-z0-9]", "_", m)
    return "%s_%s" % (m, name)


def storable_params(st):
    """generic parameters with a Storable bound (any path ending in `Storable`)"""
    res = []
    for name, bounds in st["generics"]:
        if any(bound_last_segment(b)[0] == "Storable" for b in bounds):
            res.append(name)
    return res


def resolve_target(target, st, structs):
    """Type of a flattened field -> Coq term (a parameter name or a struct identifier)."""
    gen = storable_params(st)
    if len(target) == 1 and target[0] in gen:
        return "p_" + target[0]
    if len(target) == 1 and target[0] in [g[0] for g in st["generics"]]:
        raise TranslateError("%s::%s: flattened generic parameter %s has no Storable bound"
                             % (st["module"], st["name"], target[0]))
    if target == ["(", ")"]:
        return "unit_decl"
    # path, no generic arguments
    if "<" in target:
        raise TranslateError("%s::%s: flattened type with generic arguments (%s) is not supported"
                             % (st["module"], st["name"], " ".join(target)))
    segs = [t for t in target if t != "::"]
    last = segs[-1]
    same = [s for s in structs if s["name"] == last and s["module"] == st["module"]]
    cands = same or [s for s in structs if s["name"] == last]
    if len(cands) != 1:
        raise TranslateError("%s::%s: cannot resolve flattened type %s (%d candidates among the Storable structs)"
                             % (st["module"], st["name"], " ".join(target), len(cands)))
    c = cands[0]
    if storable_params(c):
        raise TranslateError("%s::%s: flattened generic struct %s without arguments"
                             % (st["module"], st["name"], last))
    return ident_of(c["module"], c["name"])


def field_term(f, st, structs):
    if f["kind"] == "ignored":
        return "Ignored"
    if f["kind"] == "basic":
        return "Basic %s %s %s %s" % (cstr(f["ty"]), clist([cstr(d) for d in f["dims"]]),
                                      "None" if f["event"] is None else "(Some %s)" % cstr(f["event"]),
                                      cbool(f["is_option"]))
    return "Flatten %s %s" % (resolve_target(f["target"], st, structs), cbool(f["flat_option"]))


def inst_term(inst, by_key):
    if inst == UNIT:
        return "unit_decl"
    key, args = inst
    if key not in by_key:
        raise TranslateError("preset table refers to %s::%s which no longer derives Storable" % key)
    st = by_key[key]
    params = storable_params(st)
    if len(params) != len(args):
        raise TranslateError("preset table: %s::%s has Storable parameters %s, table gives %d arguments"
                             % (key[0], key[1], params, len(args)))
    t = ident_of(*key)
    if not args:
        return t
    return "(%s %s)" % (t, " ".join(inst_term(a, by_key) for a in args))


def translate(repo):
    global REPO
    REPO = repo
    srcdir = os.path.join(repo, "src")
    if not os.path.isdir(srcdir):
        raise TranslateError("no src directory below %s" % repo)
    structs = []
    for root, _, files in sorted(os.walk(srcdir)):
        for fn in sorted(files):
            if not fn.endswith(".rs"):
                continue
            p = os.path.join(root, fn)
            src = open(p).read()
            if "Storable" not in src:
                continue
            structs += parse_structs(src, os.path.relpath(p, srcdir))
    if not structs:
        raise TranslateError("no struct with the Storable derive found below %s" % srcdir)
    idents = {}
    for s in structs:
        i = ident_of(s["module"], s["name"])
        if i in idents:
            raise TranslateError("two Storable structs map to the identifier %s" % i)
        idents[i] = s
    # dependency order (flatten targets first)
    by_ident = idents
    order, seen = [], set()

    def visit(i, stack=()):
        if i in seen:
            return
        if i in stack:
            raise TranslateError("recursive flatten through %s" % i)
        s = by_ident[i]
        for f in s["fields"]:
            if f["kind"] == "flatten":
                t = resolve_target(f["target"], s, structs)
                if t in by_ident:
                    visit(t, stack + (i,))
        seen.add(i)
        order.append(i)

    for i in sorted(by_ident):
        visit(i)
    check_anchors(repo)
    rows = parse_macro_table(repo)

    out = []
    out.append("(* GENERATED by tools/translate_storable.py from the sources below %s -- do not edit.\n"
               "   Regenerated on every run of ./check C16. *)" % "the crate root")
    out.append("From Coq Require Import String List Bool.")
    out.append("From NutsV Require Import model.Derive.")
    out.append("Import ListNotations.")
    out.append("Local Open Scope string_scope.")
    out.append("Local Open Scope list_scope.\n")
    out.append("(* rows of `match ty_str.as_str()` in nuts-derive/src/lib.rs, in source order *)")
    out.append("Definition macro_table_src : list (string * (item_tag * vexpr)) :=\n  " +
               clist(["(%s, (%s, %s))" % (cstr(p), t, v) for p, t, v in rows]).replace("; ", ";\n   ") + ".\n")
    out.append("(* ---- raw embedding ---- *)")
    raws = []
    for i in order:
        s = by_ident[i]
        fl = []
        for f in s["fields"]:
            fl.append("{| rf_name := %s; rf_ty := %s; rf_dims := %s; rf_event := %s; rf_flatten := %s; "
                      "rf_ignore := %s; rf_is_option := %s; rf_is_generic := %s |}"
                      % (cstr(f["name"]), cstr(f["ty"]), clist([cstr(d) for d in f["dims"]]), copt(f["event"]),
                         cbool(f["flatten"]), cbool(f["ignore"]), cbool(f["is_option"]), cbool(f["is_generic"])))
        out.append("Definition raw_%s : raw_struct :=\n  {| rs_ident := %s; rs_name := %s; rs_module := %s;\n"
                   "     rs_generics := %s;\n     rs_fields := [\n       %s ] |}.\n"
                   % (i, cstr(i), cstr(s["name"]), cstr(s["module"]),
                      clist(["(%s, %s)" % (cstr(g), clist([cstr(b) for b in bs])) for g, bs in s["generics"]]),
                      ";\n       ".join(fl)))
        raws.append("raw_%s" % i)
    out.append("Definition raw_structs : list raw_struct :=\n  %s.\n" % clist(raws))
    out.append("(* ---- declarations (generic parameters with a Storable bound are arguments) ---- *)")
    closed = []
    for i in order:
        s = by_ident[i]
        params = storable_params(s)
        args = "".join(" (p_%s : decl)" % p for p in params)
        fl = ["(%s, %s)" % (cstr(f["name"]), field_term(f, s, structs)) for f in s["fields"]]
        out.append("Definition %s%s : decl :=\n  Struct %s [\n    %s ].\n"
                   % (i, args, cstr(s["name"]), ";\n    ".join(fl)))
        dummy = " ".join(["unit_decl"] * len(params))
        closed.append("(raw_%s, %s)" % (i, ("(%s %s)" % (i, dummy)) if params else i))
    out.append("(* every declaration (generic ones closed with the unit declaration) next to its raw text *)")
    out.append("Definition decls_with_raw : list (raw_struct * decl) :=\n  %s.\n" % clist(closed).replace("; ", ";\n   "))
    out.append("(* ---- the six presets (instantiation table of the translator, anchored in sampler.rs) ---- *)")
    by_key = {(s["module"], s["name"]): s for s in structs}
    pl = []
    for name, inst in PRESETS:
        out.append("Definition preset_%s : decl := %s." % (name, inst_term(inst, by_key).strip()))
        pl.append("(%s, preset_%s)" % (cstr(name), name))
    out.append("\nDefinition presets : list (string * decl) :=\n  %s." % clist(pl).replace("; ", ";\n   "))
    return "\n".join(out) + "\n", structs


def main():
    import argparse
    here = os.path.dirname(os.path.dirname(os.path.abspath(__file__)))
    ap = argparse.ArgumentParser()
    ap.add_argument("--repo", default=os.environ.get("VERIF_REPO", "/repo"))
    ap.add_argument("--out", default=os.path.join(here, "coq", "gen", "StorableDecls.v"))
    ap.add_argument("--json", action="store_true", help="also print the parsed structs as JSON")
    a = ap.parse_args()
    try:
        txt, structs = translate(a.repo)
    except TranslateError as e:
        print("translate_storable: ERROR: %s" % e, file=sys.stderr)
        sys.exit(2)
    os.makedirs(os.path.dirname(a.out), exist_ok=True)
    old = open(a.out).read() if os.path.exists(a.out) else None
    if old != txt:
        with open(a.out, "w") as f:
            f.write(txt)
    if a.json:
        print(json.dumps(structs, indent=1))
    print("translate_storable: %d structs -> %s%s" % (len(structs), a.out, "" if old != txt else " (unchanged)"))


if __name__ == "__main__":
    main()
